//! C13 — the real stage functions (lifecycle detection, plugins, time sort, filter) wired with
//! std::sync::mpsc::sync_channel(0|1|2|7|large) and the real send helper, producer/consumer pacing and
//! early consumer drop scripted from the seed, compared with the large-capacity reference run of the
//! same pipeline; Pipe/Kahn.v runs the same abstract schedule on table stages (Exec/C13.v).
use adlt::dlt::DltMessage;
use adlt::filter::functions::filter_as_streams;
use adlt::filter::Filter;
use adlt::lifecycle::{parse_lifecycles_buffered_from_stream, Lifecycle, LifecycleId, LifecycleItem};
use adlt::plugins::plugin::{Plugin, PluginState};
use adlt::plugins::plugins_process_msgs;
use adlt::utils::{buffer_sort_messages, sync_sender_send_delay_if_full};
use std::sync::mpsc::{sync_channel, Receiver, SyncSender};
use std::sync::{Arc, Mutex, RwLock};
use std::time::{Duration, Instant};
use vharness::*;

const LARGE: usize = 4096;
const RHO: u64 = 1_000_000_000_000;
type Hasher = nohash_hasher::BuildNoHashHasher<LifecycleId>;
type LcsR = evmap::ReadHandle<LifecycleId, LifecycleItem, (), Hasher>;
type LcsW = evmap::WriteHandle<LifecycleId, LifecycleItem, (), Hasher>;

// ------------------------------------------------------------------ case description
/// (ecu number, reception time us, timestamp 0.1 ms, kind: 0 log / 1 control request / 2 no ext header)
type MsgSpec = (u8, u64, u32, u8);

#[derive(Clone, Debug, PartialEq)]
enum StageSpec {
    /// parse_lifecycles_buffered_from_stream
    Lc,
    /// plugins_process_msgs: 0 = no plugin, k>=2 = a plugin dropping every message with index % k == 0
    /// followed by a plugin numbering the messages it sees (payload_text); a non-empty pacing script adds a
    /// plugin that stalls the stage thread before message i (a slow stage in the middle of the pipeline)
    Plugins(u32, Vec<u8>),
    /// buffer_sort_messages(window secs, min_buffer_delay_us, live?) live = the lifecycle table of the Lc stage of this pipeline
    Sort(u8, u64, bool),
    /// filter_as_streams with filters given as json
    Filter(Vec<String>),
    /// plugins_process_msgs with a plugin that got the lifecycle read handle (set_lifecycle_read_handle, as remote.rs does)
    /// and looks every message's lifecycle up in the shared table when it gets the message; the result goes into the text
    Probe,
    /// plugins_process_msgs with the real export plugin configured with lifecyclesToKeep and the lifecycle read handle
    Export,
    /// plugins_process_msgs with a chain of plugins that REJECT messages (scripted by index, the real FileTransfer plugin
    /// with keepFLDA:false on FLDA messages) and plugins that only rewrite; a non-empty pacing script adds a stalling plugin
    Chain(Vec<Plug>, Vec<u8>),
}

/// one plugin of a chain
#[derive(Clone, Debug, PartialEq)]
enum Plug {
    /// scripted: process_msg returns false for the messages with these indices
    Reject(Vec<u32>),
    /// rewrites the text (appends "m<number of messages seen>"), accepts everything
    Mark,
    /// the real FileTransfer plugin: (keepFLDA, restricted to apid FTA / ctid FTC)
    Ft(bool, bool),
}
impl Plug {
    fn to_json(&self) -> Value {
        match self {
            Plug::Reject(v) => json!({"p": "reject", "idx": v}),
            Plug::Mark => json!({"p": "mark"}),
            Plug::Ft(k, r) => json!({"p": "ft", "keep": k, "restrict": r}),
        }
    }
    fn from_json(v: &Value) -> Plug {
        match v["p"].as_str().unwrap() {
            "reject" => Plug::Reject(serde_json::from_value(v["idx"].clone()).unwrap()),
            "mark" => Plug::Mark,
            _ => Plug::Ft(v["keep"].as_bool().unwrap(), v["restrict"].as_bool().unwrap()),
        }
    }
}

impl StageSpec {
    fn to_json(&self) -> Value {
        match self {
            StageSpec::Lc => json!({"k": "lc"}),
            StageSpec::Plugins(k, st) => json!({"k": "plugins", "drop": k, "stall": st}),
            StageSpec::Sort(w, d, l) => json!({"k": "sort", "win": w, "delay": d, "live": l}),
            StageSpec::Filter(f) => json!({"k": "filter", "filters": f}),
            StageSpec::Probe => json!({"k": "probe"}),
            StageSpec::Export => json!({"k": "export"}),
            StageSpec::Chain(c, st) => json!({"k": "chain", "plugins": c.iter().map(|p| p.to_json()).collect::<Vec<_>>(), "stall": st}),
        }
    }
    fn from_json(v: &Value) -> StageSpec {
        match v["k"].as_str().unwrap() {
            "lc" => StageSpec::Lc,
            "plugins" => StageSpec::Plugins(v["drop"].as_u64().unwrap() as u32, serde_json::from_value(v["stall"].clone()).unwrap_or_default()),
            "sort" => StageSpec::Sort(v["win"].as_u64().unwrap() as u8, v["delay"].as_u64().unwrap(), v["live"].as_bool().unwrap()),
            "probe" => StageSpec::Probe,
            "export" => StageSpec::Export,
            "chain" => StageSpec::Chain(v["plugins"].as_array().unwrap().iter().map(Plug::from_json).collect(), serde_json::from_value(v["stall"].clone()).unwrap_or_default()),
            _ => StageSpec::Filter(v["filters"].as_array().unwrap().iter().map(|s| s.as_str().unwrap().to_string()).collect()),
        }
    }
    fn policy(&self) -> u64 {
        if *self == StageSpec::Lc {
            1
        } else {
            0
        }
    }
    fn tag(&self) -> &'static str {
        match self {
            StageSpec::Lc => "L",
            StageSpec::Plugins(_, st) => {
                if st.is_empty() {
                    "P"
                } else {
                    "Pstall"
                }
            }
            StageSpec::Sort(_, _, true) => "Slive",
            StageSpec::Sort(_, _, false) => "S",
            StageSpec::Filter(_) => "F",
            StageSpec::Probe => "R",
            StageSpec::Export => "X",
            StageSpec::Chain(_, st) => {
                if st.is_empty() {
                    "C"
                } else {
                    "Cstall"
                }
            }
        }
    }
}

#[derive(Clone, Debug)]
struct Pipeline {
    msgs: Vec<MsgSpec>,
    stages: Vec<StageSpec>,
    /// Some(i): msgs[i..] is a long tidy tail (a producer that would go on for a long time): after a consumer
    /// drop the producer must be refused a message long before its input ends
    tail_from: Option<usize>,
    /// the calculated start of every lifecycle is fixed by its first message (constant reception - timestamp per boot):
    /// the start time the live sort reads does not depend on when it reads it, its output order can be compared exactly
    stable_starts: bool,
}

/// one scripted run of a pipeline
#[derive(Clone, Debug)]
struct Script {
    caps: Vec<usize>,      // stages + 1 channels
    prod: Vec<u8>,         // pacing of the producer before message i (cyclic): 0 none 1 yield 2 200us 3 2ms 4 12ms
    cons: Vec<u8>,         // pacing of the consumer before recv i (cyclic)
    drop_at: Option<usize>, // consumer takes that many messages, then drops the receiver
    sched: Vec<u64>,       // schedule of the model run
    attr_seed: u64,        // attribution of the reference outputs to inputs for the table stages
    hops: Vec<Vec<u8>>,    // per stage: pacing before its j-th send (cyclic); empty = none
}

fn pace(code: u8) {
    match code {
        0 => {}
        1 => std::thread::yield_now(),
        2 => std::thread::sleep(Duration::from_micros(200)),
        3 => std::thread::sleep(Duration::from_millis(2)),
        _ => std::thread::sleep(Duration::from_millis(12)),
    }
}

fn build_msg(i: usize, s: &MsgSpec) -> DltMessage {
    build_ft(i, s, 100 * s.0 as u32, 1, 1)
}

// verbose arguments (little endian, as the standard header of dltgen::plain_msg says)
fn arg_str(p: &mut Vec<u8>, s: &str) {
    p.extend_from_slice(&0x200u32.to_le_bytes());
    p.extend_from_slice(&((s.len() + 1) as u16).to_le_bytes());
    p.extend_from_slice(s.as_bytes());
    p.push(0);
}
fn arg_u32(p: &mut Vec<u8>, v: u32) {
    p.extend_from_slice(&0x43u32.to_le_bytes());
    p.extend_from_slice(&v.to_le_bytes());
}
fn arg_u16(p: &mut Vec<u8>, v: u16) {
    p.extend_from_slice(&0x42u32.to_le_bytes());
    p.extend_from_slice(&v.to_le_bytes());
}
fn arg_raw(p: &mut Vec<u8>, d: &[u8]) {
    p.extend_from_slice(&0x400u32.to_le_bytes());
    p.extend_from_slice(&(d.len() as u16).to_le_bytes());
    p.extend_from_slice(d);
}

/// kinds: 0 log / 1 control request / 2 no extended header / 3 FLST / 4 FLDA / 5 FLFI (apid FTA, ctid FTC) /
/// 6 FLDA of another application (APP1/CTX1) / 7 looks like an FLDA but ends with "FLDX" / 8 starts and ends with "FLDA"
/// but has 4 arguments
fn build_ft(i: usize, s: &MsgSpec, serial: u32, pkg: u32, nr_pkgs: u32) -> DltMessage {
    let m = dltgen::plain_msg(i as u32, s.0, s.1, s.2);
    let mut p = vec![];
    match s.3 {
        0 => {
            let apid = [b'A', b'P', b'0' + (i % 3) as u8, 0];
            dltgen::with_ext(m, 0x41, 0, &apid, b"CTX\0")
        }
        1 => dltgen::with_ext(m, (3 << 1) | (1 << 4), 0, b"DA1\0", b"DC1\0"),
        2 => m,
        3 => {
            arg_str(&mut p, "FLST");
            arg_u32(&mut p, serial);
            arg_str(&mut p, "f.bin");
            arg_u32(&mut p, nr_pkgs * 4);
            arg_str(&mut p, "date");
            arg_u32(&mut p, nr_pkgs);
            arg_u16(&mut p, 4);
            arg_str(&mut p, "FLST");
            let mut m = dltgen::with_ext(m, 0x41, 8, b"FTA\0", b"FTC\0");
            m.payload = p;
            m
        }
        5 => {
            arg_str(&mut p, "FLFI");
            arg_u32(&mut p, serial);
            arg_str(&mut p, "FLFI");
            let mut m = dltgen::with_ext(m, 0x41, 3, b"FTA\0", b"FTC\0");
            m.payload = p;
            m
        }
        k => {
            arg_str(&mut p, "FLDA");
            arg_u32(&mut p, serial);
            if k != 8 {
                arg_u32(&mut p, pkg);
            }
            arg_raw(&mut p, &[i as u8, 1, 2, 3]);
            arg_str(&mut p, if k == 7 { "FLDX" } else { "FLDA" });
            let (a, c): (&[u8; 4], &[u8; 4]) = if k == 6 { (b"APP1", b"CTX1") } else { (b"FTA\0", b"FTC\0") };
            let mut m = dltgen::with_ext(m, 0x41, if k == 8 { 4 } else { 5 }, a, c);
            m.payload = p;
            m
        }
    }
}

/// the messages of a stream; the file transfer messages of an ecu get the serial of its last FLST (one per FLST), the FLDA
/// messages consecutive package numbers, the FLST announces the number of FLDA messages that follow it
fn build_stream(msgs: &[MsgSpec]) -> Vec<DltMessage> {
    let mut st: std::collections::BTreeMap<u8, (u32, u32)> = Default::default(); // ecu -> (serial, next package)
    msgs.iter()
        .enumerate()
        .map(|(i, m)| {
            if m.3 < 3 {
                return build_ft(i, m, 0, 0, 0);
            }
            let e = st.entry(m.0).or_insert((100 * m.0 as u32, 1));
            match m.3 {
                3 => {
                    *e = (e.0 + 1, 1);
                    let n = msgs[i + 1..].iter().filter(|x| x.0 == m.0).take_while(|x| x.3 != 3 && x.3 != 5).filter(|x| x.3 == 4).count() as u32;
                    build_ft(i, m, e.0, 0, n.max(1))
                }
                4 => {
                    e.1 += 1;
                    build_ft(i, m, e.0, e.1 - 1, 0)
                }
                _ => build_ft(i, m, e.0, 1, 0),
            }
        })
        .collect()
}

/// the file-transfer data packages the FileTransfer plugin is specified to drop with keepFLDA:false (verbose log info message
/// with 5 arguments that starts and ends with "FLDA", of its apid/ctid when it is restricted to one)
fn spec_ft_rejects(kind: u8, keep: bool, restrict: bool) -> bool {
    !keep && (kind == 4 || (kind == 6 && !restrict))
}

// ------------------------------------------------------------------ trivial plugins
struct DropEvery {
    k: u32,
    state: Arc<RwLock<PluginState>>,
}
impl Plugin for DropEvery {
    fn name(&self) -> &str {
        "drop_every"
    }
    fn enabled(&self) -> bool {
        true
    }
    fn state(&self) -> Arc<RwLock<PluginState>> {
        self.state.clone()
    }
    fn set_lifecycle_read_handle(&mut self, _lcs_r: &adlt::lifecycle::LcsRType) {}
    fn sync_all(&mut self) {}
    fn process_msg(&mut self, msg: &mut DltMessage) -> bool {
        msg.index % self.k != 0
    }
}
/// numbers the messages in the order it sees them: any reordering / loss upstream becomes visible in the text
struct Numbering {
    n: u32,
    state: Arc<RwLock<PluginState>>,
}
impl Plugin for Numbering {
    fn name(&self) -> &str {
        "numbering"
    }
    fn enabled(&self) -> bool {
        true
    }
    fn state(&self) -> Arc<RwLock<PluginState>> {
        self.state.clone()
    }
    fn set_lifecycle_read_handle(&mut self, _lcs_r: &adlt::lifecycle::LcsRType) {}
    fn sync_all(&mut self) {}
    fn process_msg(&mut self, msg: &mut DltMessage) -> bool {
        msg.payload_text = Some(format!("n{}", self.n));
        self.n += 1;
        true
    }
}

/// rejects the messages with the scripted indices
struct RejectIdx {
    idx: Vec<u32>,
    state: Arc<RwLock<PluginState>>,
}
impl Plugin for RejectIdx {
    fn name(&self) -> &str {
        "reject_idx"
    }
    fn enabled(&self) -> bool {
        true
    }
    fn state(&self) -> Arc<RwLock<PluginState>> {
        self.state.clone()
    }
    fn set_lifecycle_read_handle(&mut self, _lcs_r: &adlt::lifecycle::LcsRType) {}
    fn sync_all(&mut self) {}
    fn process_msg(&mut self, msg: &mut DltMessage) -> bool {
        !self.idx.contains(&msg.index)
    }
}
/// rewrites the text: any message a plugin in front of it swallowed, or that it did not get, shifts the numbers
struct MarkSeen {
    n: u32,
    state: Arc<RwLock<PluginState>>,
}
impl Plugin for MarkSeen {
    fn name(&self) -> &str {
        "mark_seen"
    }
    fn enabled(&self) -> bool {
        true
    }
    fn state(&self) -> Arc<RwLock<PluginState>> {
        self.state.clone()
    }
    fn set_lifecycle_read_handle(&mut self, _lcs_r: &adlt::lifecycle::LcsRType) {}
    fn sync_all(&mut self) {}
    fn process_msg(&mut self, msg: &mut DltMessage) -> bool {
        msg.payload_text = Some(format!("{}m{}", msg.payload_text.clone().unwrap_or_default(), self.n));
        self.n += 1;
        true
    }
}
/// what a plugin was asked and what it answered: (message index, verdict of process_msg), in the order of the calls
type PlugLog = Arc<Mutex<Vec<(u32, bool)>>>;
/// wraps a plugin of a chain and records every call of process_msg
struct Counted {
    inner: Box<dyn Plugin + Send>,
    log: PlugLog,
}
impl Plugin for Counted {
    fn name(&self) -> &str {
        self.inner.name()
    }
    fn enabled(&self) -> bool {
        self.inner.enabled()
    }
    fn state(&self) -> Arc<RwLock<PluginState>> {
        self.inner.state()
    }
    fn set_lifecycle_read_handle(&mut self, lcs_r: &adlt::lifecycle::LcsRType) {
        self.inner.set_lifecycle_read_handle(lcs_r)
    }
    fn sync_all(&mut self) {
        self.inner.sync_all()
    }
    fn process_msg(&mut self, msg: &mut DltMessage) -> bool {
        let idx = msg.index;
        let r = self.inner.process_msg(msg);
        self.log.lock().unwrap().push((idx, r));
        r
    }
}

/// number of plugins of a stage the specification (and the model) knows about (the stalling plugin is pacing only)
fn n_plugins(st: &StageSpec) -> usize {
    match st {
        StageSpec::Plugins(k, _) => {
            if *k >= 2 {
                2
            } else {
                0
            }
        }
        StageSpec::Probe | StageSpec::Export => 1,
        StageSpec::Chain(c, _) => c.len(),
        _ => 0,
    }
}

/// the plugins of a Plugins / Chain stage, each wrapped in a recorder; `stall`: the pacing plugin in front (not recorded)
fn make_plugins(st: &StageSpec, paced: bool, logs: &[PlugLog]) -> (Vec<Box<dyn Plugin + Send>>, usize) {
    let state = || Arc::new(RwLock::new(PluginState::default()));
    let mut plugins: Vec<Box<dyn Plugin + Send>> = vec![];
    let mut inner: Vec<Box<dyn Plugin + Send>> = vec![];
    let stall = match st {
        StageSpec::Plugins(_, s) | StageSpec::Chain(_, s) if paced => s.clone(),
        _ => vec![],
    };
    let n_stall = if stall.is_empty() { 0 } else { 1 };
    if !stall.is_empty() {
        plugins.push(Box::new(Stall { script: stall, i: 0, state: state() }));
    }
    match st {
        StageSpec::Plugins(k, _) if *k >= 2 => {
            inner.push(Box::new(DropEvery { k: *k, state: state() }));
            inner.push(Box::new(Numbering { n: 0, state: state() }));
        }
        StageSpec::Chain(c, _) => {
            for pl in c {
                inner.push(match pl {
                    Plug::Reject(idx) => Box::new(RejectIdx { idx: idx.clone(), state: state() }),
                    Plug::Mark => Box::new(MarkSeen { n: 0, state: state() }),
                    Plug::Ft(keep, restrict) => {
                        let mut cfg = json!({"name": "FileTransfer", "allowSave": false, "keepFLDA": keep});
                        if *restrict {
                            cfg["apid"] = json!("FTA");
                            cfg["ctid"] = json!("FTC");
                        }
                        Box::new(adlt::plugins::file_transfer::FileTransferPlugin::from_json(cfg.as_object().unwrap()).expect("file transfer plugin"))
                    }
                });
            }
        }
        _ => {}
    }
    for (j, pl) in inner.into_iter().enumerate() {
        match logs.get(j) {
            Some(l) => plugins.push(Box::new(Counted { inner: pl, log: l.clone() })),
            None => plugins.push(pl),
        }
    }
    (plugins, n_stall)
}

/// a downstream stage that reads the lifecycle table out of band: looks the lifecycle of every message up when it gets it
struct LcProbe {
    lcs_r: Option<adlt::lifecycle::LcsRType>,
    state: Arc<RwLock<PluginState>>,
}
impl Plugin for LcProbe {
    fn name(&self) -> &str {
        "lc_probe"
    }
    fn enabled(&self) -> bool {
        true
    }
    fn state(&self) -> Arc<RwLock<PluginState>> {
        self.state.clone()
    }
    fn set_lifecycle_read_handle(&mut self, lcs_r: &adlt::lifecycle::LcsRType) {
        self.lcs_r = Some(lcs_r.clone());
    }
    fn sync_all(&mut self) {}
    fn process_msg(&mut self, msg: &mut DltMessage) -> bool {
        // k1 = known with the message's ecu, k2 = known with another ecu, k0 = not (yet) in the table
        let code = match self.lcs_r.as_ref().and_then(|r| r.get_one(&msg.lifecycle).map(|lc| lc.ecu == msg.ecu)) {
            Some(true) => "k1",
            Some(false) => "k2",
            None => "k0",
        };
        msg.payload_text = Some(format!("{}{}", msg.payload_text.clone().unwrap_or_default(), code));
        true
    }
}

/// a slow stage: stalls before the i-th message it sees
struct Stall {
    script: Vec<u8>,
    i: usize,
    state: Arc<RwLock<PluginState>>,
}
impl Plugin for Stall {
    fn name(&self) -> &str {
        "stall"
    }
    fn enabled(&self) -> bool {
        true
    }
    fn state(&self) -> Arc<RwLock<PluginState>> {
        self.state.clone()
    }
    fn set_lifecycle_read_handle(&mut self, _lcs_r: &adlt::lifecycle::LcsRType) {}
    fn sync_all(&mut self) {}
    fn process_msg(&mut self, _msg: &mut DltMessage) -> bool {
        pace(self.script[self.i % self.script.len()]);
        self.i += 1;
        true
    }
}

// ------------------------------------------------------------------ one run of the real code
/// what a message looks like at the consumer: (index, lifecycle id, ecu, reception, timestamp, text)
type Seen = (u32, u32, u32, u64, u32, String);

#[derive(Clone, Debug, PartialEq)]
enum StageRes {
    /// lifecycle table: (id, ecu, nr_msgs, start_time, end_time, refresh idx)
    Table(Vec<(u32, u32, u32, u64, u64, u32)>),
    Plugins(bool, usize),
    Sort(bool),
    Filter(bool, usize, usize),
    Panicked,
    NotJoined,
}

struct RunOut {
    delivered: Vec<Seen>,
    taps: Vec<Vec<u32>>,   // per stage: indices passed to outflow, in order
    results: Vec<StageRes>, // per stage
    producer_sent: usize,
    unknown_at_delivery: Vec<u32>, // delivered messages whose lifecycle was not in the shared table (with their ecu) at delivery
    sent_at_drop: usize, // messages the producer had sent when the consumer dropped its receiver
    producer_err: bool,
    hung: Vec<usize>, // thread numbers (0 = producer, i+1 = stage i) not finished within the timeout
    full_hits: usize, // sends that took the Full branch of the helper (measured: >= 9 ms)
    wall_ms: u128,
    /// per stage, per plugin of its chain (in the order of the chain): the calls of process_msg (message index, verdict)
    plog: Vec<Vec<Vec<(u32, bool)>>>,
    /// keys of the shared lifecycle table that did not have exactly one value when the consumer looked: (id, number of values)
    bag_defects: Vec<(u32, usize)>,
}

struct DoneGuard(SyncSender<usize>, usize);
impl Drop for DoneGuard {
    fn drop(&mut self) {
        let _ = self.0.send(self.1);
    }
}

fn seen(m: &DltMessage) -> Seen {
    (m.index, m.lifecycle, u32::from_be_bytes([m.ecu.as_buf()[0], m.ecu.as_buf()[1], m.ecu.as_buf()[2], m.ecu.as_buf()[3]]), m.reception_time_us, m.timestamp_dms, m.payload_text.clone().unwrap_or_default())
}

/// the keys of the table that do not have exactly one value (evmap keeps a bag of values per key; the lifecycle stage only
/// ever replaces the value of a key or removes the key, readers like remote.rs `b.get_one().unwrap()` rely on it)
fn bag_defects(lcs_r: &LcsR) -> Vec<(u32, usize)> {
    let mut v = vec![];
    if let Some(r) = lcs_r.read() {
        for (id, bag) in &r {
            if bag.len() != 1 {
                v.push((*id, bag.len()));
            }
        }
    }
    v.sort();
    v
}
fn note_bag_defects(lcs_r: &LcsR, into: &mut Vec<(u32, usize)>) {
    for d in bag_defects(lcs_r) {
        if !into.contains(&d) {
            into.push(d);
        }
    }
}

fn read_table(lcs_r: &LcsR) -> Vec<(u32, u32, u32, u64, u64, u32)> {
    let mut v = vec![];
    if let Some(r) = lcs_r.read() {
        for (id, bag) in &r {
            if let Some(lc) = bag.get_one() {
                let lc: &Lifecycle = lc;
                let e = lc.ecu.as_buf();
                v.push((*id, u32::from_be_bytes([e[0], e[1], e[2], e[3]]), lc.nr_msgs, lc.start_time, lc.end_time(), lc.lcs_w_refresh_idx));
            }
        }
    }
    v.sort();
    v
}

fn run_real(p: &Pipeline, s: &Script, hang_timeout: Duration) -> RunOut {
    let t0 = Instant::now();
    let paced = !s.sched.is_empty(); // the reference run is not paced
    let n = p.stages.len();
    assert_eq!(s.caps.len(), n + 1);
    let full_hits = Arc::new(std::sync::atomic::AtomicUsize::new(0));
    let taps: Vec<Arc<Mutex<Vec<u32>>>> = (0..n).map(|_| Arc::new(Mutex::new(vec![]))).collect();
    let (done_tx, done_rx) = sync_channel::<usize>(n + 2);
    let (lcs_r, lcs_w) = evmap::Options::default().with_hasher(Hasher::default()).construct::<LifecycleId, LifecycleItem>();
    let mut lcs_w = Some(lcs_w);
    // a read handle that never sees data for sorts that are not "live"
    let (frozen_r, _frozen_w) = evmap::Options::default().with_hasher(Hasher::default()).construct::<LifecycleId, LifecycleItem>();

    // channels
    let (tx0, mut rx_prev): (SyncSender<DltMessage>, Receiver<DltMessage>) = sync_channel(s.caps[0]);
    // producer, as in convert.rs: helper, break on Err, drop the sender at the end
    let msgs: Vec<DltMessage> = build_stream(&p.msgs);
    let plogs: Vec<Vec<PlugLog>> = p.stages.iter().map(|st| (0..n_plugins(st)).map(|_| Arc::new(Mutex::new(vec![]))).collect()).collect();
    let prod_script = s.prod.clone();
    let g = DoneGuard(done_tx.clone(), 0);
    let fh = full_hits.clone();
    let sent_ctr = Arc::new(std::sync::atomic::AtomicUsize::new(0));
    let sent_ctr2 = sent_ctr.clone();
    let producer = std::thread::spawn(move || {
        let _g = g;
        let mut sent = 0usize;
        let mut err = false;
        for (i, msg) in msgs.into_iter().enumerate() {
            if !prod_script.is_empty() {
                pace(prod_script[i % prod_script.len()]);
            }
            let t = Instant::now();
            match sync_sender_send_delay_if_full(msg, &tx0) {
                Ok(()) => {
                    sent += 1;
                    sent_ctr2.store(sent, std::sync::atomic::Ordering::SeqCst);
                }
                Err(_) => {
                    err = true;
                    break;
                }
            }
            if t.elapsed() >= Duration::from_millis(9) {
                fh.fetch_add(1, std::sync::atomic::Ordering::Relaxed);
            }
        }
        drop(tx0);
        (sent, err)
    });

    enum H {
        Lc(std::thread::JoinHandle<LcsW>),
        Other(std::thread::JoinHandle<StageRes>),
    }
    let mut handles: Vec<H> = vec![];
    for (i, st) in p.stages.iter().enumerate() {
        let (tx, rx_next) = sync_channel::<DltMessage>(s.caps[i + 1]);
        let rx = std::mem::replace(&mut rx_prev, rx_next);
        let tap = taps[i].clone();
        let hop: Vec<u8> = s.hops.get(i).cloned().unwrap_or_default();
        let g = DoneGuard(done_tx.clone(), i + 1);
        let fh = full_hits.clone();
        // the outflow closure of convert.rs `&|m| sync_sender_send_delay_if_full(m, &tx)` plus a tap
        macro_rules! outflow {
            () => {
                &|m: DltMessage| {
                    let nth = {
                        let mut t = tap.lock().unwrap();
                        t.push(m.index);
                        t.len() - 1
                    };
                    if !hop.is_empty() {
                        pace(hop[nth % hop.len()]);
                    }
                    let t = Instant::now();
                    let r = sync_sender_send_delay_if_full(m, &tx);
                    if t.elapsed() >= Duration::from_millis(9) {
                        fh.fetch_add(1, std::sync::atomic::Ordering::Relaxed);
                    }
                    r
                }
            };
        }
        match st {
            StageSpec::Lc => {
                let w = lcs_w.take().expect("at most one lifecycle stage");
                handles.push(H::Lc(std::thread::spawn(move || {
                    let _g = g;
                    parse_lifecycles_buffered_from_stream(w, rx, outflow!())
                })));
            }
            StageSpec::Plugins(..) | StageSpec::Chain(..) => {
                let st = st.clone();
                let logs = plogs[i].clone();
                handles.push(H::Other(std::thread::spawn(move || {
                    let _g = g;
                    let (plugins, n_stall) = make_plugins(&st, paced, &logs);
                    match plugins_process_msgs(rx, outflow!(), plugins) {
                        Ok(p) => StageRes::Plugins(true, p.len() - n_stall),
                        Err(_) => StageRes::Plugins(false, 0),
                    }
                })));
            }
            StageSpec::Sort(win, delay, live) => {
                let (win, delay) = (*win, *delay);
                let r = if *live { lcs_r.clone() } else { frozen_r.clone() };
                handles.push(H::Other(std::thread::spawn(move || {
                    let _g = g;
                    StageRes::Sort(buffer_sort_messages(rx, outflow!(), &r, win, delay).is_ok())
                })));
            }
            StageSpec::Probe | StageSpec::Export => {
                let r = lcs_r.clone();
                let export = *st == StageSpec::Export;
                let log = plogs[i][0].clone();
                handles.push(H::Other(std::thread::spawn(move || {
                    let _g = g;
                    let dir = tempfile::tempdir().expect("tempdir");
                    let plugin: Box<dyn Plugin + Send> = if export {
                        let cfg = json!({"name": "Export", "exportFileName": dir.path().join("out.dlt").to_string_lossy(), "filters": [],
                                         "lifecyclesToKeep": [{"ecu": "ZZZZ", "startTime": 1, "endTime": 2}]});
                        Box::new(adlt::plugins::export::ExportPlugin::from_json(cfg.as_object().unwrap()).expect("export plugin"))
                    } else {
                        Box::new(LcProbe { lcs_r: None, state: Arc::new(RwLock::new(PluginState::default())) })
                    };
                    let mut plugin: Box<dyn Plugin + Send> = Box::new(Counted { inner: plugin, log });
                    // as remote.rs: the read handle is handed to the plugins before any message is processed
                    plugin.set_lifecycle_read_handle(&r);
                    match plugins_process_msgs(rx, outflow!(), vec![plugin]) {
                        Ok(p) => StageRes::Plugins(true, p.len()),
                        Err(_) => StageRes::Plugins(false, 0),
                    }
                })));
            }
            StageSpec::Filter(fs) => {
                let filters: Vec<Filter> = fs.iter().map(|j| Filter::from_json(j).expect("filter json")).collect();
                handles.push(H::Other(std::thread::spawn(move || {
                    let _g = g;
                    match filter_as_streams(&filters, &rx, outflow!()) {
                        Ok((a, b)) => StageRes::Filter(true, a, b),
                        Err(_) => StageRes::Filter(false, 0, 0),
                    }
                })));
            }
        }
    }
    drop(done_tx);

    // consumer (this thread)
    let rx = rx_prev;
    let mut delivered = vec![];
    let mut unknown_at_delivery: Vec<u32> = vec![];
    let mut bag_defs: Vec<(u32, usize)> = vec![];
    let has_lc = p.stages.iter().any(|s| *s == StageSpec::Lc);
    let mut k = 0usize;
    loop {
        if let Some(d) = s.drop_at {
            if k >= d {
                break;
            }
        }
        if !s.cons.is_empty() {
            pace(s.cons[k % s.cons.len()]);
        }
        match rx.recv() {
            Ok(m) => {
                // rule #1 of the lifecycle stage, seen from the end of the pipeline: the lifecycle of a delivered message is in the table
                if has_lc && m.lifecycle != 0 && lcs_r.get_one(&m.lifecycle).map_or(true, |lc| lc.ecu != m.ecu) {
                    unknown_at_delivery.push(m.index);
                }
                if has_lc {
                    note_bag_defects(&lcs_r, &mut bag_defs);
                }
                delivered.push(seen(&m));
                k += 1;
            }
            Err(_) => break,
        }
    }
    drop(rx);
    let sent_at_drop = sent_ctr.load(std::sync::atomic::Ordering::SeqCst);

    // join with a timeout: every thread announces its end through its guard
    let deadline = Instant::now() + hang_timeout;
    let mut finished = vec![false; n + 1];
    while finished.iter().any(|f| !*f) {
        let left = deadline.saturating_duration_since(Instant::now());
        match done_rx.recv_timeout(left) {
            Ok(i) => finished[i] = true,
            Err(_) => break,
        }
    }
    let hung: Vec<usize> = finished.iter().enumerate().filter(|(_, f)| !**f).map(|(i, _)| i).collect();
    let (producer_sent, producer_err) = if finished[0] { producer.join().unwrap_or((0, true)) } else { (0, false) };
    let mut results = vec![];
    for (i, h) in handles.into_iter().enumerate() {
        if !finished[i + 1] {
            results.push(StageRes::NotJoined);
            continue;
        }
        match h {
            H::Lc(h) => match h.join() {
                Ok(w) => {
                    note_bag_defects(&lcs_r, &mut bag_defs);
                    results.push(StageRes::Table(read_table(&lcs_r)));
                    drop(w);
                }
                Err(_) => results.push(StageRes::Panicked),
            },
            H::Other(h) => results.push(h.join().unwrap_or(StageRes::Panicked)),
        }
    }
    let taps = taps.iter().map(|t| t.lock().unwrap().clone()).collect();
    let plog = plogs.iter().map(|st| st.iter().map(|l| l.lock().unwrap().clone()).collect()).collect();
    RunOut { plog, bag_defects: bag_defs, delivered, taps, results, unknown_at_delivery, producer_sent, sent_at_drop, producer_err, hung, full_hits: full_hits.load(std::sync::atomic::Ordering::Relaxed), wall_ms: t0.elapsed().as_millis() }
}

// ------------------------------------------------------------------ canonicalisation
/// lifecycle ids come from a process-wide counter: replace them by their rank among the ids of the run
fn canon(delivered: &[Seen], results: &[StageRes]) -> (Vec<Seen>, Vec<StageRes>) {
    let mut ids: Vec<u32> = delivered.iter().map(|m| m.1).filter(|i| *i != 0).collect();
    for r in results {
        if let StageRes::Table(t) = r {
            ids.extend(t.iter().map(|e| e.0));
        }
    }
    ids.sort();
    ids.dedup();
    let rank = |id: u32| -> u32 {
        if id == 0 {
            0
        } else {
            ids.binary_search(&id).unwrap() as u32 + 1
        }
    };
    let d = delivered.iter().map(|m| (m.0, rank(m.1), m.2, m.3, m.4, m.5.clone())).collect();
    let r = results
        .iter()
        .map(|r| match r {
            StageRes::Table(t) => StageRes::Table(t.iter().map(|e| (rank(e.0), e.1, e.2, e.3, e.4, e.5)).collect()),
            x => x.clone(),
        })
        .collect();
    (d, r)
}

// ------------------------------------------------------------------ oracle
fn exact_pipeline(p: &Pipeline) -> bool {
    p.stable_starts || !p.stages.iter().any(|s| matches!(s, StageSpec::Sort(_, _, true)))
}


// ------------------------------------------------------------------ the stages' specifications, evaluated here
// What a stage has to forward is computed from the generated messages by the harness itself, not taken from another run of
// the same code:  lifecycle detection forwards every message, in order (its FIFO of buffered messages keeps msg.index
// order);  the plugins stage forwards every message except exactly those a plugin of its chain rejected, in order, and a
// plugin is asked about a message iff no plugin in front of it rejected it;  the filter stage forwards the messages that
// match a positive filter (or all, without positive filters) and no negative filter;  the time sort forwards a permutation
// of its input in which a message never overtakes an earlier one that is not younger (calculated time, then index).

/// ecu, apid, ctid of a generated message (dltgen::ecu, build_ft)
fn msg_attrs(i: usize, m: &MsgSpec) -> (String, Option<&'static str>, Option<&'static str>) {
    let ecu = format!("EC{}{}", (m.0 / 10) % 10, m.0 % 10);
    let (a, c) = match m.3 {
        0 => (Some(["AP0", "AP1", "AP2"][i % 3]), Some("CTX")),
        1 => (Some("DA1"), Some("DC1")),
        2 => (None, None),
        6 => (Some("APP1"), Some("CTX1")),
        _ => (Some("FTA"), Some("FTC")),
    };
    (ecu, a, c)
}

/// C12's clause on the filter sets used here (criteria ecu / apid / ctid; type 0 positive, 1 negative)
fn spec_filter_passes(filters: &[String], i: usize, m: &MsgSpec) -> bool {
    let (ecu, apid, ctid) = msg_attrs(i, m);
    let fs: Vec<Value> = filters.iter().map(|f| serde_json::from_str(f).expect("filter json")).collect();
    let matches = |f: &Value| -> bool {
        f.get("ecu").and_then(|x| x.as_str()).map_or(true, |e| e == ecu)
            && f.get("apid").and_then(|x| x.as_str()).map_or(true, |a| apid == Some(a))
            && f.get("ctid").and_then(|x| x.as_str()).map_or(true, |c| ctid == Some(c))
    };
    let pos: Vec<&Value> = fs.iter().filter(|f| f["type"].as_u64() == Some(0)).collect();
    let neg: Vec<&Value> = fs.iter().filter(|f| f["type"].as_u64() == Some(1)).collect();
    (pos.is_empty() || pos.iter().any(|f| matches(f))) && !neg.iter().any(|f| matches(f))
}

/// a stage as a chain of rejecting plugins: per plugin the messages (of `input`) it is specified to reject; None for the sort
fn spec_rejects(msgs: &[MsgSpec], st: &StageSpec, input: &[u32]) -> Option<Vec<Vec<u32>>> {
    let sel = |f: &dyn Fn(u32) -> bool| -> Vec<u32> { input.iter().copied().filter(|x| f(*x)).collect() };
    Some(match st {
        StageSpec::Lc => vec![],
        StageSpec::Plugins(k, _) => {
            if *k >= 2 {
                vec![sel(&|x| x % k == 0), vec![]]
            } else {
                vec![]
            }
        }
        StageSpec::Probe | StageSpec::Export => vec![vec![]],
        StageSpec::Chain(c, _) => c
            .iter()
            .map(|pl| match pl {
                Plug::Reject(idx) => sel(&|x| idx.contains(&x)),
                Plug::Mark => vec![],
                Plug::Ft(keep, restrict) => sel(&|x| msgs.get(x as usize).map_or(false, |m| spec_ft_rejects(m.3, *keep, *restrict))),
            })
            .collect(),
        StageSpec::Filter(fs) => vec![sel(&|x| msgs.get(x as usize).map_or(true, |m| !spec_filter_passes(fs, x as usize, m)))],
        StageSpec::Sort(..) => return None,
    })
}

/// what the chain forwards, and the messages each of its plugins is asked about
fn spec_stage_out(rejs: &[Vec<u32>], input: &[u32]) -> (Vec<u32>, Vec<Vec<u32>>) {
    let mut cur = input.to_vec();
    let mut seen = vec![];
    for r in rejs {
        seen.push(cur.clone());
        cur.retain(|x| !r.contains(x));
    }
    (cur, seen)
}

/// calculated time of the sort with a lifecycle table that never has data (every start time reads 0)
fn spec_frozen_sort_key(m: &MsgSpec) -> u64 {
    if m.3 == 1 {
        m.1
    } else {
        (m.2 as u64 * 100).min(m.1)
    }
}

fn short(v: &[u32]) -> String {
    if v.len() <= 24 {
        format!("{:?}", v)
    } else {
        format!("{:?}.. ({} messages)", &v[..24], v.len())
    }
}

/// every stage of a drained run against its specification, each on the input it really got
fn spec_oracle(p: &Pipeline, o: &RunOut, which: &str) -> Option<(String, String)> {
    let mut input: Vec<u32> = (0..p.msgs.len() as u32).collect();
    for (i, st) in p.stages.iter().enumerate() {
        if matches!(o.results.get(i), Some(StageRes::Panicked) | Some(StageRes::NotJoined) | None) {
            return None; // reported by no_stage_dies / terminates
        }
        let tap = &o.taps[i];
        let at = format!("{} run, stage {} ({})", which, i, st.tag());
        match spec_rejects(&p.msgs, st, &input) {
            None => {
                let (mut a, mut b) = (tap.clone(), input.clone());
                a.sort();
                b.sort();
                if a != b {
                    return Some(("sort_stage_forwards_a_permutation".into(), format!("{}: got {} forwarded {}", at, short(&input), short(tap))));
                }
                if let StageSpec::Sort(_, _, false) = st {
                    let pos: std::collections::BTreeMap<u32, usize> = tap.iter().enumerate().map(|(j, x)| (*x, j)).collect();
                    for (a, x) in input.iter().enumerate() {
                        for y in &input[a + 1..] {
                            if spec_frozen_sort_key(&p.msgs[*x as usize]) <= spec_frozen_sort_key(&p.msgs[*y as usize]) && pos[x] > pos[y] {
                                return Some(("sort_stage_order".into(), format!("{}: message {} (not younger, and received first) was forwarded after message {}", at, x, y)));
                            }
                        }
                    }
                }
            }
            Some(rejs) => {
                let (want, seen) = spec_stage_out(&rejs, &input);
                let logs = &o.plog[i];
                // the plugins stage against what its plugins really answered
                if !logs.is_empty() {
                    let mut exp = input.clone();
                    for (j, log) in logs.iter().enumerate() {
                        let asked: Vec<u32> = log.iter().map(|x| x.0).collect();
                        if asked != exp {
                            return Some(("plugin_asked_iff_no_plugin_before_it_rejected".into(), format!("{}: plugin {} of the chain was asked about {}, the plugins in front of it let pass {}", at, j, short(&asked), short(&exp))));
                        }
                        exp.retain(|x| !log.iter().any(|(ix, ok)| ix == x && !*ok));
                    }
                    if *tap != exp {
                        let lost: Vec<u32> = exp.iter().copied().filter(|x| !tap.contains(x)).collect();
                        return Some((
                            "plugin_stage_forwards_exactly_the_unrejected_messages".into(),
                            format!("{}: the stage got {} messages, its plugins rejected {}, it forwarded {} - not forwarded although no plugin rejected them: {}; forwarded {}", at, input.len(), input.len() - exp.len(), tap.len(), short(&lost), short(tap)),
                        ));
                    }
                    for (j, log) in logs.iter().enumerate() {
                        let rejected: Vec<u32> = log.iter().filter(|x| !x.1).map(|x| x.0).collect();
                        let spec: Vec<u32> = seen[j].iter().copied().filter(|x| rejs[j].contains(x)).collect();
                        if rejected != spec {
                            return Some(("plugin_verdicts_as_specified".into(), format!("{}: plugin {} of the chain rejected {}, specified: {}", at, j, short(&rejected), short(&spec))));
                        }
                    }
                }
                if *tap != want {
                    let lost: Vec<u32> = want.iter().copied().filter(|x| !tap.contains(x)).collect();
                    let extra: Vec<u32> = tap.iter().copied().filter(|x| !want.contains(x)).collect();
                    return Some((
                        "stage_forwards_what_its_specification_says".into(),
                        format!("{}: got {} messages, has to forward {} of them, forwarded {}; missing {}, not to be forwarded {}, order kept: {}", at, input.len(), want.len(), tap.len(), short(&lost), short(&extra), lost.is_empty() && extra.is_empty()),
                    ));
                }
                let res_ok = match (&o.results[i], st) {
                    (StageRes::Plugins(ok, n), _) => *ok && *n == n_plugins(st),
                    (StageRes::Filter(ok, passed, filtered), _) => *ok && *passed == tap.len() && *filtered == input.len() - tap.len(),
                    (StageRes::Table(_), _) => true,
                    _ => false,
                };
                if !res_ok {
                    return Some(("stage_result_as_specified".into(), format!("{}: returned {:?} after {} messages in, {} out", at, o.results[i], input.len(), tap.len())));
                }
            }
        }
        input = tap.clone();
    }
    // the texts the numbering / marking plugins write: the j-th message a plugin is asked about gets number j
    if !p.stages.iter().any(|s| *s == StageSpec::Probe) {
        let mut text: std::collections::BTreeMap<u32, String> = Default::default();
        let mut input: Vec<u32> = (0..p.msgs.len() as u32).collect();
        for (i, st) in p.stages.iter().enumerate() {
            if let Some(rejs) = spec_rejects(&p.msgs, st, &input) {
                let (_, seen) = spec_stage_out(&rejs, &input);
                match st {
                    StageSpec::Plugins(k, _) if *k >= 2 => {
                        for (j, x) in seen[1].iter().enumerate() {
                            text.insert(*x, format!("n{}", j));
                        }
                    }
                    StageSpec::Chain(c, _) => {
                        for (pj, pl) in c.iter().enumerate() {
                            if *pl == Plug::Mark {
                                for (j, x) in seen[pj].iter().enumerate() {
                                    text.entry(*x).or_default().push_str(&format!("m{}", j));
                                }
                            }
                        }
                    }
                    _ => {}
                }
            }
            input = o.taps[i].clone();
        }
        for m in &o.delivered {
            if p.msgs[m.0 as usize].3 < 3 && m.5 != text.get(&m.0).cloned().unwrap_or_default() {
                return Some(("plugins_rewrite_as_specified".into(), format!("{} run: message {} was delivered with text {:?}, specified {:?}", which, m.0, m.5, text.get(&m.0))));
            }
        }
    }
    None
}

/// the property evaluated directly: bounded run `b` against the large-capacity reference `r`
fn oracle(p: &Pipeline, s: &Script, r: &RunOut, b: &RunOut) -> Verdict {
    let fail = |c: &str, d: String| Verdict::Fail { clause: c.into(), detail: d };
    if !r.hung.is_empty() {
        return fail("reference_terminates", format!("threads {:?} of the reference run did not finish", r.hung));
    }
    if !b.hung.is_empty() {
        return fail(if s.drop_at.is_some() { "terminates_after_consumer_drop" } else { "terminates" }, format!("threads {:?} (0 = producer, i = stage i) still running after the timeout", b.hung));
    }
    if let Some(d) = b.bag_defects.first().or(r.bag_defects.first()) {
        return fail("table_keys_have_exactly_one_value", format!("the shared lifecycle table had a key (lifecycle id {}) with {} values when the consumer looked (readers like remote.rs unwrap get_one())", d.0, d.1));
    }
    // the reference run itself against the specification of every stage (it is produced by the same code)
    if let Some((c, d)) = spec_oracle(p, r, "large-capacity") {
        return fail(&c, d);
    }
    let lc_alive = |o: &RunOut| !o.results.iter().zip(p.stages.iter()).any(|(x, st)| *st == StageSpec::Lc && *x == StageRes::Panicked);
    if lc_alive(b) && !b.unknown_at_delivery.is_empty() {
        return fail("lifecycle_known_at_delivery", format!("messages {:?} were delivered before their lifecycle was in the shared table", b.unknown_at_delivery));
    }
    if let Some(i) = b.results.iter().position(|x| *x == StageRes::Panicked) {
        if r.results[i] != StageRes::Panicked {
            return fail("no_stage_dies", format!("stage {} ({}) panicked with these channels / this pacing, but not in the large-capacity run; {} of {} messages delivered", i, p.stages[i].tag(), b.delivered.len(), r.delivered.len()));
        }
    }
    let (rd, rr) = canon(&r.delivered, &r.results);
    let (bd, br) = canon(&b.delivered, &b.results);
    let exact = exact_pipeline(p);
    match s.drop_at {
        None => {
            if exact {
                if bd != rd {
                    let pos = bd.iter().zip(rd.iter()).position(|(a, b)| a != b).unwrap_or(bd.len().min(rd.len()));
                    return fail("same_sequence", format!("{} delivered, {} in the reference, first difference at position {}: {:?} vs {:?}", bd.len(), rd.len(), pos, bd.get(pos), rd.get(pos)));
                }
                for (i, (tb, tr)) in b.taps.iter().zip(r.taps.iter()).enumerate() {
                    if tb != tr {
                        return fail("same_sequence_between_stages", format!("stage {} forwarded {:?}, reference {:?}", i, tb, tr));
                    }
                }
            } else {
                let mut x = bd.clone();
                let mut y = rd.clone();
                // the number a plugin downstream of the sort would assign depends on the order: none is placed there by the generator
                x.sort();
                y.sort();
                if x != y {
                    return fail("same_multiset", format!("{} delivered, {} in the reference; as multisets they differ", bd.len(), rd.len()));
                }
                // upstream of the live sort everything is exact
                for (i, (tb, tr)) in b.taps.iter().zip(r.taps.iter()).enumerate() {
                    if matches!(p.stages[i], StageSpec::Sort(_, _, true)) {
                        break;
                    }
                    if tb != tr {
                        return fail("same_sequence_between_stages", format!("stage {} forwarded {:?}, reference {:?}", i, tb, tr));
                    }
                }
            }
            if br != rr {
                return fail("same_final_table_and_results", format!("{:?} vs reference {:?}", br, rr));
            }
            if b.producer_err || b.producer_sent != p.msgs.len() {
                return fail("producer_completes", format!("sent {} of {} err={}", b.producer_sent, p.msgs.len(), b.producer_err));
            }
            if let Some((c, d)) = spec_oracle(p, b, "bounded") {
                return fail(&c, d);
            }
        }
        Some(k) => {
            let want = k.min(rd.len());
            if bd.len() != want {
                return fail("drop_prefix_length", format!("consumer took {} messages, wanted {}", bd.len(), want));
            }
            if exact {
                if bd[..] != rd[..want] {
                    return fail("drop_prefix", "the messages taken before the drop are not the prefix of the reference".into());
                }
            } else {
                let mut idx: Vec<u32> = bd.iter().map(|m| m.0).collect();
                idx.sort();
                let n0 = idx.len();
                idx.dedup();
                if idx.len() != n0 {
                    return fail("drop_no_duplicates", "a message was delivered twice".into());
                }
                for m in &bd {
                    if !rd.iter().any(|x| x.0 == m.0 && x.2 == m.2 && x.3 == m.3 && x.4 == m.4) {
                        return fail("drop_no_foreign", format!("message {} was never delivered by the reference", m.0));
                    }
                }
            }
            // a producer with a long tidy tail: once the consumer is gone the stages must stop pulling from it
            if let Some(tf) = p.tail_from {
                if k < rd.len() {
                    let caps: usize = s.caps.iter().filter(|c| **c < LARGE).sum();
                    let bound = b.sent_at_drop + tf.saturating_sub(b.sent_at_drop) + L_CONF + 20 + caps + p.stages.len() + 4;
                    if b.producer_sent > bound {
                        return fail(
                            "bounded_pull_after_consumer_loss",
                            format!("the consumer dropped after {} messages when the producer had sent {}; the pipeline pulled {} messages in total (bound {}, input {}), producer told: {}", k, b.sent_at_drop, b.producer_sent, bound, p.msgs.len(), b.producer_err),
                        );
                    }
                    if bound < p.msgs.len() && !b.producer_err {
                        return fail("producer_told_after_consumer_loss", format!("the producer sent all {} messages and was never refused one", b.producer_sent));
                    }
                }
            }
        }
    }
    Verdict::Ok
}

// ------------------------------------------------------------------ generator
fn gen_msgs(rng: &mut Rng, max: u64) -> Vec<MsgSpec> {
    let n = match rng.below(30) {
        0 => 0,
        1 => 1,
        2 => 2,
        _ => rng.range(3, max),
    } as usize;
    let necu = rng.range(1, 3) as usize;
    // per ecu: boot time, current uptime (us), buffering delay
    let mut boot: Vec<u64> = (0..necu).map(|e| RHO + e as u64 * rng.below(3_000_000)).collect();
    let mut up: Vec<u64> = (0..necu).map(|_| rng.below(50_000) * 100).collect();
    let mut now = RHO + 100_000;
    let style = rng.below(4); // 0 tidy, 1 jittery (out of order in time), 2 reboots, 3 wild
    let mut v = vec![];
    for _ in 0..n {
        let e = rng.below(necu as u64) as usize;
        let step = match rng.below(10) {
            0 => rng.below(3_000_000),
            1 => rng.below(30_000_000),
            _ => rng.below(200_000),
        };
        now += step;
        up[e] += step.min(5_000_000) / 100 * 100 + rng.below(50) * 100;
        if (style == 2 && rng.chance(1, 8)) || (style == 3 && rng.chance(1, 5)) {
            // reboot of this ecu: timestamps restart, reception jumps
            now += rng.range(0, 90) * 1_000_000;
            boot[e] = now;
            up[e] = rng.below(20_000) * 100;
        }
        let delay = match style {
            0 => rng.below(2_000),
            1 => rng.below(3_000_000),
            _ => rng.below(500_000),
        };
        let rt = (boot[e] + up[e] + delay).max(now);
        let ts = if rng.chance(1, 15) { 0 } else { (up[e] / 100) as u32 };
        let kind = match rng.below(12) {
            0 => 1,
            1 => 2,
            _ => 0,
        };
        let rt = if style == 3 && rng.chance(1, 6) { rt.saturating_sub(rng.below(8_000_000)) } else { rt };
        v.push((e as u8 + 1, rt, ts, kind));
        if style != 1 && style != 3 {
            now = now.max(rt);
        }
    }
    v
}

fn gen_filters(rng: &mut Rng) -> Vec<String> {
    let mut f = vec![];
    match rng.below(5) {
        0 => f.push(r#"{"type":0,"ecu":"EC01"}"#.to_string()),
        1 => f.push(r#"{"type":1,"apid":"AP1"}"#.to_string()),
        2 => {
            f.push(r#"{"type":0,"apid":"AP0"}"#.to_string());
            f.push(r#"{"type":0,"apid":"AP2"}"#.to_string());
            f.push(r#"{"type":1,"ecu":"EC02"}"#.to_string());
        }
        3 => f.push(r#"{"type":1,"ctid":"DC1"}"#.to_string()),
        _ => f.push(r#"{"type":0,"ecu":"EC09"}"#.to_string()), // passes nothing
    }
    f
}

fn gen_pipeline(rng: &mut Rng, max_msgs: u64) -> Pipeline {
    let msgs = gen_msgs(rng, max_msgs);
    let mut stages = vec![];
    let shape = rng.below(12);
    let has_lc = shape != 0 && shape != 1;
    if has_lc {
        stages.push(StageSpec::Lc);
    }
    if rng.chance(2, 3) {
        let stall: Vec<u8> = if rng.chance(1, 3) { (0..rng.range(1, 9)).map(|_| *rng.pick(&[0u8, 0, 0, 1, 2, 3])).collect() } else { vec![] };
        let n = msgs.len() as u32;
        stages.push(match rng.below(5) {
            0 | 1 => StageSpec::Plugins(0, stall),
            2 | 3 => StageSpec::Plugins(rng.range(2, 5) as u32, stall),
            _ => StageSpec::Chain(vec![Plug::Reject((0..n).filter(|_| rng.chance(1, 5)).collect()), Plug::Mark, Plug::Ft(false, false)], stall),
        });
    }
    if rng.chance(1, 2) {
        let delay = *rng.pick(&[0u64, 1_000, 100_000, 2_000_000, 20_000_000]);
        let live = has_lc && rng.chance(1, 2);
        stages.push(StageSpec::Sort(*rng.pick(&[1u8, 3]), delay, live));
    }
    if rng.chance(1, 2) || stages.is_empty() {
        stages.push(StageSpec::Filter(gen_filters(rng)));
    }
    Pipeline { msgs, stages, tail_from: None, stable_starts: false }
}


/// file transfers of an ecu of the stream: FLST, 1..4 FLDA, FLFI spread over the following messages (sometimes without the
/// FLST), and messages that only look like data packages (other application, wrong end tag, 4 arguments)
fn add_transfers(rng: &mut Rng, msgs: &mut Vec<MsgSpec>) {
    for _ in 0..rng.range(1, 2) {
        if msgs.is_empty() {
            return;
        }
        let at = rng.below(msgs.len() as u64) as usize;
        let e = msgs[at].0;
        let mut kinds: Vec<u8> = vec![3];
        kinds.extend((0..rng.range(1, 4)).map(|_| 4u8));
        kinds.push(5);
        if rng.chance(1, 5) {
            kinds.remove(0);
        }
        if rng.chance(1, 2) {
            let k = *rng.pick(&[6u8, 7, 8]);
            let pos = rng.below(kinds.len() as u64 + 1) as usize;
            kinds.insert(pos, k);
        }
        let mut pos = at + 1;
        for k in kinds {
            let pos1 = pos.min(msgs.len());
            let prev = msgs[pos1 - 1];
            // timestamps of the ecu go on from its last message in front of the insertion point
            let last = msgs[..pos1].iter().rev().find(|m| m.0 == e && m.3 != 1).copied().unwrap_or(prev);
            let rt = prev.1 + 1 + rng.below(2000);
            let ts = last.2.saturating_add(((rt.saturating_sub(last.1)) / 100) as u32 + 1);
            msgs.insert(pos1, (e, rt, ts, k));
            pos = pos1 + 1 + rng.below(3) as usize;
        }
    }
}

/// pipelines whose plugins stage has plugins that REJECT messages: scripted ones (first / last / middle / consecutive /
/// random / all / no message) and the real FileTransfer plugin with keepFLDA:false on streams with file transfers, in
/// chains of 1..3 plugins, alone and between the other stages
fn gen_chain_pipeline(rng: &mut Rng, i: usize, max: u64) -> Pipeline {
    let mut msgs = gen_msgs(rng, max);
    while msgs.len() < 6 {
        msgs = gen_msgs(rng, max);
    }
    let with_ft = matches!(i % 10, 4 | 5 | 6 | 7) || rng.chance(1, 3);
    if with_ft {
        add_transfers(rng, &mut msgs);
    }
    let n = msgs.len() as u32;
    let mid = |rng: &mut Rng| rng.range(1, (n - 2) as u64) as u32;
    let subset = |rng: &mut Rng, num: u64, den: u64| -> Vec<u32> { (0..n).filter(|_| rng.chance(num, den)).collect() };
    let chain: Vec<Plug> = match i % 10 {
        0 => vec![Plug::Reject(vec![0])],
        1 => vec![Plug::Reject(vec![n - 1])],
        2 => vec![Plug::Mark, Plug::Reject(vec![mid(rng)]), Plug::Mark],
        3 => {
            let a = mid(rng);
            vec![Plug::Reject((a..(a + rng.range(2, 4) as u32).min(n)).collect()), Plug::Mark]
        }
        4 => vec![Plug::Ft(false, false)],
        5 => vec![Plug::Mark, Plug::Ft(false, true), Plug::Reject(subset(rng, 1, 6))],
        6 => vec![Plug::Reject(subset(rng, 1, 5)), Plug::Reject(subset(rng, 1, 4)), Plug::Ft(false, false)],
        7 => vec![Plug::Ft(true, false), Plug::Reject(vec![])],
        8 => vec![Plug::Reject((0..n).collect()), Plug::Mark],
        _ => (0..rng.range(1, 3))
            .map(|_| match rng.below(4) {
                0 => Plug::Mark,
                1 => Plug::Ft(rng.chance(1, 4), rng.chance(1, 2)),
                2 => Plug::Reject(vec![0, 1, n - 1]),
                _ => Plug::Reject(subset(rng, 1, 3)),
            })
            .collect(),
    };
    let stall: Vec<u8> = if rng.chance(1, 4) { (0..rng.range(1, 9)).map(|_| *rng.pick(&[0u8, 0, 0, 1, 2, 3])).collect() } else { vec![] };
    let c = StageSpec::Chain(chain, stall);
    let stages = match rng.below(9) {
        0 | 1 => vec![c],
        2 => vec![StageSpec::Lc, c],
        3 => vec![c, StageSpec::Filter(gen_filters(rng))],
        4 => vec![StageSpec::Lc, c, StageSpec::Filter(gen_filters(rng))],
        5 => vec![c, StageSpec::Chain(vec![Plug::Reject(subset(rng, 1, 4)), Plug::Mark], vec![])],
        6 => vec![StageSpec::Lc, c, StageSpec::Sort(*rng.pick(&[1u8, 3]), *rng.pick(&[0u64, 1_000, 100_000, 2_000_000]), false), StageSpec::Filter(gen_filters(rng))],
        7 => vec![StageSpec::Lc, c, StageSpec::Sort(3, *rng.pick(&[100_000u64, 2_000_000]), true)],
        _ => vec![StageSpec::Plugins(rng.range(2, 5) as u32, vec![]), c],
    };
    Pipeline { msgs, stages, tail_from: None, stable_starts: false }
}

fn gen_script(rng: &mut Rng, p: &Pipeline, vector: usize, ref_out: usize) -> Script {
    let n = p.stages.len() + 1;
    let small = [0usize, 1, 2, 7];
    let caps: Vec<usize> = match vector {
        0 => vec![0; n],
        1 => vec![1; n],
        2 => vec![2; n],
        3 => (0..n).map(|_| *rng.pick(&small)).collect(),
        4 => (0..n).map(|_| if rng.chance(1, 3) { LARGE } else { *rng.pick(&small) }).collect(),
        5 => vec![7; n],
        6 => (0..n).map(|i| if i % 2 == 0 { 0 } else { LARGE }).collect(),
        _ => (0..n).map(|_| rng.range(0, 9) as usize).collect(),
    };
    // pacing: bursts (runs of 0), yields, short stalls, at most three long stalls per side
    let pace_script = |rng: &mut Rng| -> Vec<u8> {
        let len = rng.range(1, 24) as usize;
        let mode = rng.below(4); // 0 flat out, 1 slow, 2 bursty, 3 mixed
        let mut long = 0;
        (0..len)
            .map(|_| {
                let c = match mode {
                    0 => 0,
                    1 => *rng.pick(&[1u8, 2, 2, 3]),
                    2 => {
                        if rng.chance(1, 6) {
                            *rng.pick(&[3u8, 4])
                        } else {
                            0
                        }
                    }
                    _ => *rng.pick(&[0u8, 0, 1, 2, 3, 4]),
                };
                if c == 4 {
                    long += 1;
                    if long > 3 {
                        return 3;
                    }
                }
                c
            })
            .collect()
    };
    let prod = pace_script(rng);
    let cons = pace_script(rng);
    let drop_at = if rng.chance(1, 3) {
        Some(match rng.below(4) {
            0 => 0,
            1 => 1,
            _ => rng.below(ref_out as u64 + 2) as usize,
        })
    } else {
        None
    };
    let (caps, drop_at) = match p.tail_from {
        Some(tf) => {
            let caps: Vec<usize> = (0..n).map(|_| *rng.pick(&[0usize, 1, 2, 4])).collect();
            // drop points all over the prefix's outputs: the lifecycle stage is then blocked in a drain burst, in a
            // direct forward, or still buffering
            let d = if vector % 5 == 4 { None } else { Some(rng.below((ref_out.min(tf + 4)) as u64 + 1) as usize) };
            (caps, d)
        }
        None => (caps, drop_at),
    };
    let sched = (0..48).map(|_| rng.below(997)).collect();
    // pacing inside the pipeline: before the j-th send of a stage (mostly nothing / yields, a few short stalls)
    let hops = (0..p.stages.len())
        .map(|_| {
            if rng.chance(1, 2) {
                vec![]
            } else {
                (0..rng.range(1, 12)).map(|_| *rng.pick(&[0u8, 0, 0, 0, 1, 1, 2, 3])).collect()
            }
        })
        .collect();
    Script { caps, prod, cons, drop_at, sched, attr_seed: rng.next(), hops }
}

// ------------------------------------------------------------------ abstract case for the model
/// attribute the outputs of a stage (reference run) to its inputs: causal (an output that is an input
/// message is emitted on that input or later, outputs keep their order), the lag is seeded
fn attribute(rng: &mut Rng, lag_prone: bool, inp: &[u32], out: &[u32]) -> (Vec<Vec<u32>>, Vec<u32>) {
    let mut rows: Vec<Vec<u32>> = vec![vec![]; inp.len()];
    let mut flush = vec![];
    let mut e = 0usize;
    for x in out {
        let earliest = inp.iter().position(|y| y == x).unwrap_or(inp.len());
        e = e.max(earliest);
        if lag_prone && rng.chance(1, 3) {
            e += rng.below(4) as usize;
        }
        if e >= inp.len() {
            e = inp.len();
            flush.push(*x);
        } else {
            rows[e].push(*x);
        }
    }
    (rows, flush)
}

/// pipelines without a time sort are given to the model by SPECIFICATION (every stage a chain of rejecting plugins,
/// Pipe/Plugins.v); with a sort: table stages, the rows of the specifiable stages from their specification, the rows of
/// the lifecycle stage and of the sort from the reference run
fn spec_case_pipeline(p: &Pipeline) -> bool {
    !p.stages.iter().any(|s| matches!(s, StageSpec::Sort(..)))
}

fn coq_case(p: &Pipeline, s: &Script, r: &RunOut) -> String {
    let mut rng = Rng::new(s.attr_seed);
    let input: Vec<u32> = (0..p.msgs.len() as u32).collect();
    let mut stages = vec![];
    let mut inp = input.clone();
    if spec_case_pipeline(p) {
        for st in p.stages.iter() {
            let rejs = spec_rejects(&p.msgs, st, &inp).unwrap();
            let (want, _) = spec_stage_out(&rejs, &inp);
            stages.push(format!("({}, {})", st.policy(), clist(&rejs.iter().map(|r| cnums(r)).collect::<Vec<_>>())));
            inp = want;
        }
        return format!(
            "inr (inr (inr (inr (inr ({}, {}, {}, {}, {})))))",
            cnums(&s.caps),
            copt(s.drop_at.map(|k| k.to_string())),
            cnums(&s.sched),
            cnums(&input),
            clist(&stages)
        );
    }
    for (i, st) in p.stages.iter().enumerate() {
        let out = &r.taps[i];
        match (st, spec_rejects(&p.msgs, st, &inp)) {
            (StageSpec::Lc, _) | (_, None) => {
                let (rows, fl) = attribute(&mut rng, true, &inp, out);
                let rows_coq = clist(&inp.iter().zip(rows.iter()).map(|(e, o)| format!("({}, {})", e, cnums(o))).collect::<Vec<_>>());
                stages.push(format!("({}, {}, {})", st.policy(), rows_coq, cnums(&fl)));
            }
            (_, Some(rejs)) => {
                let (want, _) = spec_stage_out(&rejs, &inp);
                let rows_coq = clist(&inp.iter().map(|e| format!("({}, {})", e, if want.contains(e) { format!("[{}]", e) } else { "[]".to_string() })).collect::<Vec<_>>());
                stages.push(format!("({}, {}, [])", st.policy(), rows_coq));
            }
        }
        inp = out.clone();
    }
    format!(
        "inl ({}, {}, {}, {}, {}, {})",
        cnums(&s.caps),
        copt(s.drop_at.map(|k| k.to_string())),
        cnums(&s.sched),
        cnums(&input),
        clist(&stages),
        cbool(exact_pipeline(p))
    )
}

/// observation of a run: terminated, delivered ids; for the specified pipelines also the number of messages every plugin of
/// every stage was asked about (the filter counts as one plugin) - of drained runs only
fn case_obs(p: &Pipeline, s: &Script, b: &RunOut) -> O {
    let mut v = vec![O::b(b.hung.is_empty()), O::T(b.delivered.iter().map(|m| O::n(m.0)).collect())];
    if spec_case_pipeline(p) {
        let mut counts = vec![];
        if s.drop_at.is_none() {
            for (i, st) in p.stages.iter().enumerate() {
                let n_in = if i == 0 { p.msgs.len() } else { b.taps[i - 1].len() };
                counts.push(match st {
                    StageSpec::Filter(_) => O::T(vec![O::n(n_in as u64)]),
                    _ => O::T(b.plog[i].iter().map(|l| O::n(l.len() as u64)).collect()),
                });
            }
        }
        v.push(O::T(counts));
    }
    O::T(v)
}

fn case_json(p: &Pipeline, s: &Script) -> Value {
    json!({"tail_from": p.tail_from, "stable_starts": p.stable_starts, "msgs": p.msgs, "stages": p.stages.iter().map(|s| s.to_json()).collect::<Vec<_>>(),
           "caps": s.caps, "prod": s.prod, "cons": s.cons, "drop_at": s.drop_at, "sched": s.sched, "attr_seed": s.attr_seed.to_string(), "hops": s.hops})
}
fn case_from_json(v: &Value) -> (Pipeline, Script) {
    let msgs: Vec<MsgSpec> = serde_json::from_value(v["msgs"].clone()).unwrap();
    let stages = v["stages"].as_array().unwrap().iter().map(StageSpec::from_json).collect();
    let s = Script {
        caps: serde_json::from_value(v["caps"].clone()).unwrap(),
        prod: serde_json::from_value(v["prod"].clone()).unwrap(),
        cons: serde_json::from_value(v["cons"].clone()).unwrap(),
        drop_at: serde_json::from_value(v["drop_at"].clone()).unwrap(),
        sched: serde_json::from_value(v["sched"].clone()).unwrap(),
        attr_seed: v["attr_seed"].as_str().unwrap().parse().unwrap(),
        hops: serde_json::from_value(v["hops"].clone()).unwrap_or_default(),
    };
    (Pipeline { msgs, stages, tail_from: v["tail_from"].as_u64().map(|x| x as usize), stable_starts: v["stable_starts"].as_bool().unwrap_or(false) }, s)
}

fn reference_script(p: &Pipeline) -> Script {
    Script { caps: vec![LARGE; p.stages.len() + 1], prod: vec![], cons: vec![], drop_at: None, sched: vec![], attr_seed: 0, hops: vec![] }
}

struct Done {
    p: Pipeline,
    s: Script,
    input_coq: String,
    obs: O,
    verdict: Verdict,
    tags: Vec<String>,
    full_hits: usize,
    wall_ms: u128,
}

fn run_case(p: &Pipeline, s: &Script, r: &RunOut, hang: Duration) -> Done {
    let b = run_real(p, s, hang);
    let verdict = oracle(p, s, r, &b);
    let obs = case_obs(p, s, &b);
    let mut tags: Vec<String> = vec![format!("shape_{}", p.stages.iter().map(|s| s.tag()).collect::<Vec<_>>().join(""))];
    tags.push(if spec_case_pipeline(p) { "model_stages_from_specification".into() } else { "model_stages_from_specification_and_reference_tables".into() });
    // plugins that reject: where in the stream, how many plugins, which
    let mut inp: Vec<u32> = (0..p.msgs.len() as u32).collect();
    for (i, st) in p.stages.iter().enumerate() {
        if let (StageSpec::Chain(c, _), Some(rejs)) = (st, spec_rejects(&p.msgs, st, &inp)) {
            let (want, seen) = spec_stage_out(&rejs, &inp);
            tags.push(format!("chain_of_{}_plugins", c.len()));
            let rejected: Vec<usize> = inp.iter().enumerate().filter(|(_, x)| !want.contains(x)).map(|(j, _)| j).collect();
            if rejected.is_empty() {
                tags.push("chain_rejects_nothing".into());
            } else {
                if rejected[0] == 0 {
                    tags.push("chain_rejects_first_message".into());
                }
                if *rejected.last().unwrap() + 1 == inp.len() {
                    tags.push("chain_rejects_last_message".into());
                }
                if rejected.iter().any(|j| *j > 0 && *j + 1 < inp.len()) {
                    tags.push("chain_rejects_in_the_middle".into());
                }
                if rejected.windows(2).any(|w| w[1] == w[0] + 1) {
                    tags.push("chain_rejects_consecutive_messages".into());
                }
                if rejected.len() == inp.len() {
                    tags.push("chain_rejects_everything".into());
                }
                if want.last().map_or(false, |l| inp.iter().position(|x| x == l).unwrap() > rejected[0]) {
                    tags.push("chain_forwards_messages_behind_a_rejected_one".into());
                }
            }
            for (j, pl) in c.iter().enumerate() {
                if !rejs[j].is_empty() && seen[j].iter().any(|x| rejs[j].contains(x)) {
                    tags.push(format!("chain_rejecting_plugin_at_position_{}", j));
                    if let Plug::Ft(..) = pl {
                        tags.push("chain_file_transfer_plugin_drops_flda".into());
                    }
                }
            }
        }
        if let StageSpec::Plugins(k, _) = st {
            if *k >= 2 && inp.iter().any(|x| x % k == 0) && inp.iter().position(|x| x % k == 0) < inp.iter().rposition(|x| x % k != 0) {
                tags.push("plugins_stage_forwards_messages_behind_a_rejected_one".into());
            }
        }
        inp = r.taps.get(i).cloned().unwrap_or_default();
    }
    if p.msgs.iter().any(|m| m.3 == 4) {
        tags.push("stream_with_file_transfer".into());
    }
    tags.push(format!("mincap_{}", s.caps.iter().min().unwrap()));
    if s.caps.iter().any(|c| *c == 0) {
        tags.push("rendezvous".into());
    }
    tags.push(if s.drop_at.is_some() { "consumer_drop".into() } else { "drained".into() });
    if b.full_hits > 0 {
        tags.push("helper_full_branch".into());
    }
    if b.producer_err {
        tags.push("producer_saw_err".into());
    }
    if b.results.iter().any(|x| *x == StageRes::Panicked) {
        tags.push("stage_panicked".into());
    }
    if !exact_pipeline(p) {
        tags.push("live_sort".into());
        if s.drop_at.is_none() && b.delivered.iter().map(|m| m.0).collect::<Vec<_>>() != r.delivered.iter().map(|m| m.0).collect::<Vec<_>>() {
            tags.push("live_sort_order_differs".into());
        }
    }
    if p.tail_from.is_some() {
        tags.push("long_tail_producer".into());
    }
    tags.push(format!("msgs_{}", match p.msgs.len() { 0 => "0", 1..=2 => "1-2", 3..=15 => "3-15", _ => "16+" }));
    Done { p: p.clone(), s: s.clone(), input_coq: coq_case(p, s, r), obs, verdict, tags, full_hits: b.full_hits, wall_ms: b.wall_ms }
}


// ================================================================== loss experiments (mode A)
// ONE real stage function; a lock-step live producer on a rendezvous inflow (it hands message i+1 only when the
// stage sits in recv() again and stops when its send fails or its budget is used up); a closure outflow that
// accepts k messages and fails from then on.  k is swept over every outflow call of the undisturbed run, so the
// first failing send lands in every send site of the stage (direct forward, drain after confirmation / merge,
// final flush).  Everything here is deterministic: no sleeps, no real consumer thread.

/// messages of trace time the tidy tail needs to get every lifecycle confirmed (61 s / 1.1 s + first-message effects)
const L_CONF: usize = 80;
const TAIL_STEP_US: u64 = 1_100_000;

#[derive(Clone, Debug)]
struct LossScenario {
    kind: StageSpec,
    msgs: Vec<MsgSpec>, // prefix followed by the tidy tail
    tail_from: usize,
    family: String,
}

/// tidy continuation of every ecu of the prefix: no new lifecycle after the first tail message of an ecu, reception
/// time strictly increasing in steps > 1 s (so that the once-per-second confirmation check runs on every message)
fn tidy_tail(prefix: &[MsgSpec], len: usize) -> Vec<MsgSpec> {
    let mut ecus: Vec<u8> = prefix.iter().map(|m| m.0).collect();
    ecus.sort();
    ecus.dedup();
    if ecus.is_empty() {
        ecus.push(1);
    }
    let t0 = prefix.iter().map(|m| m.1).max().unwrap_or(RHO) + TAIL_STEP_US;
    let base: Vec<u64> = ecus
        .iter()
        .map(|e| match prefix.iter().rev().find(|m| m.0 == *e && m.3 == 0 && m.2 > 0 && m.1 > m.2 as u64 * 100) {
            Some(m) => m.1 - m.2 as u64 * 100,
            None => prefix.iter().rev().find(|m| m.0 == *e).map(|m| m.1.saturating_sub(1_000_000)).unwrap_or(RHO),
        })
        .collect();
    (0..len)
        .map(|j| {
            let e = j % ecus.len();
            let rt = t0 + j as u64 * TAIL_STEP_US;
            let ts_us = rt - base[e].min(rt - 100);
            (ecus[e], rt, (ts_us / 100).min(u32::MAX as u64) as u32, 0u8)
        })
        .collect()
}

/// prefixes that make the lifecycle stage use each of its send sites
fn gen_lc_prefix(rng: &mut Rng, family: u64, max: u64) -> (Vec<MsgSpec>, String) {
    let s = 1_000_000u64;
    match family {
        // several ecus starting at different times, dense for a while, running past the 60 s span that confirms a
        // lifecycle: confirmation bursts (.send 1) with messages of already confirmed lifecycles in between (.send 2)
        0 | 1 => {
            let necu = rng.range(1, 3) as usize;
            let n = rng.range(4, max) as usize;
            let total = rng.range(40, 140) * s;
            let start: Vec<u64> = (0..necu).map(|e| if e == 0 { 0 } else { rng.below(50) * s }).collect();
            let delay: Vec<u64> = (0..necu).map(|_| rng.below(300_000)).collect();
            let mut reboot_at: Vec<Option<u64>> = vec![None; necu];
            if family == 1 {
                // one ecu reboots somewhere: its new lifecycle is buffered for the next 60 s, everything queues behind it
                let e = rng.below(necu as u64) as usize;
                reboot_at[e] = Some(start[e] + rng.range(5, 100) * s);
            }
            let mut v = vec![];
            let mut t = 0u64;
            for _ in 0..n {
                t += rng.range(1, 2 * total / n as u64 + 1);
                let e = rng.below(necu as u64) as usize;
                if t < start[e] {
                    continue;
                }
                let (boot, gap) = match reboot_at[e] {
                    Some(r) if t >= r => (r + rng.range(3, 20) * s, true),
                    _ => (start[e], false),
                };
                let _ = gap;
                if t < boot + 1000 {
                    continue;
                }
                let up = t - boot;
                v.push((e as u8 + 1, RHO + t + delay[e], (up / 100) as u32, if rng.chance(1, 15) { 1 } else { 0 }));
            }
            (v, if family == 0 { "confirm_burst".into() } else { "reboot".into() })
        }
        // a confirmed lifecycle, an apparent reboot (new buffered lifecycle with a few messages), then a message that
        // pulls the new lifecycle's start back into the old one: merge, buffered_lcs runs empty, the whole queue is
        // drained by the merge path (.send 4)
        2 => {
            let mut v: Vec<MsgSpec> = vec![];
            let span = rng.range(62, 90);
            let n1 = rng.range(3, 10);
            for i in 0..n1 {
                let up = (i * span / (n1 - 1)) * s + 1000;
                v.push((1, RHO + up, (up / 100) as u32, 0));
            }
            let other = rng.chance(1, 2);
            if other {
                // a second ecu that is confirmed as well and keeps running: its messages queue behind the apparent reboot
                for i in 0..n1 {
                    let up = (i * span / (n1 - 1)) * s + 2000;
                    v.insert((2 * i + 1) as usize, (2, RHO + up + 10, (up / 100) as u32, 0));
                }
            }
            let rb = RHO + (span + rng.range(8, 20)) * s; // reception of the first message after the "reboot"
            let nq = rng.range(2, 12);
            for i in 0..nq {
                let up = s + i * 100_000;
                v.push((1, rb + i * 100_000, (up / 100) as u32, 0));
                if other && i % 2 == 0 {
                    let upb = (rb - RHO) + i * 100_000;
                    v.push((2, rb + i * 100_000 + 10, (upb / 100) as u32, 0));
                }
            }
            // lc_start = reception - timestamp falls a few seconds before the end of the first lifecycle
            let back = rng.range(3, 20) * s;
            let rt = rb + nq * 100_000;
            let want_start = RHO + span * s - back;
            let probe = v.len();
            v.push((1, rt, ((rt - want_start) / 100) as u32, 0));
            for i in 0..rng.below(4) {
                let rt2 = rt + (i + 1) * 200_000;
                v.push((1, rt2, ((rt2 - want_start) / 100) as u32, 0));
            }
            (v, format!("merge_drain@{}", probe))
        }
        _ => (gen_msgs(rng, max), "mixed".into()),
    }
}

/// threaded variant: the lifecycle stage (and stages behind it that forward every tail message) on small channels,
/// producer = prefix + long tidy tail, consumer dropping somewhere in the prefix's outputs
fn gen_loss_pipeline(rng: &mut Rng, i: usize, max: u64) -> Pipeline {
    let (prefix, _) = gen_lc_prefix(rng, (i % 3) as u64, max.min(30));
    let tail_from = prefix.len();
    let mut msgs = prefix.clone();
    msgs.extend(tidy_tail(&prefix, 2 * L_CONF));
    let stages = match rng.below(4) {
        0 => vec![StageSpec::Lc],
        1 => vec![StageSpec::Lc, StageSpec::Plugins(0, vec![])],
        2 => vec![StageSpec::Lc, StageSpec::Sort(3, *rng.pick(&[0u64, 1_000, 100_000]), false)],
        _ => vec![StageSpec::Lc, StageSpec::Plugins(0, vec![]), StageSpec::Filter(vec![r#"{"type":1,"ctid":"DC1"}"#.to_string()])],
    };
    Pipeline { msgs, stages, tail_from: Some(tail_from), stable_starts: false }
}

fn gen_loss_scenarios(rng: &mut Rng, n_lc: usize, n_other: usize, max: u64) -> Vec<LossScenario> {
    let mut v = vec![];
    for i in 0..n_lc {
        let (prefix, family) = gen_lc_prefix(rng, (i % 4) as u64, max);
        let tail_from = prefix.len();
        let mut msgs = prefix.clone();
        msgs.extend(tidy_tail(&prefix, 3 * L_CONF));
        v.push(LossScenario { kind: StageSpec::Lc, msgs, tail_from, family });
    }
    for i in 0..n_other {
        let prefix = gen_msgs(rng, max);
        let tail_from = prefix.len();
        let mut msgs = prefix.clone();
        msgs.extend(tidy_tail(&prefix, 30));
        let nn = msgs.len() as u32;
        let kind = match i % 3 {
            0 => match rng.below(3) {
                0 => StageSpec::Plugins(0, vec![]),
                1 => StageSpec::Plugins(rng.range(2, 5) as u32, vec![]),
                _ => StageSpec::Chain(vec![Plug::Reject((0..nn).filter(|x| *x == 0 || rng.chance(1, 4)).collect()), Plug::Mark], vec![]),
            },
            1 => StageSpec::Sort(*rng.pick(&[1u8, 3]), *rng.pick(&[0u64, 1_000, 100_000, 2_000_000, 20_000_000]), false),
            _ => StageSpec::Filter(gen_filters(rng)),
        };
        v.push(LossScenario { kind, msgs, tail_from, family: "mixed".into() });
    }
    v
}

struct LossRun {
    handed: usize,            // messages the stage pulled from its inflow
    disconnected: bool,       // the producer's send failed: it was told that the stage is gone
    returned: bool,           // the stage function returned (within the watchdog)
    calls: Vec<(u32, usize)>, // accepted outflow calls: (message index, iteration = index of the input being processed)
    first_fail: Option<usize>, // iteration of the first failed outflow call
    failed_calls: usize,
}

struct CallLog {
    ok: Vec<(u32, usize)>,
    first_fail: Option<usize>,
    failed: usize,
}

fn run_loss(sc: &LossScenario, k: Option<usize>, watchdog: Duration) -> LossRun {
    use std::sync::mpsc::TrySendError;
    let handed = Arc::new(Mutex::new(0usize));
    let log = Arc::new(Mutex::new(CallLog { ok: vec![], first_fail: None, failed: 0 }));
    let (tx, rx) = sync_channel::<DltMessage>(0);
    let (done_tx, done_rx) = sync_channel::<usize>(1);
    let (h2, l2) = (handed.clone(), log.clone());
    let kind = sc.kind.clone();
    let th = std::thread::spawn(move || {
        let _g = DoneGuard(done_tx, 0);
        let outflow = |m: DltMessage| {
            let h = *h2.lock().unwrap();
            let mut l = l2.lock().unwrap();
            if k.map_or(true, |k| l.ok.len() < k) {
                l.ok.push((m.index, h.saturating_sub(1)));
                Ok(())
            } else {
                if l.first_fail.is_none() {
                    l.first_fail = Some(h.saturating_sub(1));
                }
                l.failed += 1;
                Err(std::sync::mpsc::SendError(m))
            }
        };
        match &kind {
            StageSpec::Lc => {
                let (_r, w) = evmap::Options::default().with_hasher(Hasher::default()).construct::<LifecycleId, LifecycleItem>();
                let _w = parse_lifecycles_buffered_from_stream(w, rx, &outflow);
            }
            StageSpec::Plugins(..) | StageSpec::Chain(..) => {
                let (plugins, _) = make_plugins(&kind, false, &[]);
                let _ = plugins_process_msgs(rx, &outflow, plugins);
            }
            StageSpec::Sort(win, delay, _) => {
                let (r, _w) = evmap::Options::default().with_hasher(Hasher::default()).construct::<LifecycleId, LifecycleItem>();
                let _ = buffer_sort_messages(rx, &outflow, &r, *win, *delay);
            }
            StageSpec::Filter(fs) => {
                let filters: Vec<Filter> = fs.iter().map(|j| Filter::from_json(j).expect("filter json")).collect();
                let _ = filter_as_streams(&filters, &rx, &outflow);
            }
            StageSpec::Probe | StageSpec::Export => {
                let _ = plugins_process_msgs(rx, &outflow, vec![]);
            }
        }
    });
    let mut disconnected = false;
    let mut gave_up = false;
    let built = build_stream(&sc.msgs);
    'feed: for (_i, m0) in built.into_iter().enumerate() {
        let mut msg = m0;
        let t0 = Instant::now();
        loop {
            let mut g = handed.lock().unwrap();
            match tx.try_send(msg) {
                Ok(()) => {
                    *g += 1;
                    break;
                }
                Err(TrySendError::Full(m)) => {
                    msg = m;
                    drop(g);
                    if t0.elapsed() > watchdog {
                        gave_up = true;
                        break 'feed;
                    }
                    std::thread::yield_now();
                }
                Err(TrySendError::Disconnected(_)) => {
                    disconnected = true;
                    break 'feed;
                }
            }
        }
    }
    drop(tx);
    let returned = !gave_up && done_rx.recv_timeout(watchdog).is_ok();
    if returned {
        let _ = th.join();
    }
    let h = *handed.lock().unwrap();
    let l = log.lock().unwrap();
    LossRun { handed: h, disconnected, returned, calls: l.ok.clone(), first_fail: l.first_fail, failed_calls: l.failed }
}

/// rows (id, drained, direct) and flush outputs of the undisturbed run
fn loss_rows(n: usize, is_lc: bool, calls: &[(u32, usize)]) -> (Vec<(Vec<u32>, Option<u32>)>, Vec<u32>) {
    let mut rows: Vec<(Vec<u32>, Option<u32>)> = vec![(vec![], None); n];
    let mut flush = vec![];
    for (id, it) in calls {
        if n == 0 {
            flush.push(*id);
            continue;
        }
        let it = (*it).min(n - 1);
        if !is_lc {
            // sort / plugins / filter: one list of sends per iteration (the final flush is part of the last one)
            rows[it].0.push(*id);
        } else if rows[it].1.is_some() {
            // after the direct forward of the last iteration: the final flush
            flush.push(*id);
        } else if *id as usize == it {
            rows[it].1 = Some(*id);
        } else {
            rows[it].0.push(*id);
        }
    }
    (rows, flush)
}

struct LossDone {
    sc: LossScenario,
    ks: Vec<usize>,
    input_coq: String,
    obs: O,
    verdict: Verdict,
    tags: Vec<String>,
    runs: usize,
    calm_after_tail: usize,
}

fn loss_case(sc: &LossScenario, ks_replay: Option<Vec<usize>>) -> LossDone {
    let watchdog = Duration::from_secs(5);
    let n = sc.msgs.len();
    let is_lc = sc.kind == StageSpec::Lc;
    let fail = |c: &str, d: String| Verdict::Fail { clause: c.into(), detail: d };
    let r = run_loss(sc, None, watchdog);
    let (rows, fl) = loss_rows(n, is_lc, &r.calls);
    let mut verdict = Verdict::Ok;
    let fam: Vec<&str> = sc.family.split('@').collect();
    let mut tags = vec![format!("loss_{}", sc.kind.tag()), format!("loss_family_{}", fam[0])];
    if let Some(i) = fam.get(1).and_then(|x| x.parse::<usize>().ok()) {
        // the message that pulls the apparent reboot back into the confirmed lifecycle: did the merge path drain the queue here?
        if rows.get(i).map_or(false, |r| !r.0.is_empty()) {
            tags.push("loss_merge_path_drain_hit".into());
        }
    }
    if !r.returned || r.handed != n || r.disconnected {
        verdict = fail("loss_reference_completes", format!("undisturbed run: returned={} pulled {} of {} disconnected={}", r.returned, r.handed, n, r.disconnected));
    }
    // the undisturbed run against the stage's specification (evaluated here): what is forwarded, in which order
    let all: Vec<u32> = (0..n as u32).collect();
    if let (Verdict::Ok, Some(rejs)) = (&verdict, spec_rejects(&sc.msgs, &sc.kind, &all)) {
        let (want, _) = spec_stage_out(&rejs, &all);
        let got: Vec<u32> = r.calls.iter().map(|c| c.0).collect();
        if got != want {
            verdict = fail("stage_forwards_what_its_specification_says", format!("undisturbed run of the stage ({}): forwarded {}, specified {}", sc.kind.tag(), short(&got), short(&want)));
        }
    }
    // the point from which every message is forwarded directly in the undisturbed run
    let plain = |i: usize| is_lc && rows[i].0.is_empty() && rows[i].1 == Some(i as u32);
    let mut calm = n;
    while calm > 0 && plain(calm - 1) {
        calm -= 1;
    }
    let calm_after_tail = calm.saturating_sub(sc.tail_from);
    if is_lc && (calm >= n || calm_after_tail > L_CONF) {
        tags.push("loss_tail_not_calm".into());
        if matches!(verdict, Verdict::Ok) {
            verdict = fail("loss_tail_calms_down", format!("the tidy tail was not forwarded directly after {} messages (calm point {}, tail from {})", L_CONF, calm, sc.tail_from));
        }
    }
    // rows given to the model: up to the calm point + 2 for the lifecycle stage (beyond: forwarded directly), all otherwise
    let upto = if is_lc { (calm + 2).min(n) } else { n };
    let calls_upto = r.calls.iter().filter(|c| c.1 < upto).count();
    let ks: Vec<usize> = match ks_replay {
        Some(k) => k,
        None => {
            let top = if is_lc { calls_upto + 1 } else { r.calls.len() + 1 };
            let stride = top / 100 + 1;
            let mut v: Vec<usize> = (0..=top).step_by(stride).collect();
            if !v.contains(&top) {
                v.push(top);
            }
            v
        }
    };
    let mut sites = std::collections::BTreeSet::new();
    let mut obs = vec![];
    for k in &ks {
        let b = run_loss(sc, Some(*k), watchdog);
        // observation, coarsened like the model's: the last iteration and the final flush are not told apart
        let early = b.disconnected && b.handed < n;
        let ffc = match b.first_fail {
            None => 0,
            Some(i) => 1 + i.min(n.saturating_sub(1)) as u64,
        };
        let sum = b.calls.iter().fold(0u64, |acc, c| (acc * 31 + c.0 as u64 + 1) % 1_000_003);
        obs.push(O::T(vec![O::b(early), O::n(b.handed as u64), O::n(ffc), O::n(b.calls.len() as u64), O::n(sum)]));
        if let Some(c) = r.calls.get(*k) {
            let site = if c.1 + 1 >= n && rows.get(n - 1).map_or(false, |row| row.1.is_none() || fl.contains(&c.0)) {
                "flush_or_last"
            } else if c.0 as usize == c.1 {
                "direct"
            } else {
                "drain"
            };
            sites.insert(site);
        }
        if !matches!(verdict, Verdict::Ok) {
            continue;
        }
        // ---- the property, stated on what the stage did
        if !b.returned {
            verdict = fail("stage_returns_after_consumer_loss", format!("k={}: the stage function did not return within {:?} after its producer stopped", k, watchdog));
            continue;
        }
        let want: Vec<u32> = r.calls.iter().take(*k).map(|c| c.0).collect();
        let got: Vec<u32> = b.calls.iter().map(|c| c.0).collect();
        if got != want {
            verdict = fail("loss_delivered_prefix", format!("k={}: the consumer got {:?}, the undisturbed run starts with {:?}", k, got, want));
            continue;
        }
        match b.first_fail {
            None => {
                if b.handed != n || b.disconnected {
                    verdict = fail("no_loss_no_stop", format!("k={}: no send failed but the stage pulled {} of {} (disconnected={})", k, b.handed, n, b.disconnected));
                }
            }
            Some(i0) => {
                let pulled_after = b.handed.saturating_sub(i0 + 1);
                let bound = if is_lc { sc.tail_from.saturating_sub(i0 + 1) + L_CONF } else { 0 };
                if pulled_after > bound {
                    verdict = fail(
                        "bounded_pull_after_consumer_loss",
                        format!("k={}: first failed send while processing message {}, the stage pulled {} more messages from its producer (bound {}; {} of {} messages pulled, producer told: {})", k, i0, pulled_after, bound, b.handed, n, b.disconnected),
                    );
                } else if i0 + 1 + bound < n && !b.disconnected {
                    verdict = fail("producer_told_after_consumer_loss", format!("k={}: the producer was never refused a message ({} of {} pulled)", k, b.handed, n));
                }
            }
        }
    }
    for s in &sites {
        tags.push(format!("loss_fail_site_{}", s));
    }
    let rows_coq = clist(
        &rows.iter().take(upto).enumerate().map(|(i, (dr, d))| format!("({}, {}, {})", i, cnums(dr), copt(d.map(|x| x.to_string())))).collect::<Vec<_>>(),
    );
    let input_coq = format!("inr (inl ({}, {}, {}, {}, {}))", if is_lc { 1 } else { 0 }, n, rows_coq, cnums(&fl), cnums(&ks));
    LossDone { sc: sc.clone(), runs: ks.len() + 1, ks, input_coq, obs: O::T(obs), verdict, tags, calm_after_tail }
}

fn loss_json(sc: &LossScenario, ks: &[usize]) -> Value {
    json!({"loss": true, "kind": sc.kind.to_json(), "msgs": sc.msgs, "tail_from": sc.tail_from, "family": sc.family, "ks": ks})
}
fn loss_from_json(v: &Value) -> (LossScenario, Vec<usize>) {
    (
        LossScenario {
            kind: StageSpec::from_json(&v["kind"]),
            msgs: serde_json::from_value(v["msgs"].clone()).unwrap(),
            tail_from: v["tail_from"].as_u64().unwrap() as usize,
            family: v["family"].as_str().unwrap_or("replay").to_string(),
        },
        serde_json::from_value(v["ks"].clone()).unwrap(),
    )
}

fn push_loss(sink: &mut Sink, d: LossDone) {
    let input_json = loss_json(&d.sc, &d.ks);
    let key = input_json.to_string();
    let nontrivial = d.ks.len() >= 3 && d.sc.tail_from >= 3;
    let id = sink.next_id();
    sink.push(Case { id, input_coq: d.input_coq, input_json, obs: d.obs, verdict: d.verdict, classes: vec![], tags: d.tags, nontrivial, key });
}


// ================================================================== readers of the shared lifecycle table
/// traces that END while an ecu still has >= 2 unconfirmed lifecycles (it rebooted 1..3 times within the last < 60 s),
/// optionally after an ordinary confirmed phase; `stable`: constant reception - timestamp per boot, so that the
/// calculated start of a lifecycle never moves after its first message
fn gen_double_reboot_end(rng: &mut Rng, max: u64, stable: bool) -> Vec<MsgSpec> {
    let s = 1_000_000u64;
    let necu = rng.range(1, 3) as usize;
    let mut v: Vec<MsgSpec> = vec![];
    let lead = if rng.chance(1, 2) { rng.range(65, 120) * s } else { 0 }; // confirmed phase before the last minute
    for e in 0..necu {
        let off = e as u64 * rng.below(3) * s + e as u64 * 1000;
        let delay = rng.below(200_000);
        if lead > 0 {
            let n = rng.range(3, 8);
            for i in 0..n {
                let up = 1000 + i * lead / n;
                let jitter = if stable { 0 } else { rng.below(100_000) };
                v.push((e as u8 + 1, RHO + off + up + delay + jitter, (up / 100) as u32, 0));
            }
        }
        // the last minute: ecu 1 always reboots at least once more, the others sometimes
        let boots = if e == 0 { rng.range(2, 4) } else { rng.range(1, 3) };
        let span = rng.range(20, 55) * s;
        let per = span / boots;
        for b in 0..boots {
            let boot = RHO + off + lead + 5 * s + b * per;
            let n = rng.range(1, (max / (necu as u64 * boots)).max(2));
            let delay = rng.below(200_000);
            for i in 0..n {
                let up = 100_000 + i * (per / 2) / n;
                let jitter = if stable { 0 } else { rng.below(50_000) };
                v.push((e as u8 + 1, boot + up + delay + jitter, (up / 100) as u32, 0));
            }
        }
    }
    v.sort_by_key(|m| m.1);
    v
}


/// an ecu whose lifecycle P is still buffered gets a RESUME lifecycle L (reception gap >= 10 s, timestamps going on), L grows
/// to a timestamp span of more than 60 s within a few seconds (confirmed by its span and PUBLISHED while P is still
/// buffered), then a message with a timestamp below 7/8 of the timestamp at which L resumed arrives: L loses its resume tag,
/// overlaps P and is merged into the buffered P - the published entry of L has to be removed from the table again
/// (merge branch "predecessor still buffered, merged lifecycle already published").  Variations: number of messages, steps of
/// the growth, another ecu chattering along, messages going on afterwards, and (1 in 5) no untagging message at all.
fn gen_resume_untag(rng: &mut Rng) -> Vec<MsgSpec> {
    let s = 1_000_000u64;
    let e = 1u8;
    let mut v: Vec<MsgSpec> = vec![];
    let t0 = RHO + rng.range(100, 2000) * s;
    let ts0 = rng.range(50, 300) * s;
    let np = rng.range(1, 3);
    for i in 0..np {
        v.push((e, t0 + i * 200_000, ((ts0 + i * 200_000) / 100) as u32, 0));
    }
    let (p_last_rt, p_max_ts) = (t0 + (np - 1) * 200_000, ts0 + (np - 1) * 200_000);
    let g = rng.range(10, 25) * s;
    let d = rng.below((g - 10 * s) / s + 1) * s;
    let (mut rt, mut ts) = (p_last_rt + g, p_max_ts + d);
    v.push((e, rt, (ts / 100) as u32, 0));
    let steps = rng.range(1, 3);
    let total = rng.range(61, 75) * s;
    for k in 0..steps {
        let dts = total / steps + if k + 1 == steps { total % steps } else { 0 };
        let drt = (rng.range(1, 3) * s).max(dts.saturating_sub(59 * s));
        rt += drt;
        ts += dts;
        v.push((e, rt, (ts / 100) as u32, 0));
    }
    for _ in 0..rng.below(3) {
        let drt = rng.range(1_100_000, 2_000_000);
        rt += drt;
        ts += drt;
        v.push((e, rt, (ts / 100) as u32, 0));
    }
    if !rng.chance(1, 5) {
        rt += rng.range(1, 3) * s;
        let ts_u = p_max_ts / 100 * rng.range(30, 85);
        v.push((e, rt, (ts_u / 100) as u32, 0));
        // the ecu goes on on P's time line
        for i in 0..rng.below(4) {
            rt += rng.range(1_100_000, 3_000_000);
            v.push((e, rt, ((ts_u + (i + 1) * 1_500_000) / 100) as u32, 0));
        }
    }
    if rng.chance(1, 2) {
        // another ecu chattering along (its own lifecycle, buffered as well)
        let end = rt;
        let mut t = t0 - rng.below(5) * s;
        let boot = t - rng.range(5, 40) * s;
        while t < end + 2 * s {
            v.push((2, t, ((t - boot) / 100) as u32, 0));
            t += rng.range(1_100_000, 4_000_000);
        }
        v.sort_by_key(|m| m.1);
    }
    if rng.chance(1, 3) {
        // quiet for more than a minute, then a third ecu: whatever is still buffered gets confirmed
        let t = v.iter().map(|m| m.1).max().unwrap() + rng.range(61, 120) * s;
        v.push((3, t, 10_000, 0));
    }
    v
}

fn from_lcgen(ms: Vec<lcgen::MSpec>) -> Vec<MsgSpec> {
    ms.into_iter().filter(|m| m.kind <= 1).map(|m| (m.ecu.max(1), m.rt, m.ts_dms, if m.kind == 1 { 1 } else { 2 })).collect()
}

/// pipelines in which a stage behind the lifecycle stage reads the lifecycle table out of band
fn gen_reader_pipeline(rng: &mut Rng, i: usize, max: u64) -> Pipeline {
    let stable = i % 2 == 0;
    let msgs = match i % 6 {
        0 | 1 | 2 | 3 if i % 7 == 3 => gen_resume_untag(rng),
        0 | 1 | 2 | 3 => gen_double_reboot_end(rng, max, stable),
        4 => from_lcgen(lcgen::gen_scenario(rng)).into_iter().take(max as usize + 20).collect(),
        _ => from_lcgen(if rng.chance(1, 2) { lcgen::gen_merge_template(rng) } else { lcgen::gen_general(rng, max) }),
    };
    let stable_starts = stable && i % 6 < 4 && i % 7 != 3;
    let mut stages = vec![StageSpec::Lc];
    match rng.below(5) {
        0 => stages.push(StageSpec::Probe),
        1 => stages.push(StageSpec::Export),
        2 => stages.push(StageSpec::Sort(*rng.pick(&[1u8, 3]), *rng.pick(&[0u64, 100_000, 2_000_000, 20_000_000]), true)),
        3 => {
            stages.push(StageSpec::Probe);
            stages.push(StageSpec::Sort(3, *rng.pick(&[100_000u64, 2_000_000]), true));
        }
        _ => {
            stages.push(StageSpec::Export);
            stages.push(StageSpec::Filter(gen_filters(rng)));
        }
    }
    Pipeline { msgs, stages, tail_from: None, stable_starts }
}

/// the lifecycle stage alone, single-threaded, with an outflow closure that looks the message's lifecycle up at the very
/// moment it is handed over (the earliest moment a reader behind a rendezvous channel can look), and once more after the
/// stage has returned (the latest): (index, lifecycle id, ids visible with the right ecu at the send, known at the send)
struct SendView {
    index: u32,
    lc: u32,
    visible: Vec<u32>,
    known: bool,
}
fn run_pub_before_send(msgs: &[MsgSpec]) -> Result<(Vec<SendView>, Vec<u32>, Vec<(u32, usize)>), String> {
    let msgs = msgs.to_vec();
    catch(move || {
        let (lcs_r, lcs_w) = evmap::Options::default().with_hasher(Hasher::default()).construct::<LifecycleId, LifecycleItem>();
        let (tx, rx) = std::sync::mpsc::channel();
        for (i, m) in msgs.iter().enumerate() {
            tx.send(build_msg(i, m)).unwrap();
        }
        drop(tx);
        let views = std::cell::RefCell::new(vec![]);
        let bags = std::cell::RefCell::new(vec![]);
        let w = parse_lifecycles_buffered_from_stream(lcs_w, rx, &|m: DltMessage| {
            note_bag_defects(&lcs_r, &mut bags.borrow_mut());
            let mut visible = vec![];
            if let Some(r) = lcs_r.read() {
                for (id, bag) in &r {
                    if bag.get_one().is_some() {
                        visible.push(*id);
                    }
                }
            }
            visible.sort();
            let known = lcs_r.get_one(&m.lifecycle).map_or(false, |lc| lc.ecu == m.ecu);
            views.borrow_mut().push(SendView { index: m.index, lc: m.lifecycle, visible, known });
            Ok(())
        });
        let mut fin = vec![];
        if let Some(r) = lcs_r.read() {
            for (id, _) in &r {
                fin.push(*id);
            }
        }
        fin.sort();
        note_bag_defects(&lcs_r, &mut bags.borrow_mut());
        drop(w);
        (views.into_inner(), fin, bags.into_inner())
    })
}

struct SharedDone {
    msgs: Vec<MsgSpec>,
    runs: Vec<(usize, u8, Vec<u64>)>, // (capacity of every channel, consumer pacing mode, model schedule)
    input_coq: String,
    obs: O,
    verdict: Verdict,
    tags: Vec<String>,
}

fn shared_case(msgs: &[MsgSpec], runs: Vec<(usize, u8, Vec<u64>)>, family: &str, hang: Duration) -> SharedDone {
    let fail = |c: &str, d: String| Verdict::Fail { clause: c.into(), detail: d };
    let mut verdict = Verdict::Ok;
    let mut tags = vec!["shared_table".to_string(), format!("shared_family_{}", family)];
    let (views, fin, bags) = match run_pub_before_send(msgs) {
        Ok(x) => x,
        Err(e) => {
            tags.push("stage_panicked".into());
            let _ = e;
            (vec![], vec![], vec![])
        }
    };
    // ranks of lifecycle ids
    let mut ids: Vec<u32> = fin.clone();
    for v in &views {
        ids.push(v.lc);
        ids.extend(v.visible.iter());
    }
    ids.sort();
    ids.dedup();
    let rank = |id: u32| ids.binary_search(&id).unwrap() as u64 + 1;
    // how many lifecycles of one ecu are published only at the end of the stream (still buffered when the input ended)?
    let first_visible: std::collections::BTreeMap<u32, usize> = {
        let mut m = std::collections::BTreeMap::new();
        for (j, v) in views.iter().enumerate() {
            for id in &v.visible {
                m.entry(*id).or_insert(j);
            }
        }
        m
    };
    let _ = first_visible;
    // ---- the side condition, on the real stage: published before sent, and still there at the end
    if let Some(d) = bags.first() {
        verdict = fail("table_keys_have_exactly_one_value", format!("the lifecycle table had a key (lifecycle id {}) with {} values inside an outflow call / after the stage returned", d.0, d.1));
    } else if let Some(v) = views.iter().find(|v| !v.known) {
        verdict = fail("published_before_sent", format!("message {} was handed to the outflow while its lifecycle was not in the shared table (visible ids at that moment: {} of {} at the end)", v.index, v.visible.len(), fin.len()));
    } else if let Some(v) = views.iter().find(|v| !fin.contains(&v.lc)) {
        verdict = fail("published_stays", format!("the lifecycle of delivered message {} is not in the final table", v.index));
    }
    // ---- threaded: lifecycle -> probing plugin -> consumer, every channel of capacity c, consumer eager / stalling / bursty
    let p = Pipeline { msgs: msgs.to_vec(), stages: vec![StageSpec::Lc, StageSpec::Probe], tail_from: None, stable_starts: false };
    let reference = run_real(&p, &reference_script(&p), hang);
    let flags = |o: &RunOut| -> Vec<u64> { o.delivered.iter().map(|m| if m.5.ends_with("k1") { 1 } else { 0 }).collect() };
    let mut obs = vec![];
    for (cap, mode, sched) in &runs {
        let cons: Vec<u8> = match mode {
            0 => vec![],
            1 => vec![3, 0, 0, 2, 4, 0],
            _ => vec![0, 0, 0, 0, 3],
        };
        let sc = Script { caps: vec![*cap; 3], prod: vec![], cons, drop_at: None, sched: sched.clone(), attr_seed: 0, hops: vec![] };
        let b = run_real(&p, &sc, hang);
        obs.push(O::T(flags(&b).into_iter().map(O::n).collect()));
        if matches!(verdict, Verdict::Ok) {
            let v = oracle(&p, &sc, &reference, &b);
            if let Verdict::Fail { clause, detail } = v {
                verdict = fail(&clause, format!("capacity {} pacing {}: {}", cap, mode, detail));
            } else if flags(&b).iter().any(|f| *f == 0) {
                verdict = fail("lookups_schedule_independent", format!("capacity {} pacing {}: the reader stage did not find the lifecycle of some messages: {:?}", cap, mode, flags(&b)));
            }
        }
    }
    if views.iter().any(|v| v.visible.len() + 2 <= fin.len()) {
        tags.push("shared_two_or_more_lifecycles_published_late".into());
    }
    let evs = clist(&views.iter().map(|v| format!("({}, {}, {})", cnums(&v.visible.iter().map(|i| rank(*i)).collect::<Vec<_>>()), v.index, rank(v.lc))).collect::<Vec<_>>());
    let runs_coq = clist(&runs.iter().map(|(c, _, s)| format!("({}, {})", c, cnums(s))).collect::<Vec<_>>());
    let input_coq = format!("inr (inr (inl ({}, {}, {})))", evs, cnums(&fin.iter().map(|i| rank(*i)).collect::<Vec<_>>()), runs_coq);
    SharedDone { msgs: msgs.to_vec(), runs, input_coq, obs: O::T(obs), verdict, tags }
}

fn gen_shared_runs(rng: &mut Rng) -> Vec<(usize, u8, Vec<u64>)> {
    [0usize, 1, 2, 4, LARGE].iter().map(|c| (*c, rng.below(3) as u8, (0..24).map(|_| rng.below(97)).collect())).collect()
}

fn push_shared(sink: &mut Sink, d: SharedDone) {
    let input_json = json!({"shared": true, "msgs": d.msgs, "runs": d.runs});
    let key = input_json.to_string();
    let nontrivial = d.msgs.len() >= 3;
    let id = sink.next_id();
    sink.push(Case { id, input_coq: d.input_coq, input_json, obs: d.obs, verdict: d.verdict, classes: vec![], tags: d.tags, nontrivial, key });
}


// ================================================================== remote wiring (adlt remote, process_file_context)
// parser -> lifecycle -> [plugins] -> [sort] -> bounded channel -> process_file_context -> websocket -> client.
// The consumer end forwards the lifecycle table entries that changed; the client keeps the last info per lifecycle.
// Schedule points compiled into the binary under cfg(adlt_verif) (ADLT_VERIF_DELAY) make pacings reachable in which a
// consumer tick ends between the last message and the lifecycle stage's final publication.
mod remote {
    use super::*;
    use adlt::utils::remote_types::{self, BinType};
    use std::io::{BufRead, BufReader, Write};
    use std::net::TcpStream;
    use std::process::{Child, Command, Stdio};
    use tungstenite::stream::MaybeTlsStream;
    use tungstenite::{Message, WebSocket};

    const BINCODE_CONFIG: bincode::config::Configuration<bincode::config::LittleEndian, bincode::config::Fixint, bincode::config::NoLimit> =
        bincode::config::legacy();

    pub fn adlt_bin() -> Option<String> {
        std::env::var("VERIF_ADLT_BIN").ok().filter(|p| std::path::Path::new(p).exists())
    }

    pub struct Server {
        child: Child,
        pub port: u16,
    }
    impl Server {
        pub fn start(delay: &str) -> Option<Server> {
            let bin = adlt_bin()?;
            for _ in 0..20 {
                let port = portpicker::pick_unused_port()?;
                let mut cmd = Command::new(&bin);
                cmd.args(["remote", "-p", &format!("{}", port)]).stdin(Stdio::null()).stdout(Stdio::piped()).stderr(Stdio::null());
                if delay.is_empty() {
                    cmd.env_remove("ADLT_VERIF_DELAY");
                } else {
                    cmd.env("ADLT_VERIF_DELAY", delay);
                }
                let mut child = cmd.spawn().ok()?;
                let out = child.stdout.take().unwrap();
                let mut rd = BufReader::new(out);
                let mut line = String::new();
                let _ = rd.read_line(&mut line);
                if line.contains("remote server listening") {
                    std::thread::spawn(move || {
                        let mut l = String::new();
                        while rd.read_line(&mut l).map(|n| n > 0).unwrap_or(false) {
                            l.clear();
                        }
                    });
                    return Some(Server { child, port });
                }
                let _ = child.kill();
                let _ = child.wait();
            }
            None
        }
    }
    impl Drop for Server {
        fn drop(&mut self) {
            let _ = self.child.kill();
            let _ = self.child.wait();
        }
    }

    /// a lifecycle as the client is told: ecu, nr_msgs, start, end, resume + 1 (0 = none)
    pub type Row = [u64; 5];

    pub struct Client {
        ws: WebSocket<MaybeTlsStream<TcpStream>>,
        pub file_infos: Vec<u32>,
        pub lcs: std::collections::BTreeMap<u32, Row>,
        pub lc_frames: usize,
        pub dead: Option<String>,
    }
    impl Client {
        pub fn connect(port: u16) -> Option<Client> {
            let t0 = Instant::now();
            loop {
                match tungstenite::client::connect(format!("ws://127.0.0.1:{}", port)) {
                    Ok((ws, _)) => {
                        if let MaybeTlsStream::Plain(s) = ws.get_ref() {
                            s.set_read_timeout(Some(Duration::from_millis(20_000))).ok()?;
                            s.set_nodelay(true).ok()?;
                        }
                        return Some(Client { ws, file_infos: vec![], lcs: Default::default(), lc_frames: 0, dead: None });
                    }
                    Err(_) => {
                        if t0.elapsed() > Duration::from_secs(10) {
                            return None;
                        }
                        std::thread::sleep(Duration::from_millis(10));
                    }
                }
            }
        }
        fn read(&mut self) -> Option<Option<String>> {
            if self.dead.is_some() {
                return None;
            }
            match self.ws.read_message() {
                Ok(Message::Text(t)) => Some(Some(t)),
                Ok(Message::Binary(d)) => {
                    match bincode::decode_from_slice::<remote_types::BinType, _>(&d, BINCODE_CONFIG) {
                        Ok((BinType::FileInfo(f), _)) => self.file_infos.push(f.nr_msgs),
                        Ok((BinType::Lifecycles(l), _)) => {
                            self.lc_frames += 1;
                            for x in l {
                                self.lcs.insert(x.id, [x.ecu as u64, x.nr_msgs as u64, x.start_time, x.end_time, x.resume_time.map_or(0, |r| r + 1)]);
                            }
                        }
                        _ => {}
                    }
                    Some(None)
                }
                Ok(_) => Some(None),
                Err(e) => {
                    self.dead = Some(format!("read: {:?}", e));
                    None
                }
            }
        }
        pub fn cmd(&mut self, s: &str, prefixes: &[&str]) -> Option<String> {
            if let Err(e) = self.ws.write_message(Message::Text(s.to_string())) {
                self.dead = Some(format!("send: {:?}", e));
                return None;
            }
            loop {
                if let Some(t) = self.read()? {
                    if prefixes.iter().any(|p| t.starts_with(p)) {
                        return Some(t);
                    }
                }
            }
        }
        /// the server loop runs one complete process_file_context between two commands
        pub fn sync(&mut self, n: usize) {
            for _ in 0..n {
                if self.cmd("resume", &["ok: resume", "err: resume"]).is_none() {
                    return;
                }
            }
        }
        /// the server announces nr_msgs == n with the last batch and once more when the parser threads have finished
        pub fn wait_finished(&mut self, n: u32) -> bool {
            let t0 = Instant::now();
            loop {
                if self.file_infos.iter().filter(|x| **x == n).count() >= 2 {
                    return true;
                }
                if self.dead.is_some() || t0.elapsed() > Duration::from_secs(30) {
                    return false;
                }
                self.sync(1);
            }
        }
    }

    #[derive(Clone, Debug)]
    pub struct RemoteCase {
        pub msgs: Vec<MsgSpec>,
        pub family: String,
        pub sorted: bool,
        pub plugin: bool,
        pub delay: String,  // ADLT_VERIF_DELAY of the server
        pub stall_ms: u64,  // the client does not read for that long after the open
        pub sched: Vec<u64>, // interleaving for the model
    }
    impl RemoteCase {
        pub fn json(&self) -> Value {
            json!({"remote": true, "msgs": self.msgs, "family": self.family, "sorted": self.sorted, "plugin": self.plugin, "delay": self.delay, "stall_ms": self.stall_ms, "sched": self.sched})
        }
        pub fn from_json(v: &Value) -> RemoteCase {
            RemoteCase {
                msgs: serde_json::from_value(v["msgs"].clone()).unwrap(),
                family: v["family"].as_str().unwrap_or("replay").to_string(),
                sorted: v["sorted"].as_bool().unwrap(),
                plugin: v["plugin"].as_bool().unwrap(),
                delay: v["delay"].as_str().unwrap().to_string(),
                stall_ms: v["stall_ms"].as_u64().unwrap(),
                sched: serde_json::from_value(v["sched"].clone()).unwrap(),
            }
        }
    }

    fn table_rows(lcs_r: &LcsR) -> Vec<(u32, Row)> {
        let mut v = vec![];
        if let Some(r) = lcs_r.read() {
            for (id, bag) in &r {
                if let Some(lc) = bag.get_one() {
                    let lc: &Lifecycle = lc;
                    if !lc.only_control_requests() {
                        v.push((*id, [lc.ecu.as_u32le() as u64, lc.nr_msgs as u64, lc.resume_start_time(), lc.end_time(), if lc.is_resume() { lc.resume_time() + 1 } else { 0 }]));
                    }
                }
            }
        }
        v.sort();
        v
    }

    /// the truth: the library's lifecycle stage on the messages of the file as the library's iterator reads them:
    /// (number of messages, table when the last message is handed over, final table)
    pub fn library_truth(path: &std::path::Path) -> Result<(usize, Vec<(u32, Row)>, Vec<(u32, Row)>), String> {
        let bytes = std::fs::read(path).map_err(|e| e.to_string())?;
        catch(move || {
            let msgs: Vec<DltMessage> = adlt::utils::DltMessageIterator::new(0, std::io::Cursor::new(bytes)).collect();
            let n = msgs.len();
            let (lcs_r, lcs_w) = evmap::Options::default().with_hasher(Hasher::default()).construct::<LifecycleId, LifecycleItem>();
            let (tx, rx) = std::sync::mpsc::channel();
            for m in msgs {
                tx.send(m).unwrap();
            }
            drop(tx);
            let pre = std::cell::RefCell::new(vec![]);
            let w = parse_lifecycles_buffered_from_stream(lcs_w, rx, &|_m: DltMessage| {
                *pre.borrow_mut() = table_rows(&lcs_r);
                Ok(())
            });
            let fin = table_rows(&lcs_r);
            drop(w);
            (n, pre.into_inner(), fin)
        })
    }

    pub struct RemoteDone {
        pub c: RemoteCase,
        pub input_coq: String,
        pub obs: O,
        pub verdict: Verdict,
        pub tags: Vec<String>,
        pub wall_ms: u128,
    }

    fn rows_o(rows: &[Row]) -> O {
        O::T(rows.iter().map(|r| O::T(r.iter().map(|x| O::n(*x)).collect())).collect())
    }
    fn rows_coq(rows: &[Row]) -> String {
        clist(&rows.iter().map(|r| cnums(&r[..])).collect::<Vec<_>>())
    }

    pub fn run_remote(port: u16, c: &RemoteCase, dir: &std::path::Path, uniq: u64) -> RemoteDone {
        let t0 = Instant::now();
        let fail = |cl: &str, d: String| Verdict::Fail { clause: cl.into(), detail: d };
        let path = dir.join(format!("r{}.dlt", uniq));
        {
            let mut f = std::io::BufWriter::new(std::fs::File::create(&path).unwrap());
            for m in build_stream(&c.msgs) {
                m.to_write(&mut f).unwrap();
            }
            f.flush().unwrap();
        }
        let mut tags = vec!["remote".to_string(), format!("remote_family_{}", c.family), format!("remote_{}", if c.sorted { "sorted" } else { "unsorted" })];
        if c.plugin {
            tags.push("remote_plugin".into());
        }
        if c.stall_ms > 0 {
            tags.push("remote_client_stalls".into());
        }
        for d in c.delay.split(',').filter(|x| !x.is_empty()) {
            tags.push(format!("remote_delay_{}", d.split('=').next().unwrap_or("")));
        }
        if c.delay.is_empty() {
            tags.push("remote_delay_none".into());
        }
        let (n_file, pre, fin) = match library_truth(&path) {
            Ok(x) => x,
            Err(e) => {
                return RemoteDone { c: c.clone(), input_coq: "inr (inr (inr (inl ([], [], 0, []))))".into(), obs: O::T(vec![O::L(0), O::T(vec![])]), verdict: fail("library_run", e), tags, wall_ms: 0 };
            }
        };
        // specification of the plugins stage as remote.rs wires it: the FileTransfer plugin of a client that does not say
        // keepFLDA drops exactly the file-transfer data packages; everything else reaches the client
        let dropped = if c.plugin { c.msgs.iter().filter(|m| spec_ft_rejects(m.3, false, false)).count() } else { 0 };
        let n = n_file - dropped.min(n_file);
        if dropped > 0 {
            tags.push("remote_plugin_drops_flda".into());
        }
        if n_file != c.msgs.len() {
            tags.push("remote_file_not_read_completely".into());
        }
        let pre_rows: Vec<Row> = pre.iter().map(|x| x.1).collect();
        let fin_rows: Vec<Row> = fin.iter().map(|x| x.1).collect();
        if pre_rows != fin_rows {
            tags.push("remote_final_refresh_carries_news".into());
        }
        let input_coq = format!("inr (inr (inr (inl ({}, {}, {}, {}))))", rows_coq(&pre_rows), rows_coq(&fin_rows), n, cnums(&c.sched));
        let mut verdict = Verdict::Ok;
        let mut client_rows: Vec<Row> = vec![];
        let mut announced = 0u32;
        match Client::connect(port) {
            None => verdict = fail("connect", "cannot connect to adlt remote".into()),
            Some(mut cl) => {
                let mut open_js = json!({"sort": c.sorted, "collect": false, "files": [path.to_str().unwrap()]});
                if c.plugin {
                    open_js["plugins"] = json!([{"name": "FileTransfer", "allowSave": false}]);
                }
                let open = cl.cmd(&format!("open {}", open_js), &["ok: open", "err: open"]);
                if !open.as_deref().unwrap_or("").starts_with("ok: open") {
                    verdict = fail("open", format!("{:?} {:?}", open, cl.dead));
                } else {
                    if c.stall_ms > 0 {
                        std::thread::sleep(Duration::from_millis(c.stall_ms));
                    }
                    let finished = cl.wait_finished(n as u32);
                    // let the stream settle: several complete ticks after the parser threads have finished
                    cl.sync(4);
                    announced = cl.file_infos.last().copied().unwrap_or(0);
                    client_rows = cl.lcs.values().copied().collect();
                    let closed = cl.cmd("close", &["ok: 'close'", "err: close"]);
                    if !finished {
                        verdict = fail("parser_finishes", format!("the end of parsing was not announced within 30 s ({} messages, file infos {:?}, dead {:?})", n, cl.file_infos, cl.dead));
                    } else if announced as usize != n {
                        verdict = fail("client_message_count", format!("the client was told {} messages; the file has {}, of which the FileTransfer plugin (keepFLDA not set) has to drop {}", announced, n_file, dropped));
                    } else if client_rows != fin_rows {
                        verdict = fail(
                            "client_final_table_equals_library_table",
                            format!("delays [{}], client stall {} ms: the client holds {:?}, the lifecycle stage's final table is {:?} (table at the last message: {:?})", c.delay, c.stall_ms, client_rows, fin_rows, pre_rows),
                        );
                    } else if !closed.as_deref().unwrap_or("").starts_with("ok: 'close'") {
                        verdict = fail("close_answered", format!("{:?} {:?}", closed, cl.dead));
                    }
                }
            }
        }
        let _ = std::fs::remove_file(&path);
        let obs = O::T(vec![O::n(announced as u64), rows_o(&client_rows)]);
        RemoteDone { c: c.clone(), input_coq, obs, verdict, tags, wall_ms: t0.elapsed().as_millis() }
    }

    pub fn gen_settings(rng: &mut Rng, n: usize) -> Vec<String> {
        let mut v = vec![String::new()];
        let d = |rng: &mut Rng, lo: u64, hi: u64| rng.range(lo, hi);
        while v.len() < n {
            let s = match v.len() % 7 {
                1 => format!("lc_before_final_refresh={}", d(rng, 30, 80)),
                2 => format!("lc_before_final_flush={}", d(rng, 30, 80)),
                3 => format!("remote_after_drain={}", d(rng, 1, 20)),
                4 => format!("lc_before_final_refresh={},remote_after_drain={}", d(rng, 30, 80), d(rng, 1, 20)),
                5 => format!("lc_before_final_flush={},lc_before_final_refresh={}", d(rng, 30, 80), d(rng, 30, 80)),
                6 => format!("lc_before_final_flush={},remote_after_drain={}", d(rng, 30, 80), d(rng, 1, 20)),
                _ => format!("lc_before_final_flush={},lc_before_final_refresh={},remote_after_drain={}", d(rng, 30, 60), d(rng, 30, 60), d(rng, 1, 10)),
            };
            v.push(s);
        }
        v
    }

    pub fn gen_case(rng: &mut Rng, i: usize, delay: &str, max: u64) -> RemoteCase {
        // the first two sessions of every delay setting are unsorted, without plugin, on traces whose lifecycles are confirmed
        // and go on: the final refresh of the lifecycle stage then carries news
        let (msgs, family) = match i % 5 {
            1 | 3 => {
                let (m, f) = gen_lc_prefix(rng, (i / 2 % 2) as u64, max.max(8));
                (m, f)
            }
            2 => (gen_double_reboot_end(rng, max, false), "double_reboot_end".to_string()),
            0 => {
                // tidy: 1..3 ecus running for 70..150 s, one message every second or so: confirmed lifecycles, direct forwards
                let necu = rng.range(1, 3);
                let n = rng.range(10, max.max(12));
                let span = rng.range(70, 150) * 1_000_000;
                let m = (0..n).map(|k| ((k % necu) as u8 + 1, RHO + 1000 + k * span / n + (k % necu) * 10, ((1000 + k * span / n) / 100) as u32, 0u8)).collect();
                (m, "tidy".to_string())
            }
            _ => (gen_double_reboot_end(rng, max, true), "double_reboot_end".to_string()),
        };
        let mut msgs: Vec<MsgSpec> = if msgs.len() < 3 { (0..5).map(|k| (1u8, RHO + 1000 + k * 1_000_000, (10 + k * 10_000) as u32, 0u8)).collect() } else { msgs };
        let sorted = i >= 2 && rng.chance(1, 2);
        let plugin = i >= 2 && rng.chance(1, 2);
        if plugin && rng.chance(3, 4) {
            // file transfers in the stream: the plugin of the session rejects their data packages
            add_transfers(rng, &mut msgs);
        }
        RemoteCase {
            msgs,
            family: family.split('@').next().unwrap().to_string(),
            sorted,
            plugin,
            delay: delay.to_string(),
            stall_ms: if rng.chance(1, 3) { rng.range(30, 150) } else { 0 },
            sched: (0..40).map(|_| rng.below(60)).collect(),
        }
    }

    pub fn push(sink: &mut Sink, d: RemoteDone) {
        let input_json = d.c.json();
        let key = input_json.to_string();
        let id = sink.next_id();
        sink.push(Case { id, input_coq: d.input_coq, input_json, obs: d.obs, verdict: d.verdict, classes: vec![], tags: d.tags, nontrivial: true, key });
    }
}

// ================================================================== incremental followers of the lifecycle table
// A consumer that follows the lifecycle table INCREMENTALLY, exactly as remote.rs process_file_context does it (take the
// entries whose lcs_w_refresh_idx is larger than the largest index seen so far; last := max seen), must end with the
// same table as a consumer that reads the table once at the end -- for every pacing.  The protocol relies on every
// refresh of the lifecycle stage carrying a fresh (strictly larger) index.
//  * deterministic part: the real stage alone, the table is read INSIDE every outflow call (what a consumer behind a
//    rendezvous channel can see at the earliest); on the recorded views the follower is run for EVERY choice of the sends
//    after which it looks (reachable follower states, deduplicated), and finally on the table after the stage returned;
//  * threaded part: stage [-> plugins stage] -> consumer on sync_channel(0|1|2|4) with the real helper, the consumer
//    polling the real read handle after received messages as scripted, final poll after the threads have finished.
mod incr {
    use super::*;
    use adlt::dlt::DltChar4;
    use std::collections::{BTreeMap, BTreeSet};

    /// (id, ecu, nr_msgs, start_time, end_time, lcs_w_refresh_idx)
    pub type Ent = (u32, u32, u32, u64, u64, u32);

    #[derive(Clone, Debug)]
    pub struct Trace {
        pub msgs: Vec<MsgSpec>,
        /// message i gets index i * stride (the regular refresh of the stage is driven by the message index: every 100000)
        pub stride: u32,
        /// first letter (offset from 'A') of the name of ecu number e (cyclic); empty = names of dltgen.  The order in which
        /// the stage visits the ecus in a buffer check is the iteration order of a hash map keyed by the name.
        pub names: Vec<u8>,
        pub family: String,
    }
    impl Trace {
        pub fn json(&self) -> Value {
            json!({"msgs": self.msgs, "stride": self.stride, "names": self.names, "family": self.family})
        }
        pub fn from_json(v: &Value) -> Trace {
            Trace {
                msgs: serde_json::from_value(v["msgs"].clone()).unwrap(),
                stride: v["stride"].as_u64().unwrap_or(1) as u32,
                names: serde_json::from_value(v["names"].clone()).unwrap_or_default(),
                family: v["family"].as_str().unwrap_or("replay").to_string(),
            }
        }
    }

    #[derive(Clone, Debug)]
    pub struct Run {
        pub cap: usize,
        pub mid: bool,            // a plugins stage (a marking plugin and one that rejects every 4th message) between the lifecycle stage and the consumer
        pub paced_producer: bool, // producer behind a channel of the same capacity, paced by `cons` rotated
        pub polls: Vec<u8>,       // after the k-th received message (cyclic): 0 no look, 1 look, 2 yield + look, 3 200 us + look
        pub cons: Vec<u8>,        // pacing before the k-th recv (cyclic)
        pub sched: Vec<u64>,      // interleaving for the model
    }
    impl Run {
        pub fn json(&self) -> Value {
            json!({"cap": self.cap, "mid": self.mid, "paced_producer": self.paced_producer, "polls": self.polls, "cons": self.cons, "sched": self.sched})
        }
        pub fn from_json(v: &Value) -> Run {
            Run {
                cap: v["cap"].as_u64().unwrap() as usize,
                mid: v["mid"].as_bool().unwrap_or(false),
                paced_producer: v["paced_producer"].as_bool().unwrap_or(false),
                polls: serde_json::from_value(v["polls"].clone()).unwrap(),
                cons: serde_json::from_value(v["cons"].clone()).unwrap_or_default(),
                sched: serde_json::from_value(v["sched"].clone()).unwrap_or_default(),
            }
        }
    }

    pub fn build(t: &Trace) -> Vec<DltMessage> {
        t.msgs
            .iter()
            .enumerate()
            .map(|(i, m)| {
                let mut d = build_msg(i, m);
                d.index = (i as u32).saturating_mul(t.stride.max(1));
                if !t.names.is_empty() {
                    let k = t.names[(m.0 as usize) % t.names.len()] % 26;
                    d.ecu = DltChar4::from_buf(&[b'A' + k, b'C', b'0' + (m.0 / 10) % 10, b'0' + m.0 % 10]);
                }
                d
            })
            .collect()
    }

    /// the consumer side of the protocol (remote.rs process_file_context, `fc.last_lcs_w_refresh_index`)
    #[derive(Clone, Debug, Default, PartialEq, Eq, PartialOrd, Ord)]
    pub struct Follower {
        /// the highest refresh index seen so far; None = nothing seen yet.  remote.rs encodes "nothing seen" as 0 because the
        /// stage's indices start at 1; which numbers the stage uses is not part of any contract (a consistent renumbering of
        /// writer and reader keeps C13 true), so the follower here depends on the ORDER of the indices only.
        pub last: Option<u32>,
        pub tbl: BTreeMap<u32, Ent>,
    }
    impl Follower {
        pub fn poll(&mut self, view: &[Ent]) {
            let mut new_last = self.last;
            for e in view {
                if self.last.map_or(true, |l| e.5 > l) {
                    new_last = Some(new_last.map_or(e.5, |n| n.max(e.5)));
                    self.tbl.insert(e.0, *e);
                }
            }
            self.last = new_last;
        }
    }
    /// refresh indices are compared by RANK among the indices observed in the run (DESIGN section 2: values of internal
    /// counters are compared by rank on both sides): the k-th smallest index becomes k (1-based), in every view and in the final table
    pub fn rank_refresh_indices(views: &mut [(u32, Vec<Ent>)], fin: &mut [Ent]) -> Vec<u32> {
        let mut all: BTreeSet<u32> = BTreeSet::new();
        for (_, v) in views.iter() {
            for e in v.iter() {
                all.insert(e.5);
            }
        }
        for e in fin.iter() {
            all.insert(e.5);
        }
        let known: Vec<u32> = all.into_iter().collect();
        for (_, v) in views.iter_mut() {
            for e in v.iter_mut() {
                e.5 = rank_of_refresh_index(&known, e.5);
            }
        }
        for e in fin.iter_mut() {
            e.5 = rank_of_refresh_index(&known, e.5);
        }
        known
    }
    /// rank (1-based) of a raw refresh index among the indices the stage-alone run showed; an index that run did not show
    /// (a table state between two sends, seen by a threaded look only) gets the rank of the largest known index below it
    pub fn rank_of_refresh_index(known: &[u32], raw: u32) -> u32 {
        known.partition_point(|k| *k <= raw) as u32
    }

    // ---------------------------------------------------------------- generator
    struct Tb {
        now: u64,
        boot: Vec<Option<u64>>,
        jitter: u64,
        v: Vec<MsgSpec>,
    }
    impl Tb {
        fn msg(&mut self, rng: &mut Rng, e: usize, step: u64, reboot: bool) {
            self.now += step;
            if reboot || self.boot[e].is_none() {
                self.boot[e] = Some(self.now);
                self.now += 300_000 + rng.below(400_000);
            }
            let b = self.boot[e].unwrap();
            let delay = if self.jitter > 0 { rng.below(self.jitter) } else { 0 };
            self.v.push((e as u8 + 1, self.now + delay, ((self.now - b) / 100) as u32, if rng.chance(1, 25) { 1 } else { 0 }));
        }
        /// every ecu of `es` sends a block (or all of them interleaved)
        fn burst(&mut self, rng: &mut Rng, es: &[usize], blocks: bool, reboot_p: u64) {
            let lens: Vec<u64> = es.iter().map(|_| rng.range(1, 6)).collect();
            if blocks {
                for (j, e) in es.iter().enumerate() {
                    let rb = self.boot[*e].is_some() && rng.chance(reboot_p, 4);
                    for i in 0..lens[j] {
                        let step = if i == 0 { rng.range(100_000, 3_000_000) } else { rng.range(20_000, 400_000) };
                        self.msg(rng, *e, step, rb && i == 0);
                    }
                }
            } else {
                let mut left = lens.clone();
                let rb: Vec<bool> = es.iter().map(|e| self.boot[*e].is_some() && rng.chance(reboot_p, 4)).collect();
                let mut first = vec![true; es.len()];
                while left.iter().any(|l| *l > 0) {
                    let j = rng.below(es.len() as u64) as usize;
                    if left[j] == 0 {
                        continue;
                    }
                    left[j] -= 1;
                    let a1 = rng.range(20_000, 400_000);
                    self.msg(rng, es[j], a1, rb[j] && first[j]);
                    first[j] = false;
                }
            }
        }
    }

    fn subset(rng: &mut Rng, n: usize, lo: usize) -> Vec<usize> {
        let mut all: Vec<usize> = (0..n).collect();
        // seeded shuffle: the order in which the ecus appear
        for i in (1..all.len()).rev() {
            let j = rng.below(i as u64 + 1) as usize;
            all.swap(i, j);
        }
        let k = rng.range(lo.min(n) as u64, n as u64) as usize;
        all.truncate(k.max(1));
        all
    }

    pub fn gen_trace(rng: &mut Rng, i: usize, max: u64) -> Trace {
        let s = 1_000_000u64;
        let fam = i % 8;
        let necu = rng.range(2, 5) as usize;
        let mut tb = Tb { now: RHO + 10 * s, boot: vec![None; necu + 1], jitter: if rng.chance(1, 3) { rng.range(1_000, 150_000) } else { 0 }, v: vec![] };
        let family;
        match fam {
            // several ecus, a few messages each (in blocks / interleaved), all quiet for more than 60 s, then a message of a new
            // ecu, of one of them (going on, or after a reboot): ONE buffer check confirms several lifecycles; some of the ecus
            // never send again
            0 | 1 => {
                family = if fam == 0 { "gap_blocks" } else { "gap_interleaved" };
                for _round in 0..rng.range(1, 2) {
                    let es = subset(rng, necu, 2);
                    tb.burst(rng, &es, fam == 0, 1);
                    tb.now += rng.range(61, 200) * s;
                    let trig = match rng.below(3) {
                        0 => necu, // an ecu not seen so far
                        _ => *rng.pick(&es),
                    };
                    let a2 = rng.chance(1, 2);
                    tb.msg(rng, trig, 0, a2);
                    let alive: Vec<usize> = es.iter().copied().filter(|e| *e == trig || rng.chance(1, 3)).collect();
                    let alive = if alive.is_empty() { vec![trig] } else { alive };
                    for _ in 0..rng.below(8) {
                        let e = *rng.pick(&alive);
                        let a1 = rng.range(1_100_000, 4_000_000);
                        tb.msg(rng, e, a1, false);
                    }
                    tb.now += rng.range(1, 30) * s;
                }
            }
            // one or two ecus that boot 2..3 times within less than a minute: several buffered lifecycles of ONE ecu
            2 => {
                family = "reboots";
                let es = subset(rng, necu.min(2), 1);
                for b in 0..rng.range(2, 3) {
                    for e in &es {
                        for i in 0..rng.range(1, 4) {
                            let step = if i == 0 { rng.range(2, 12) * s } else { rng.range(20_000, 400_000) };
                            tb.msg(rng, *e, step, i == 0 && b > 0);
                        }
                    }
                }
                if rng.chance(2, 3) {
                    tb.now += rng.range(61, 200) * s;
                    let trig = if rng.chance(1, 3) { necu } else { *rng.pick(&es) };
                    let a2 = rng.chance(1, 2);
                    tb.msg(rng, trig, 0, a2);
                    for _ in 0..rng.below(6) {
                        let a1 = rng.range(1_100_000, 4_000_000);
                        tb.msg(rng, trig, a1, false);
                    }
                }
            }
            // the stream ends while several lifecycles are buffered (optionally after a confirmed phase of one ecu)
            3 => {
                family = "end_of_stream";
                if rng.chance(1, 2) {
                    let span = rng.range(65, 120) * s;
                    let n = rng.range(4, 10);
                    for _ in 0..n {
                        tb.msg(rng, 0, span / n, false);
                    }
                }
                let es = subset(rng, necu, 2);
                let blocks = rng.chance(1, 2);
                tb.burst(rng, &es, blocks, 2);
                if rng.chance(1, 2) {
                    let es2 = subset(rng, necu, 1);
                    tb.burst(rng, &es2, true, 3);
                }
            }
            // an ecu that runs all the time (messages forwarded directly, the regular refresh at work when the index stride is
            // large), other ecus show up for a few messages and go away
            4 => {
                family = "regular_refresh";
                let total = rng.range(80, 250) * s;
                let t_end = tb.now + total;
                tb.msg(rng, 0, 0, false);
                while tb.now < t_end && (tb.v.len() as u64) < max + 20 {
                    let a1 = rng.range(1_100_000, 6_000_000);
                    tb.msg(rng, 0, a1, false);
                    if rng.chance(1, 6) {
                        let es: Vec<usize> = subset(rng, necu, 1).into_iter().filter(|e| *e != 0).collect();
                        if !es.is_empty() {
                            tb.burst(rng, &es, true, 2);
                        }
                    }
                }
            }
            // a REGULAR refresh followed by another kind of publication: ecu 0 is confirmed and runs (with a large index
            // stride every direct forward of one of its messages does a regular refresh); it goes quiet while another ecu
            // sends a short block (everything is queued, no refresh); after more than a minute of silence a message of
            // ecu 0 / of the other ecu after a reboot / of a new ecu confirms the short lifecycle (a CONFIRMATION refresh, its
            // messages are released at once and it is never published again), then ecu 0 goes on (regular refreshes again),
            // or the stream ends (end-of-stream publication, final forced refresh); 1..3 rounds
            6 => {
                family = "regular_then_confirm";
                tb.msg(rng, 0, 0, false);
                let t_conf = tb.now + rng.range(62, 90) * s;
                while tb.now < t_conf {
                    let a1 = rng.range(1_100_000, 9_000_000);
                    tb.msg(rng, 0, a1, false);
                }
                for _ in 0..rng.below(4) {
                    let a1 = rng.range(1_100_000, 3_000_000);
                    tb.msg(rng, 0, a1, false);
                }
                let rounds = rng.range(1, 3);
                for round in 0..rounds {
                    let b = 1 + rng.below(necu as u64 - 1) as usize;
                    let reboot = tb.boot[b].is_some();
                    for i in 0..rng.range(1, 4) {
                        let step = if i == 0 { rng.range(1_100_000, 3_000_000) } else { rng.range(20_000, 400_000) };
                        tb.msg(rng, b, step, reboot && i == 0);
                    }
                    tb.now += rng.range(61, 120) * s;
                    match rng.below(4) {
                        0 | 1 => {}                          // ecu 0 goes on: its message confirms the short lifecycle
                        2 => tb.msg(rng, b, 0, true),        // the other ecu reboots: confirmed by its new lifecycle, which is buffered
                        _ => tb.msg(rng, necu, 0, false),    // an ecu not seen so far
                    }
                    if round + 1 == rounds && rng.chance(1, 3) {
                        break; // the stream ends here
                    }
                    for _ in 0..rng.range(1, 6) {
                        let a1 = rng.range(1_100_000, 5_000_000);
                        tb.msg(rng, 0, a1, false);
                    }
                }
            }
            // a published lifecycle that is merged into its still buffered predecessor (its key has to leave the table again)
            7 => {
                family = "resume_untag";
                tb.v = gen_resume_untag(rng);
            }
            _ => {
                family = "mixed";
                tb.v = match rng.below(4) {
                    0 => {
                        let stable = rng.chance(1, 2);
                        gen_double_reboot_end(rng, max, stable)
                    }
                    1 => gen_msgs(rng, max),
                    2 => from_lcgen(lcgen::gen_merge_template(rng)),
                    _ => {
                        let f = rng.below(3);
                        gen_lc_prefix(rng, f, max).0
                    }
                };
            }
        }
        let stride = match fam {
            4 => *rng.pick(&[33_334u32, 50_001, 100_001, 100_001]),
            6 => *rng.pick(&[33_334u32, 50_001, 100_001, 100_001, 200_000]),
            _ => *rng.pick(&[1u32, 1, 40_000, 100_001]),
        };
        // names: a seeded assignment of first letters (different buckets of the stage's ecu map), or the names of dltgen
        let names: Vec<u8> = if rng.chance(1, 4) {
            vec![]
        } else {
            let mut l: Vec<u8> = (0..8).collect();
            for i in (1..l.len()).rev() {
                let j = rng.below(i as u64 + 1) as usize;
                l.swap(i, j);
            }
            l
        };
        let mut msgs = tb.v;
        msgs.truncate(max as usize + 40);
        Trace { msgs, stride, names, family: family.to_string() }
    }

    /// hand-picked traces: two ecus with one short lifecycle each confirmed by ONE buffer check triggered by a third ecu 200 s
    /// later (both orders of appearance, three namings), several lifecycles of one ecu confirmed by one check, the witness of
    /// the recorded finding (a published lifecycle merged away: DESIGN App. A C07-1), the empty stream, one message
    pub fn corpus() -> Vec<Trace> {
        let s = 1_000_000u64;
        let demo = |a: u8, b: u8, names: Vec<u8>, stride: u32| -> Trace {
            let mut msgs: Vec<MsgSpec> = (0..5u64).map(|i| (a, RHO + 10 * s + i * 100_000, (10_000 + i * 1000) as u32, 2u8)).collect();
            msgs.extend((0..5u64).map(|i| (b, RHO + 10 * s + 500_000 + i * 100_000, (20_000 + i * 1000) as u32, 2u8)));
            msgs.push((3, RHO + 210 * s, 10_000, 2));
            Trace { msgs, stride, names, family: "corpus_two_ecus_one_check".into() }
        };
        let mut v = vec![
            demo(1, 2, vec![], 1),
            demo(2, 1, vec![], 1),
            demo(1, 2, vec![0, 1, 2, 3], 1),
            demo(2, 1, vec![0, 1, 2, 3], 1),
            demo(1, 2, vec![3, 2, 1, 0], 100_001),
            demo(2, 1, vec![3, 2, 1, 0], 40_000),
        ];
        // one ecu booting three times within 20 s, then quiet for 100 s, then going on
        let mut msgs: Vec<MsgSpec> = vec![];
        for b in 0..3u64 {
            for i in 0..3u64 {
                msgs.push((1, RHO + 10 * s + b * 7 * s + i * 200_000, (5_000 + i * 2000) as u32, 0));
            }
        }
        for i in 0..4u64 {
            msgs.push((1, RHO + 130 * s + i * 1_500_000, (1_000_000 + i * 15_000) as u32, 0));
        }
        v.push(Trace { msgs, stride: 1, names: vec![], family: "corpus_one_ecu_three_boots".into() });
        v.push(Trace {
            msgs: vec![(1, RHO, 200000, 0), (2, RHO + s / 5, 0, 0), (1, RHO + s / 2, 0, 0), (1, RHO - s, 0, 0), (3, RHO + 60 * s + s / 10, 0, 0), (1, RHO - 5 * s, 0, 0)],
            stride: 1,
            names: vec![],
            family: "corpus_published_lifecycle_merged_away".into(),
        });
        // regular refresh, then a confirmation: ecu 1 runs for 100 s (every message after its confirmation is forwarded directly
        // and, with these strides, does a regular refresh), ecu 2 sends two messages, 70 s later ecu 1 goes on / ecu 3 appears
        for (stride, trig, go_on) in [(100_001u32, 1u8, 3u64), (50_001, 1, 2), (200_000, 3, 0), (100_001, 3, 4), (33_334, 1, 0)] {
            let mut msgs: Vec<MsgSpec> = (0..11u64).map(|i| (1u8, RHO + 10 * s + i * 10 * s, (10_000 + i * 100_000) as u32, 0u8)).collect();
            msgs.push((2, RHO + 112 * s, 30_000, 0));
            msgs.push((2, RHO + 112 * s + 300_000, 33_000, 0));
            let t = RHO + 185 * s;
            msgs.push((trig, t, if trig == 1 { 1_760_000 } else { 20_000 }, 0));
            for i in 0..go_on {
                msgs.push((1, t + (i + 1) * 2 * s, (1_760_000 + (i + 1) * 20_000) as u32, 0));
            }
            v.push(Trace { msgs, stride, names: vec![], family: "corpus_regular_refresh_then_confirmation".into() });
        }
        // a resume lifecycle published, untagged and merged into its still buffered predecessor (1000/100 1010/100 1012/162 1014/80)
        for chatter in [false, true] {
            let mut msgs: Vec<MsgSpec> = vec![(1, RHO + 1000 * s, 1_000_000, 0), (1, RHO + 1010 * s, 1_000_000, 0), (1, RHO + 1012 * s, 1_620_000, 0), (1, RHO + 1014 * s, 800_000, 0)];
            if chatter {
                msgs.insert(2, (2, RHO + 1011 * s, 50_000, 0));
                msgs.push((2, RHO + 1015 * s, 90_000, 0));
                msgs.push((1, RHO + 1016 * s, 820_000, 0));
            }
            v.push(Trace { msgs, stride: 1, names: vec![], family: "corpus_published_resume_lifecycle_merged_into_buffered_predecessor".into() });
        }
        v.push(Trace { msgs: vec![], stride: 1, names: vec![], family: "corpus_empty".into() });
        v.push(Trace { msgs: vec![(1, RHO, 10, 0)], stride: 100_001, names: vec![], family: "corpus_one_message".into() });
        v
    }

    pub fn gen_runs(rng: &mut Rng) -> Vec<Run> {
        let script = |rng: &mut Rng, codes: &[u8]| -> Vec<u8> { (0..rng.range(1, 9)).map(|_| *rng.pick(codes)).collect() };
        let mut v = vec![
            // the fastest follower: rendezvous channel, looks at the table after every message
            Run { cap: 0, mid: false, paced_producer: false, polls: vec![1], cons: vec![], sched: vec![] },
            Run { cap: 0, mid: true, paced_producer: rng.chance(1, 2), polls: script(rng, &[1, 1, 2, 0]), cons: script(rng, &[0, 0, 1, 2]), sched: vec![] },
            Run { cap: 1, mid: rng.chance(1, 3), paced_producer: rng.chance(1, 2), polls: script(rng, &[1, 2, 3, 0]), cons: script(rng, &[0, 1, 2, 3]), sched: vec![] },
            Run { cap: 2, mid: rng.chance(1, 3), paced_producer: rng.chance(1, 2), polls: script(rng, &[1, 0, 0, 2]), cons: script(rng, &[0, 0, 0, 3]), sched: vec![] },
            Run { cap: *rng.pick(&[4usize, 7, LARGE]), mid: false, paced_producer: false, polls: script(rng, &[1, 0, 3]), cons: script(rng, &[0, 2, 3, 4]), sched: vec![] },
        ];
        for r in v.iter_mut() {
            r.sched = (0..60).map(|_| rng.below(300)).collect();
        }
        v
    }

    // ---------------------------------------------------------------- deterministic part
    /// the real stage alone; the table as readers see it at every outflow call (message index, view), and at the end
    pub fn run_views(t: &Trace) -> Result<(Vec<(u32, Vec<Ent>)>, Vec<Ent>, Vec<(u32, usize)>, Vec<u32>), String> {
        let msgs = build(t);
        catch(move || {
            let (lcs_r, lcs_w) = evmap::Options::default().with_hasher(Hasher::default()).construct::<LifecycleId, LifecycleItem>();
            let (tx, rx) = std::sync::mpsc::channel();
            for m in msgs {
                tx.send(m).unwrap();
            }
            drop(tx);
            let views = std::cell::RefCell::new(vec![]);
            let bags = std::cell::RefCell::new(vec![]);
            let w = parse_lifecycles_buffered_from_stream(lcs_w, rx, &|m: DltMessage| {
                note_bag_defects(&lcs_r, &mut bags.borrow_mut());
                views.borrow_mut().push((m.index, read_table(&lcs_r)));
                Ok(())
            });
            note_bag_defects(&lcs_r, &mut bags.borrow_mut());
            let mut fin = read_table(&lcs_r);
            drop(w);
            let mut views = views.into_inner();
            let known = rank_refresh_indices(&mut views, &mut fin);
            (views, fin, bags.into_inner(), known)
        })
    }

    /// what is wrong with a follower's table (after its look at the final table): (stale or missing ids, ids the table no longer has)
    pub fn defects(f: &Follower, fin: &[Ent]) -> (Vec<u32>, Vec<u32>) {
        let stale: Vec<u32> = fin.iter().filter(|e| f.tbl.get(&e.0) != Some(*e)).map(|e| e.0).collect();
        let extra: Vec<u32> = f.tbl.keys().copied().filter(|id| !fin.iter().any(|e| e.0 == *id)).collect();
        (stale, extra)
    }

    pub struct Explored {
        pub states: usize,
        pub truncated: bool,
        /// a choice of sends after which the follower looks (positions), ending with a stale / missing entry
        pub stale: Option<(Vec<usize>, Follower)>,
        /// ... ending with an entry of a lifecycle that is no longer in the table
        pub extra: Option<(Vec<usize>, Follower)>,
    }

    /// every follower state reachable by looking at the table after an arbitrary subset of the sends
    pub fn explore(views: &[(u32, Vec<Ent>)], fin: &[Ent], limit: usize) -> Explored {
        let mut states: BTreeMap<Follower, Vec<usize>> = BTreeMap::new();
        states.insert(Follower::default(), vec![]);
        let mut truncated = false;
        for (j, (_, v)) in views.iter().enumerate() {
            // the view only matters when it differs from the previous one
            if j > 0 && views[j - 1].1 == *v {
                continue;
            }
            let cur: Vec<(Follower, Vec<usize>)> = states.iter().map(|(f, p)| (f.clone(), p.clone())).collect();
            for (mut f, mut p) in cur {
                f.poll(v);
                if !states.contains_key(&f) {
                    if states.len() >= limit {
                        truncated = true;
                        break;
                    }
                    p.push(j);
                    states.insert(f, p);
                }
            }
        }
        let mut stale = None;
        let mut extra = None;
        for (f, p) in &states {
            let mut f = f.clone();
            f.poll(fin);
            let (st, ex) = defects(&f, fin);
            if !st.is_empty() && stale.as_ref().map_or(true, |(q, _): &(Vec<usize>, Follower)| p.len() < q.len()) {
                stale = Some((p.clone(), f.clone()));
            }
            if !ex.is_empty() && extra.as_ref().map_or(true, |(q, _): &(Vec<usize>, Follower)| p.len() < q.len()) {
                extra = Some((p.clone(), f));
            }
        }
        Explored { states: states.len(), truncated, stale, extra }
    }

    pub fn follow(views: &[(u32, Vec<Ent>)], fin: &[Ent], pat: &[bool]) -> Follower {
        let mut f = Follower::default();
        for (j, (_, v)) in views.iter().enumerate() {
            if pat.get(j).copied().unwrap_or(false) {
                f.poll(v);
            }
        }
        f.poll(fin);
        f
    }

    // ---------------------------------------------------------------- threaded part
    pub struct Out {
        pub delivered: Vec<u32>,
        pub follower: Follower,
        pub fin: Vec<Ent>,
        pub hung: bool,
        pub panicked: bool,
        pub looks: usize,
        pub bags: Vec<(u32, usize)>,
    }

    /// the messages the plugins stage between the lifecycle stage and the consumer rejects (by index)
    pub fn mid_rejects(t: &Trace) -> Vec<u32> {
        (0..t.msgs.len() as u32).filter(|i| i % 4 == 1).map(|i| i.saturating_mul(t.stride.max(1))).collect()
    }

    pub fn run_threaded(t: &Trace, r: &Run, hang: Duration) -> Out {
        let msgs = build(t);
        let mid_chain = StageSpec::Chain(vec![Plug::Mark, Plug::Reject(mid_rejects(t))], vec![]);
        let (lcs_r, lcs_w) = evmap::Options::default().with_hasher(Hasher::default()).construct::<LifecycleId, LifecycleItem>();
        let (done_tx, done_rx) = sync_channel::<usize>(8);
        let (tx0, rx0) = sync_channel::<DltMessage>(if r.paced_producer { r.cap } else { LARGE.max(msgs.len() + 1) });
        let prod_script: Vec<u8> = if r.paced_producer { r.cons.iter().rev().copied().collect() } else { vec![] };
        let g = DoneGuard(done_tx.clone(), 0);
        let producer = std::thread::spawn(move || {
            let _g = g;
            for (i, m) in msgs.into_iter().enumerate() {
                if !prod_script.is_empty() {
                    pace(prod_script[i % prod_script.len()]);
                }
                if sync_sender_send_delay_if_full(m, &tx0).is_err() {
                    break;
                }
            }
        });
        let (tx1, rx1) = sync_channel::<DltMessage>(r.cap);
        let g = DoneGuard(done_tx.clone(), 1);
        let lc = std::thread::spawn(move || {
            let _g = g;
            parse_lifecycles_buffered_from_stream(lcs_w, rx0, &|m| sync_sender_send_delay_if_full(m, &tx1))
        });
        let mut nthreads = 2;
        let mut mid = None;
        let rx_last = if r.mid {
            let (tx2, rx2) = sync_channel::<DltMessage>(r.cap);
            let g = DoneGuard(done_tx.clone(), 2);
            nthreads = 3;
            mid = Some(std::thread::spawn(move || {
                let _g = g;
                plugins_process_msgs(rx1, &|m| sync_sender_send_delay_if_full(m, &tx2), make_plugins(&mid_chain, false, &[]).0).is_ok()
            }));
            rx2
        } else {
            rx1
        };
        drop(done_tx);
        let mut f = Follower::default();
        let mut delivered = vec![];
        let mut looks = 0usize;
        let mut k = 0usize;
        let mut bags: Vec<(u32, usize)> = vec![];
        loop {
            if !r.cons.is_empty() {
                pace(r.cons[k % r.cons.len()]);
            }
            match rx_last.recv() {
                Ok(m) => {
                    delivered.push(m.index);
                    let code = if r.polls.is_empty() { 0 } else { r.polls[k % r.polls.len()] };
                    if code > 0 {
                        match code {
                            1 => {}
                            2 => std::thread::yield_now(),
                            _ => std::thread::sleep(Duration::from_micros(200)),
                        }
                        note_bag_defects(&lcs_r, &mut bags);
                        f.poll(&read_table(&lcs_r));
                        looks += 1;
                    }
                    k += 1;
                }
                Err(_) => break,
            }
        }
        drop(rx_last);
        let deadline = Instant::now() + hang;
        let mut finished = 0;
        while finished < nthreads {
            match done_rx.recv_timeout(deadline.saturating_duration_since(Instant::now())) {
                Ok(_) => finished += 1,
                Err(_) => break,
            }
        }
        if finished < nthreads {
            return Out { delivered, follower: f, fin: vec![], hung: true, panicked: false, looks, bags };
        }
        let _ = producer.join();
        let mid_ok = mid.map_or(true, |h| h.join().unwrap_or(false));
        match lc.join() {
            Ok(w) => {
                // the look after everything has finished (a consumer that never stops ticking)
                note_bag_defects(&lcs_r, &mut bags);
                let fin = read_table(&lcs_r);
                f.poll(&fin);
                drop(w);
                Out { delivered, follower: f, fin, hung: false, panicked: !mid_ok, looks, bags }
            }
            Err(_) => Out { delivered, follower: f, fin: vec![], hung: false, panicked: true, looks, bags },
        }
    }

    // ---------------------------------------------------------------- one case
    pub struct Done {
        pub t: Trace,
        pub pats: Vec<Vec<bool>>,
        pub runs: Vec<Run>,
        pub input_coq: String,
        pub obs: O,
        pub verdict: Verdict,
        pub classes: Vec<String>,
        pub tags: Vec<String>,
        pub states: usize,
    }

    fn ent_o(rank: u64, e: &Ent) -> O {
        O::T(vec![O::n(rank), O::n(e.5), O::n(e.1), O::n(e.2), O::n(e.3), O::n(e.4)])
    }

    pub fn case(t: &Trace, pats_replay: Option<Vec<Vec<bool>>>, runs: Vec<Run>, rng: &mut Rng, hang: Duration) -> Done {
        let fail = |c: &str, d: String| Verdict::Fail { clause: c.into(), detail: d };
        let mut verdict = Verdict::Ok;
        let mut classes = vec![];
        let mut tags = vec!["incr_follower".to_string(), format!("incr_family_{}", t.family), format!("incr_stride_{}", if t.stride == 1 { "1" } else if t.stride < 100_000 { "sub_100k" } else { "over_100k" })];
        tags.push(if t.names.is_empty() { "incr_names_dltgen".into() } else { "incr_names_permuted".into() });
        let (views, fin, bags, known_idx) = match run_views(t) {
            Ok(x) => x,
            Err(e) => {
                tags.push("stage_panicked".into());
                verdict = fail("incr_stage_runs", e);
                (vec![], vec![], vec![], vec![])
            }
        };
        // every key of the table has exactly one value, whenever a reader looks (remote.rs: `b.get_one().unwrap()`)
        let mut n_bag_defects = bags.len();
        if let (Verdict::Ok, Some(d)) = (&verdict, bags.first()) {
            verdict = fail("table_keys_have_exactly_one_value", format!("the lifecycle table had a key (lifecycle id {}) with {} values inside an outflow call / after the stage returned: a reader that unwraps get_one() dies", d.0, d.1));
        }
        // ranks of the lifecycle ids (process-wide counter): all ids ever visible at a send or at the end
        let mut ids: BTreeSet<u32> = fin.iter().map(|e| e.0).collect();
        for (_, v) in &views {
            ids.extend(v.iter().map(|e| e.0));
        }
        let ids: Vec<u32> = ids.into_iter().collect();
        let rank = |id: u32| ids.binary_search(&id).unwrap() as u64 + 1;
        // ---- the publication sequence as events: what changed between two consecutive looks, grouped by refresh index
        let mut evs: Vec<String> = vec![];
        let mut prev: BTreeMap<u32, Ent> = BTreeMap::new();
        let mut n_refresh = 0usize;
        let mut n_between_sends_max = 0usize;
        let mut first_pub: Vec<(u32, u32, usize)> = vec![]; // (id, idx, number of sends before)
        let mut refresh_kinds: Vec<(bool, usize)> = vec![]; // per refresh: publishes a lifecycle for the first time?, sends before
        let mut delta = |v: &[Ent], prev: &mut BTreeMap<u32, Ent>, evs: &mut Vec<String>, sends: usize| -> usize {
            let refresh_kinds = &mut refresh_kinds;
            let mut groups: BTreeMap<u32, Vec<Ent>> = BTreeMap::new();
            for e in v {
                if prev.get(&e.0) != Some(e) {
                    groups.entry(e.5).or_default().push(*e);
                }
            }
            let gone: Vec<u32> = prev.keys().copied().filter(|id| !v.iter().any(|e| e.0 == *id)).collect();
            for id in &gone {
                evs.push(format!("(1, {}, [])", rank(*id)));
                prev.remove(id);
            }
            let n = groups.len();
            for (idx, es) in groups {
                let ups: Vec<String> = es.iter().map(|e| format!("({}, {})", rank(e.0), cnums(&[e.1 as u64, e.2 as u64, e.3, e.4]))).collect();
                evs.push(format!("(0, {}, {})", idx, clist(&ups)));
                let mut first = false;
                for e in es {
                    if !prev.contains_key(&e.0) {
                        first_pub.push((e.0, idx, sends));
                        first = true;
                    }
                    prev.insert(e.0, e);
                }
                refresh_kinds.push((first, sends));
            }
            n
        };
        for (j, (_, v)) in views.iter().enumerate() {
            let n = delta(v, &mut prev, &mut evs, j);
            n_refresh += n;
            n_between_sends_max = n_between_sends_max.max(n);
            evs.push(format!("(2, {}, [])", j));
        }
        n_refresh += delta(&fin, &mut prev, &mut evs, views.len());
        drop(delta);
        // coverage tags
        if n_between_sends_max >= 2 {
            tags.push("incr_two_or_more_refreshes_between_two_sends".into());
        }
        // two lifecycles first published under consecutive indices with sends in between (as two confirmations of one buffer
        // check with a drain in between are), the second one never published again
        let mut crit = false;
        let mut crit_final = false;
        for w in first_pub.windows(2) {
            if w[1].1 == w[0].1 + 1 && w[1].2 > w[0].2 {
                crit = true;
                if fin.iter().any(|e| e.0 == w[1].0 && e.5 == w[1].1) {
                    crit_final = true;
                }
            }
        }
        if crit {
            tags.push("incr_consecutive_first_publications_with_sends_between".into());
        }
        // a refresh that only re-publishes known lifecycles (a regular refresh) followed, after sends, by one that publishes a
        // new lifecycle (a confirmation / the end-of-stream publication), or by another regular one
        for w in refresh_kinds.windows(2) {
            if !w[0].0 && w[1].1 > w[0].1 {
                let t = if w[1].0 { "incr_regular_refresh_then_first_publication".to_string() } else { "incr_regular_refresh_then_regular_refresh".to_string() };
                if !tags.contains(&t) {
                    tags.push(t);
                }
            }
        }
        if let (Some(l), true) = (refresh_kinds.iter().rposition(|k| k.0), refresh_kinds.len() >= 2) {
            if l > 0 && !refresh_kinds[l - 1].0 && fin.iter().any(|e| first_pub.iter().any(|f| f.0 == e.0 && f.1 == e.5 && f.2 == refresh_kinds[l].1)) {
                tags.push("incr_lifecycle_confirmed_after_a_regular_refresh_never_published_again".into());
            }
        }
        if crit_final {
            tags.push("incr_second_of_them_never_published_again".into());
        }
        if first_pub.windows(2).any(|w| w[1].1 == w[0].1 && w[1].2 == w[0].2) {
            tags.push("incr_several_lifecycles_in_one_refresh".into());
        }
        tags.push(format!("incr_refreshes_{}", match n_refresh { 0 => "0", 1..=2 => "1-2", 3..=9 => "3-9", _ => "10+" }));
        tags.push(format!("incr_final_table_{}", match fin.len() { 0 => "0", 1 => "1", 2..=3 => "2-3", _ => "4+" }));
        // ---- every choice of looks
        let ex = explore(&views, &fin, 20_000);
        if ex.truncated {
            tags.push("incr_exploration_truncated".into());
        }
        let describe = |f: &Follower| -> String {
            let (st, exx) = defects(f, &fin);
            format!(
                "the follower holds {:?}; the final table is {:?}; stale or missing: ids of rank {:?}, no longer in the table: {:?}",
                f.tbl.values().map(|e| (rank_or0(&ids, e.0), e.2, e.5)).collect::<Vec<_>>(),
                fin.iter().map(|e| (rank(e.0), e.2, e.5)).collect::<Vec<_>>(),
                st.iter().map(|i| rank(*i)).collect::<Vec<_>>(),
                exx.iter().map(|i| rank_or0(&ids, *i)).collect::<Vec<_>>()
            )
        };
        if matches!(verdict, Verdict::Ok) {
            if let Some((p, f)) = &ex.stale {
                verdict = fail(
                    "incremental_follower_ends_with_final_table",
                    format!("a consumer that looks at the table (only) after sends number {:?} of {} and once more at the end: {} (entries as (id rank, nr_msgs, refresh idx))", p, views.len(), describe(f)),
                );
            } else if let Some((p, f)) = &ex.extra {
                // a published lifecycle was merged away: the protocol cannot tell a follower (recorded finding)
                classes.push("follower_keeps_removed_lifecycle".to_string());
                verdict = fail(
                    "incremental_follower_holds_only_final_lifecycles",
                    format!("a consumer that looks at the table after sends number {:?} of {}: {}", p, views.len(), describe(f)),
                );
            }
        }
        if ex.extra.is_some() {
            tags.push("incr_published_lifecycle_removed_later".into());
        }
        // ---- scripted followers for the model: every send, every 2nd, every 3rd, seeded, and the failing choice if any
        let n = views.len();
        let pats: Vec<Vec<bool>> = match pats_replay {
            Some(p) => p,
            None => {
                let mut p: Vec<Vec<bool>> = vec![
                    vec![true; n],
                    (0..n).map(|j| j % 2 == 0).collect(),
                    (0..n).map(|j| j % 3 == 2).collect(),
                    (0..n).map(|_| rng.chance(1, 2)).collect(),
                    (0..n).map(|_| rng.chance(1, 6)).collect(),
                ];
                for w in [&ex.stale, &ex.extra].into_iter().flatten() {
                    p.push((0..n).map(|j| w.0.contains(&j)).collect());
                }
                p
            }
        };
        let restricted = |f: &Follower, fin_ids: &[u32], det_ranks: &[u64]| -> O {
            O::T(fin_ids.iter().zip(det_ranks.iter()).filter_map(|(id, rk)| f.tbl.get(id).map(|e| ent_o(*rk, e))).collect())
        };
        let fin_ids: Vec<u32> = fin.iter().map(|e| e.0).collect();
        let fin_ranks: Vec<u64> = fin_ids.iter().map(|i| rank(*i)).collect();
        let det_obs: Vec<O> = pats.iter().map(|p| restricted(&follow(&views, &fin, p), &fin_ids, &fin_ranks)).collect();
        // ---- threaded
        let want: Vec<u32> = views.iter().map(|v| v.0).collect();
        let canon_fin = |f: &[Ent]| -> Vec<(u32, u32, u64, u64, u32)> { f.iter().map(|e| (e.1, e.2, e.3, e.4, e.5)).collect() };
        let mut thr_obs = vec![];
        let mut looks_total = 0usize;
        for r in &runs {
            let mut o = run_threaded(t, r, hang);
            // the threaded follower worked on the raw indices (order-based protocol); for the comparison with the stage-alone run
            // and with the model the indices are ranked like that run's
            for e in o.fin.iter_mut() {
                e.5 = rank_of_refresh_index(&known_idx, e.5);
            }
            for e in o.follower.tbl.values_mut() {
                e.5 = rank_of_refresh_index(&known_idx, e.5);
            }
            looks_total += o.looks;
            n_bag_defects += o.bags.len();
            if let (Verdict::Ok, Some(d)) = (&verdict, o.bags.first()) {
                verdict = fail("table_keys_have_exactly_one_value", format!("capacity {}: the lifecycle table had a key (lifecycle id {}) with {} values when the consumer looked", r.cap, d.0, d.1));
            }
            let o_ids: Vec<u32> = o.fin.iter().map(|e| e.0).collect();
            thr_obs.push(restricted(&o.follower, &o_ids, &fin_ranks));
            if !matches!(verdict, Verdict::Ok) {
                continue;
            }
            let what = format!("capacity {}{}{}, looks {:?}, consumer pacing {:?}", r.cap, if r.mid { ", plugins stage in between" } else { "" }, if r.paced_producer { ", paced producer" } else { "" }, r.polls, r.cons);
            if o.hung {
                verdict = fail("terminates", format!("{}: threads still running after the timeout", what));
            } else if o.panicked {
                verdict = fail("no_stage_dies", format!("{}: a stage panicked", what));
            } else if o.delivered != (if r.mid { want.iter().copied().filter(|x| !mid_rejects(t).contains(x)).collect::<Vec<u32>>() } else { want.clone() }) {
                verdict = fail("same_sequence", format!("{}: delivered {:?}, the lifecycle stage alone forwards {:?}{}", what, o.delivered, want, if r.mid { format!(", of which the plugins stage has to reject {:?}", mid_rejects(t)) } else { String::new() }));
            } else if canon_fin(&o.fin) != canon_fin(&fin) {
                verdict = fail("same_final_table_and_results", format!("{}: final table {:?}, the stage alone ends with {:?}", what, o.fin, fin));
            } else {
                let (st, exx) = defects(&o.follower, &o.fin);
                if !st.is_empty() {
                    verdict = fail(
                        "incremental_follower_ends_with_final_table",
                        format!("{}: after {} looks and a last one after all threads had finished the consumer holds {:?}, the final table is {:?} (id, ecu, nr_msgs, start, end, refresh idx)", what, o.looks, o.follower.tbl.values().collect::<Vec<_>>(), o.fin),
                    );
                } else if !exx.is_empty() {
                    classes.push("follower_keeps_removed_lifecycle".to_string());
                    verdict = fail("incremental_follower_holds_only_final_lifecycles", format!("{}: the consumer holds {:?}, the final table is {:?}", what, o.follower.tbl.values().collect::<Vec<_>>(), o.fin));
                }
            }
        }
        let _ = looks_total;
        let pats_coq = clist(&pats.iter().map(|p| cnums(&p.iter().map(|b| *b as u8).collect::<Vec<_>>())).collect::<Vec<_>>());
        let runs_coq = clist(&runs.iter().map(|r| format!("({}, {})", r.cap, cnums(&r.sched))).collect::<Vec<_>>());
        let input_coq = format!("inr (inr (inr (inr (inl ({}, {}, {})))))", clist(&evs), pats_coq, runs_coq);
        Done { t: t.clone(), pats, runs, input_coq, obs: O::T(vec![O::T(det_obs), O::T(thr_obs), O::n(n_bag_defects as u64)]), verdict, classes, tags, states: ex.states }
    }

    fn rank_or0(ids: &[u32], id: u32) -> u64 {
        ids.binary_search(&id).map(|i| i as u64 + 1).unwrap_or(0)
    }

    pub fn push(sink: &mut Sink, d: Done) {
        let input_json = json!({"incr": true, "trace": d.t.json(), "pats": d.pats, "runs": d.runs.iter().map(|r| r.json()).collect::<Vec<_>>()});
        let key = input_json.to_string();
        let nontrivial = d.t.msgs.len() >= 3;
        let id = sink.next_id();
        sink.push(Case { id, input_coq: d.input_coq, input_json, obs: d.obs, verdict: d.verdict, classes: d.classes, tags: d.tags, nontrivial, key });
    }
}

fn corpus() -> Vec<Pipeline> {
    let s = 1_000_000u64;
    let full = vec![StageSpec::Lc, StageSpec::Plugins(3, vec![]), StageSpec::Sort(3, 100_000, false), StageSpec::Filter(vec![r#"{"type":1,"apid":"AP1"}"#.to_string()])];
    vec![
        // empty stream through everything
        Pipeline { msgs: vec![], stages: full.clone(), tail_from: None, stable_starts: false },
        // one message
        Pipeline { msgs: vec![(1, RHO, 10, 0)], stages: full.clone(), tail_from: None, stable_starts: false },
        // DESIGN Appendix A C07-1 (merge of a confirmed lifecycle): buffering + release in bursts
        Pipeline {
            msgs: vec![(1, RHO, 200000, 0), (2, RHO + s / 5, 0, 0), (1, RHO + s / 2, 0, 0), (1, RHO - s, 0, 0), (3, RHO + 60 * s + s / 10, 0, 0), (1, RHO - 5 * s, 0, 0)],
            stages: vec![StageSpec::Lc, StageSpec::Plugins(0, vec![0, 3, 0, 0, 2])],
            tail_from: None,
            stable_starts: false,
        },
        // two boots of one ecu, everything buffered until the end, live sort
        Pipeline {
            msgs: (0..20).map(|i| (1u8, RHO + i * 100_000 + if i >= 10 { 100 * s } else { 0 }, ((i % 10) * 1000 + 10) as u32, 0u8)).collect(),
            stages: vec![StageSpec::Lc, StageSpec::Plugins(2, vec![]), StageSpec::Sort(3, 1_000, true), StageSpec::Filter(vec![r#"{"type":0,"ecu":"EC01"}"#.to_string()])],
            tail_from: None,
            stable_starts: false,
        },
        // long tidy stream, no lifecycle stage
        Pipeline { msgs: (0..40).map(|i| (1 + (i % 2) as u8, RHO + i * 1000, (i * 10) as u32, 0u8)).collect(), stages: vec![StageSpec::Plugins(4, vec![1, 0, 0, 3]), StageSpec::Filter(vec![r#"{"type":0,"ecu":"EC01"}"#.to_string()])], tail_from: None, stable_starts: false },
        // live sort whose view of the lifecycle table depends on timing: lifecycle A is confirmed (and published with
        // start 0.5 s) at message 2, message 3 moves its start to 0.1 s, which is only published at the end;
        // messages 0 (A, 1.0 s or 0.6 s) and 1 (B, 0.85 s) swap their calculated order between the two values
        Pipeline {
            msgs: vec![(1, RHO + s, 5_000, 0), (2, RHO + s, 6_500, 0), (2, RHO + s + s / 5, 10_000, 0), (1, RHO + 80 * s, 795_000, 0), (1, RHO + 81 * s, 809_000, 0), (2, RHO + 81 * s + s / 10, 807_000, 0)],
            stages: vec![StageSpec::Lc, StageSpec::Sort(3, 2_000_000, true)],
            tail_from: None,
            stable_starts: false,
        },
        // a chain of two plugins, the first rejects messages 17 and 18 of 60: the other 58 arrive, in order
        Pipeline { msgs: (0..60).map(|i| (1 + (i % 2) as u8, RHO + i * 1000, (i * 10) as u32, 0u8)).collect(), stages: vec![StageSpec::Chain(vec![Plug::Reject(vec![17, 18]), Plug::Mark], vec![])], tail_from: None, stable_starts: false },
        // the real FileTransfer plugin with keepFLDA:false: FLST at 9, FLDA at 10 and 11, FLFI at 12 of 40 messages, behind lifecycle detection
        Pipeline {
            msgs: (0..40).map(|i| (1u8, RHO + i * 500_000, (10_000 + i * 5_000) as u32, match i { 9 => 3u8, 10 | 11 => 4, 12 => 5, _ => 0 })).collect(),
            stages: vec![StageSpec::Lc, StageSpec::Chain(vec![Plug::Ft(false, false)], vec![])],
            tail_from: None,
            stable_starts: false,
        },
        // the very first message is rejected by the last of three plugins; two plugins stages in a row; a filter behind
        Pipeline {
            msgs: (0..16).map(|i| (1 + (i % 3) as u8, RHO + i * 1000, (i * 10) as u32, if i % 5 == 4 { 2u8 } else { 0 })).collect(),
            stages: vec![StageSpec::Chain(vec![Plug::Mark, Plug::Mark, Plug::Reject(vec![0])], vec![0, 2]), StageSpec::Chain(vec![Plug::Reject(vec![1, 2, 15])], vec![]), StageSpec::Filter(vec![r#"{"type":1,"ecu":"EC02"}"#.to_string()])],
            tail_from: None,
            stable_starts: false,
        },
        // a data package without its FLST (recovered transfer), a package of another application, one that only looks like one
        Pipeline {
            msgs: vec![(1, RHO, 10, 0), (1, RHO + 1000, 20, 4), (1, RHO + 2000, 30, 6), (1, RHO + 3000, 40, 7), (1, RHO + 4000, 50, 8), (1, RHO + 5000, 60, 4), (1, RHO + 6000, 70, 5), (1, RHO + 7000, 80, 0)],
            stages: vec![StageSpec::Chain(vec![Plug::Ft(false, true), Plug::Mark], vec![]), StageSpec::Sort(1, 0, false)],
            tail_from: None,
            stable_starts: false,
        },
        // filter that passes nothing behind a sort
        Pipeline { msgs: (0..12).map(|i| (1u8, RHO + (12 - i) * 1000, (i * 10) as u32, 0u8)).collect(), stages: vec![StageSpec::Sort(1, 0, false), StageSpec::Filter(vec![r#"{"type":0,"ecu":"EC09"}"#.to_string()])], tail_from: None, stable_starts: false },
    ]
}

fn main() {
    let a = parse_args();
    std::panic::set_hook(Box::new(|_| {}));
    let mut sink = Sink::new("C13", &a.out);
    sink.shard_size = 25;
    let hang = Duration::from_secs(20);

    if let Some(f) = &a.replay {
        let v = read_replay(f);
        if v["case"]["remote"].as_bool() == Some(true) {
            let c = remote::RemoteCase::from_json(&v["case"]);
            let dir = tempfile::tempdir().unwrap();
            match remote::Server::start(&c.delay) {
                Some(srv) => remote::push(&mut sink, remote::run_remote(srv.port, &c, dir.path(), 0)),
                None => panic!("VERIF_ADLT_BIN not available"),
            }
            sink.finish();
            return;
        }
        if v["case"]["incr"].as_bool() == Some(true) {
            let t = incr::Trace::from_json(&v["case"]["trace"]);
            let pats: Vec<Vec<bool>> = serde_json::from_value(v["case"]["pats"].clone()).unwrap();
            let runs: Vec<incr::Run> = v["case"]["runs"].as_array().unwrap().iter().map(incr::Run::from_json).collect();
            let mut rng = Rng::new(a.seed);
            incr::push(&mut sink, incr::case(&t, Some(pats), runs, &mut rng, hang));
            sink.finish();
            return;
        }
        if v["case"]["shared"].as_bool() == Some(true) {
            let msgs: Vec<MsgSpec> = serde_json::from_value(v["case"]["msgs"].clone()).unwrap();
            let runs: Vec<(usize, u8, Vec<u64>)> = serde_json::from_value(v["case"]["runs"].clone()).unwrap();
            push_shared(&mut sink, shared_case(&msgs, runs, "replay", hang));
            sink.finish();
            return;
        }
        if v["case"]["loss"].as_bool() == Some(true) {
            let (sc, ks) = loss_from_json(&v["case"]);
            push_loss(&mut sink, loss_case(&sc, Some(ks)));
            sink.finish();
            return;
        }
        let (p, s) = case_from_json(&v["case"]);
        let r = run_real(&p, &reference_script(&p), hang);
        let d = run_case(&p, &s, &r, hang);
        push(&mut sink, d);
        sink.finish();
        return;
    }

    let (npipes, nvec, max_msgs) = match a.tier.as_str() {
        "quick" => (a.count.unwrap_or(60), 5usize, 40u64),
        "search" => (a.count.unwrap_or(100), 5, 40),
        _ => (a.count.unwrap_or(1000), 8, 70),
    };
    let mut rng = Rng::new(a.seed);
    let mut pipes = corpus();
    for _ in 0..npipes {
        pipes.push(gen_pipeline(&mut rng, max_msgs));
    }
    let n_tail_pipes = match a.tier.as_str() {
        "quick" => 6,
        "search" => 10,
        _ => 60,
    };
    for i in 0..n_tail_pipes {
        pipes.push(gen_loss_pipeline(&mut rng, i, max_msgs));
    }
    let n_chain_pipes = match a.tier.as_str() {
        "quick" => 20,
        "search" => 30,
        _ => 200,
    };
    for i in 0..n_chain_pipes {
        pipes.push(gen_chain_pipeline(&mut rng, i, max_msgs));
    }
    let n_reader_pipes = match a.tier.as_str() {
        "quick" => 12,
        "search" => 18,
        _ => 120,
    };
    let readers: Vec<Pipeline> = (0..n_reader_pipes).map(|i| gen_reader_pipeline(&mut rng, i, max_msgs)).collect();
    // jobs: (pipeline, script seeds); the reference run is done by the worker once per pipeline
    let results: Arc<Mutex<Vec<(usize, usize, Done)>>> = Arc::new(Mutex::new(vec![]));
    let workers: usize = std::env::var("C13_WORKERS").ok().and_then(|s| s.parse().ok()).unwrap_or(10);
    let run_pool = |jobs: Vec<(usize, Pipeline, u64)>, delay_tag: Option<&'static str>| {
        let queue = Arc::new(Mutex::new(jobs));
        let mut ws = vec![];
        for _ in 0..workers {
            let queue = queue.clone();
            let results = results.clone();
            ws.push(std::thread::spawn(move || loop {
                let job = queue.lock().unwrap().pop();
                let (i, p, seed) = match job {
                    Some(j) => j,
                    None => break,
                };
                let mut rng = Rng::new(seed);
                let r = run_real(&p, &reference_script(&p), hang);
                for v in 0..nvec {
                    let s = gen_script(&mut rng, &p, v, r.delivered.len());
                    let mut d = run_case(&p, &s, &r, hang);
                    if let Some(t) = delay_tag {
                        d.tags.push(t.to_string());
                    }
                    results.lock().unwrap().push((i, v, d));
                }
            }));
        }
        for w in ws {
            let _ = w.join();
        }
    };
    let mut next = 0usize;
    let mut mk_jobs = |ps: Vec<Pipeline>, rng: &mut Rng| -> Vec<(usize, Pipeline, u64)> {
        let v: Vec<(usize, Pipeline, u64)> = ps.into_iter().map(|p| { next += 1; (next - 1, p, rng.next()) }).collect();
        v
    };
    let jobs = mk_jobs(pipes, &mut rng);
    run_pool(jobs, None);
    // the reader pipelines once more under the in-process schedule points of the lifecycle stage (process wide, hence in
    // phases of their own): the stage pauses before its final flush / before its final refresh while the stage behind it
    // looks the table up
    let third = (readers.len() + 2) / 3;
    let mut it = readers.into_iter();
    let g0: Vec<Pipeline> = it.by_ref().take(third).collect();
    let g1: Vec<Pipeline> = it.by_ref().take(third).collect();
    let g2: Vec<Pipeline> = it.collect();
    let jobs = mk_jobs(g0, &mut rng);
    run_pool(jobs, None);
    let pause = rng.range(15, 40);
    adlt::utils::verif_sched::set_delay("lc_before_final_flush", Some(pause));
    let jobs = mk_jobs(g1, &mut rng);
    run_pool(jobs, Some("sched_point_lc_before_final_flush"));
    adlt::utils::verif_sched::set_delay("lc_before_final_flush", None);
    adlt::utils::verif_sched::set_delay("lc_before_final_refresh", Some(pause));
    let jobs = mk_jobs(g2, &mut rng);
    run_pool(jobs, Some("sched_point_lc_before_final_refresh"));
    adlt::utils::verif_sched::set_delay("lc_before_final_refresh", None);
    let njobs = next;
    let mut res = std::mem::take(&mut *results.lock().unwrap());
    res.sort_by_key(|(i, v, _)| (*i, *v));
    let mut full_total = 0usize;
    let mut wall_max = 0u128;
    for (_, _, d) in res {
        full_total += d.full_hits;
        wall_max = wall_max.max(d.wall_ms);
        push(&mut sink, d);
    }
    // loss experiments: one stage, lock-step live producer, outflow failing after k deliveries, k swept
    let (n_lc, n_other) = match a.tier.as_str() {
        "quick" => (24usize, 18usize),
        "search" => (40, 30),
        _ => (240, 120),
    };
    let scs = gen_loss_scenarios(&mut rng, n_lc, n_other, max_msgs);
    let lq = Arc::new(Mutex::new(scs.into_iter().enumerate().collect::<Vec<_>>()));
    let lres: Arc<Mutex<Vec<(usize, LossDone)>>> = Arc::new(Mutex::new(vec![]));
    let mut ws = vec![];
    for _ in 0..workers.min(8) {
        let (lq, lres) = (lq.clone(), lres.clone());
        ws.push(std::thread::spawn(move || loop {
            let job = lq.lock().unwrap().pop();
            match job {
                Some((i, sc)) => {
                    let d = loss_case(&sc, None);
                    lres.lock().unwrap().push((i, d));
                }
                None => break,
            }
        }));
    }
    for w in ws {
        let _ = w.join();
    }
    let mut lr = std::mem::take(&mut *lres.lock().unwrap());
    lr.sort_by_key(|(i, _)| *i);
    let (mut loss_runs, mut calm_max) = (0usize, 0usize);
    let n_loss = lr.len();
    for (_, d) in lr {
        loss_runs += d.runs;
        calm_max = calm_max.max(d.calm_after_tail);
        push_loss(&mut sink, d);
    }
    // readers of the shared lifecycle table: side condition on the real stage + threaded look-ups per capacity
    let n_shared = match a.tier.as_str() {
        "quick" => 10usize,
        "search" => 16,
        _ => 100,
    };
    let mut sjobs = vec![];
    for i in 0..n_shared {
        let (msgs, fam) = match i % 5 {
            1 => (gen_resume_untag(&mut rng), "resume_untag"),
            0 | 2 => (gen_double_reboot_end(&mut rng, max_msgs, i % 2 == 0), "double_reboot_end"),
            3 => (from_lcgen(lcgen::gen_scenario(&mut rng)).into_iter().take(max_msgs as usize + 20).collect(), "lcgen_scenario"),
            _ => (from_lcgen(lcgen::gen_merge_template(&mut rng)), "lcgen_merge"),
        };
        let runs = gen_shared_runs(&mut rng);
        sjobs.push((i, msgs, fam, runs));
    }
    let sres: Arc<Mutex<Vec<(usize, SharedDone)>>> = Arc::new(Mutex::new(vec![]));
    let half = sjobs.len() / 2;
    let second: Vec<_> = sjobs.split_off(half);
    for (phase, part) in [sjobs, second].into_iter().enumerate() {
        if phase == 1 {
            // the lifecycle stage pauses before its final flush and before its final refresh
            adlt::utils::verif_sched::set_delay("lc_before_final_flush", Some(20));
            adlt::utils::verif_sched::set_delay("lc_before_final_refresh", Some(20));
        }
        let sq = Arc::new(Mutex::new(part));
        let mut ws = vec![];
        for _ in 0..workers.min(8) {
            let (sq, sres) = (sq.clone(), sres.clone());
            ws.push(std::thread::spawn(move || loop {
                let job = sq.lock().unwrap().pop();
                match job {
                    Some((i, msgs, fam, runs)) => {
                        let mut d = shared_case(&msgs, runs, fam, hang);
                        if phase == 1 {
                            d.tags.push("sched_points_lc_final_flush_and_refresh".into());
                        }
                        sres.lock().unwrap().push((i, d));
                    }
                    None => break,
                }
            }));
        }
        for w in ws {
            let _ = w.join();
        }
    }
    adlt::utils::verif_sched::set_delay("lc_before_final_flush", None);
    adlt::utils::verif_sched::set_delay("lc_before_final_refresh", None);
    let mut sr = std::mem::take(&mut *sres.lock().unwrap());
    sr.sort_by_key(|(i, _)| *i);
    let n_shared_done = sr.len();
    for (_, d) in sr {
        push_shared(&mut sink, d);
    }
    // incremental followers of the lifecycle table (refresh index protocol of remote.rs) at library level
    let n_incr = match a.tier.as_str() {
        "quick" => 48usize,
        "search" => 80,
        _ => 480,
    };
    let mut ijobs = vec![];
    let icorpus = incr::corpus();
    let n_icorpus = icorpus.len();
    for (i, t) in icorpus.into_iter().enumerate() {
        let runs = incr::gen_runs(&mut rng);
        ijobs.push((i, t, runs, rng.next()));
    }
    for i in n_icorpus..n_icorpus + n_incr {
        let t = incr::gen_trace(&mut rng, i, max_msgs);
        let runs = incr::gen_runs(&mut rng);
        ijobs.push((i, t, runs, rng.next()));
    }
    let iq = Arc::new(Mutex::new(ijobs));
    let ires: Arc<Mutex<Vec<(usize, incr::Done)>>> = Arc::new(Mutex::new(vec![]));
    let mut ws = vec![];
    for _ in 0..workers.min(8) {
        let (iq, ires) = (iq.clone(), ires.clone());
        ws.push(std::thread::spawn(move || loop {
            let job = iq.lock().unwrap().pop();
            match job {
                Some((i, t, runs, seed)) => {
                    let mut rng = Rng::new(seed);
                    let d = incr::case(&t, None, runs, &mut rng, hang);
                    ires.lock().unwrap().push((i, d));
                }
                None => break,
            }
        }));
    }
    for w in ws {
        let _ = w.join();
    }
    let mut ir = std::mem::take(&mut *ires.lock().unwrap());
    ir.sort_by_key(|(i, _)| *i);
    let n_incr_done = ir.len();
    let incr_states_max = ir.iter().map(|x| x.1.states).max().unwrap_or(0);
    for (_, d) in ir {
        incr::push(&mut sink, d);
    }
    sink.extra_stats.insert("incremental_follower_cases".into(), json!(n_incr_done));
    sink.extra_stats.insert("incremental_follower_states_explored_max".into(), json!(incr_states_max));
    // remote wiring: one server per delay setting, its sessions one after the other; the settings in parallel
    let (n_settings, per_setting) = match a.tier.as_str() {
        "quick" => (8usize, 5usize),
        "search" => (8, 6),
        _ => (16, 12),
    };
    let mut n_remote = 0usize;
    if remote::adlt_bin().is_none() && std::env::var("C13_NO_REMOTE").is_err() {
        panic!("VERIF_ADLT_BIN is not set / does not exist: the remote wiring family cannot run (set C13_NO_REMOTE=1 to skip it in a manual run)");
    }
    if remote::adlt_bin().is_some() {
        let settings = remote::gen_settings(&mut rng, n_settings);
        let mut groups = vec![];
        for (gi, st) in settings.iter().enumerate() {
            let cases: Vec<remote::RemoteCase> = (0..per_setting).map(|i| remote::gen_case(&mut rng, i, st, max_msgs)).collect();
            groups.push((gi, st.clone(), cases));
        }
        let gq = Arc::new(Mutex::new(groups));
        let rres: Arc<Mutex<Vec<(usize, usize, remote::RemoteDone)>>> = Arc::new(Mutex::new(vec![]));
        let mut ws = vec![];
        for _ in 0..n_settings.min(8) {
            let (gq, rres) = (gq.clone(), rres.clone());
            ws.push(std::thread::spawn(move || loop {
                let job = gq.lock().unwrap().pop();
                match job {
                    Some((gi, st, cases)) => {
                        let dir = tempfile::tempdir().unwrap();
                        if let Some(srv) = remote::Server::start(&st) {
                            for (i, c) in cases.iter().enumerate() {
                                let d = remote::run_remote(srv.port, c, dir.path(), (gi * 1000 + i) as u64);
                                rres.lock().unwrap().push((gi, i, d));
                            }
                        }
                    }
                    None => break,
                }
            }));
        }
        for w in ws {
            let _ = w.join();
        }
        let mut rr = std::mem::take(&mut *rres.lock().unwrap());
        rr.sort_by_key(|(g, i, _)| (*g, *i));
        n_remote = rr.len();
        assert_eq!(n_remote, n_settings * per_setting, "an adlt remote server could not be started");
        let slowest = rr.iter().map(|x| x.2.wall_ms).max().unwrap_or(0);
        for (_, _, d) in rr {
            remote::push(&mut sink, d);
        }
        sink.extra_stats.insert("remote_slowest_session_ms".into(), json!(slowest as u64));
    }
    sink.extra_stats.insert("remote_sessions".into(), json!(n_remote));
    sink.extra_stats.insert("shared_table_cases".into(), json!(n_shared_done));
    sink.extra_stats.insert("loss_scenarios".into(), json!(n_loss));
    sink.extra_stats.insert("loss_runs_of_a_real_stage".into(), json!(loss_runs));
    sink.extra_stats.insert("loss_tail_messages_until_all_direct_max".into(), json!(calm_max));
    sink.extra_stats.insert("pipelines".into(), json!(njobs));
    sink.extra_stats.insert("capacity_vectors_per_pipeline".into(), json!(nvec));
    sink.extra_stats.insert("sends_through_full_branch_of_helper".into(), json!(full_total));
    sink.extra_stats.insert("slowest_run_ms".into(), json!(wall_max as u64));
    sink.finish();
}

fn push(sink: &mut Sink, d: Done) {
    let input_json = case_json(&d.p, &d.s);
    let key = input_json.to_string();
    let nontrivial = d.p.stages.len() >= 2 && d.p.msgs.len() >= 3 && d.s.caps.iter().any(|c| *c <= 2);
    let id = sink.next_id();
    sink.push(Case { id, input_coq: d.input_coq, input_json, obs: d.obs, verdict: d.verdict, classes: vec![], tags: d.tags, nontrivial, key });
}
