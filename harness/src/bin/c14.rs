//! scratch experiment (to be replaced): does the heap merge depend on the source order when later messages tie?
use adlt::dlt::DltMessage;
use adlt::utils::sorting_multi_readeriterator::SortingMultiReaderIterator;
use vharness::*;

fn run(its: &[Vec<u64>], order: &[usize]) -> Vec<(usize, usize)> {
    let b: Vec<Box<dyn Iterator<Item = DltMessage>>> = order
        .iter()
        .map(|&s| {
            let v: Vec<DltMessage> = its[s]
                .iter()
                .enumerate()
                .map(|(p, rt)| {
                    let mut m = dltgen::plain_msg(0, s as u8, *rt, p as u32);
                    m.lifecycle = s as u32;
                    m
                })
                .collect();
            Box::new(v.into_iter()) as Box<dyn Iterator<Item = DltMessage>>
        })
        .collect();
    SortingMultiReaderIterator::new(0, b).map(|m| (m.lifecycle as usize, m.timestamp_dms as usize)).collect()
}

fn main() {
    let mut rng = Rng::new(1);
    let mut found = 0;
    for _ in 0..200000 {
        let n = 4usize;
        let mut its = vec![];
        for s in 0..n {
            let len = rng.range(1, 2);
            let mut t = 100 + s as u64; // distinct first times
            let mut v = vec![t];
            for _ in 1..len {
                t = 200 + rng.below(3);
                v.push(t);
            }
            v.sort();
            its.push(v);
        }
        let id: Vec<usize> = (0..n).collect();
        let mut rev = id.clone();
        for i in (1..rev.len()).rev() { let j = rng.below(i as u64 + 1) as usize; rev.swap(i, j); }
        let a = run(&its, &id);
        let b = run(&its, &rev);
        if a != b {
            println!("{:?}\n  {:?}\n  {:?}", its, a, b);
            found += 1;
            if found > 3 {
                break;
            }
        }
    }
    println!("found {}", found);
}
