//! C14 — `adlt convert` (binary of the working tree, path in VERIF_ADLT_BIN) vs Convert/Select.v
//!
//! One case = one invocation of `adlt convert` on generated DLT files.  A scenario = a clean-boot trace of a few
//! ECUs (ground truth: every message knows its ECU, boot, APID, CTID) distributed over several files (same /
//! different / overlapping ECU sets, consecutive or overlapping in time, garbage between the messages, empty,
//! garbage-only and missing files, the same file named twice / under another spelling of its path).
//! Observation of one invocation:
//!   T [L status; T baseline; T screen; T file; T listing]
//!   baseline = uids in the order of `adlt convert -s <same file arguments>` (the unfiltered input as the tool
//!              numbers it; a second process, same arguments),
//!   screen   = (index, uid) of every stdout message line, file = uids re-read from the -o file with the library's
//!              DltMessageIterator (T [] if no -o), listing = (id, ecu, nr_msgs) rows of the lifecycle listing
//!              (printed when no style is given), sorted by id.
//! Oracle = the property text: the emitted messages are exactly the baseline messages satisfying window (on the
//! baseline index), lifecycle selection (ground truth boots; ids = rank of first appearance in the baseline) and
//! the filter set (literal criteria evaluated here), each once, in baseline order (as a set with --sort); the -o
//! file re-reads to exactly those messages, field by field; the baseline contains every message of every named
//! file exactly once and keeps the order inside each file; naming the files in another order gives the same
//! baseline when the files' first messages have distinct reception times.
use adlt::dlt::{DltChar4, DltExtendedHeader, DltMessage, DltStandardHeader};
use adlt::utils::DltMessageIterator;
use std::collections::{BTreeMap, BTreeSet, HashMap};
use std::io::Write as _;
use std::path::{Path, PathBuf};
use std::process::{Command, Stdio};
use std::sync::{Arc, Mutex};
use std::time::{Duration, Instant};
use vharness::*;

const RHO: u64 = 1_600_000_000_000_000; // us
const SCAN: usize = 512 * 1024;

// ------------------------------------------------------------------ ids
fn ecu_id(n: u8) -> [u8; 4] {
    [b'E', b'C', b'0' + (n / 10) % 10, b'0' + n % 10]
}
/// application / context ids: 0 = four zero bytes (only in filters), 1,2 = four characters, 3 = two characters,
/// 4 = four characters sharing only the tail with 2 (so that `.*02`, `^AP`, `[AB]P0.` ... tell them apart)
fn apid_id(n: u8) -> [u8; 4] {
    match n {
        0 => [0; 4],
        3 => [b'A', b'3', 0, 0],
        4 => *b"BP02",
        _ => [b'A', b'P', b'0', b'0' + n],
    }
}
fn ctid_id(n: u8) -> [u8; 4] {
    match n {
        0 => [0; 4],
        3 => [b'C', b'3', 0, 0],
        4 => *b"DT02",
        _ => [b'C', b'T', b'0', b'0' + n],
    }
}
const NIDS: u64 = 4; // application / context ids 1..=NIDS occur in generated messages
fn id_str(b: &[u8; 4]) -> String {
    b.iter().take_while(|c| **c != 0).map(|c| *c as char).collect()
}

// ------------------------------------------------------------------ scenario
#[derive(Clone, Debug)]
struct M {
    ecu: u8,
    rt: u64,
    ts: u32, // 0.1 ms
    mcnt: u8,
    ext: bool,
    apid: u8,
    ctid: u8,
    boot: u32,
    fill: u32,
    creq: bool,   // control request (needs ext)
    has_ts: bool, // standard header carries a timestamp
    lvl: u8,      // log level (MTIN) of a log message, 1..=6
    ft: u8,       // file-transfer message (verbose, log info, needs ext): 0 no, 1 FLST, 2 FLDA, 3 FLFI; `fill` = serial / package size
}
impl M {
    fn json(&self) -> Value {
        json!([self.ecu, self.rt, self.ts, self.mcnt, self.ext, self.apid, self.ctid, self.boot, self.fill, self.creq, self.has_ts, self.lvl, self.ft])
    }
    fn from_json(v: &Value) -> M {
        M {
            ecu: v[0].as_u64().unwrap() as u8,
            rt: v[1].as_u64().unwrap(),
            ts: v[2].as_u64().unwrap() as u32,
            mcnt: v[3].as_u64().unwrap() as u8,
            ext: v[4].as_bool().unwrap(),
            apid: v[5].as_u64().unwrap() as u8,
            ctid: v[6].as_u64().unwrap() as u8,
            boot: v[7].as_u64().unwrap() as u32,
            fill: v[8].as_u64().unwrap() as u32,
            creq: v[9].as_bool().unwrap_or(false),
            has_ts: v[10].as_bool().unwrap_or(true),
            lvl: v[11].as_u64().unwrap_or(4) as u8,
            ft: v[12].as_u64().unwrap_or(0) as u8,
        }
    }
    /// MSTP/MTIN byte of the extended header: control request, or a non-verbose log message of level `lvl`
    fn vmm(&self) -> u8 {
        if self.ft != 0 {
            0x41 // verbose, log, info
        } else if self.creq {
            (3 << 1) | (1 << 4)
        } else {
            self.lvl << 4
        }
    }
    fn build(&self, uid: u32) -> DltMessage {
        let mut payload = vec![];
        let mut noar = 0;
        if self.ft != 0 {
            // the messages of a file transfer as dlt-daemon's filetransfer library logs them (verbose arguments, little
            // endian): FLST serial name size date packages buffersize FLST / FLDA serial package data FLDA / FLFI serial FLFI;
            // serial = fill / 8, package number and size from fill % 8
            let s = |p: &mut Vec<u8>, t: &str| {
                p.extend_from_slice(&0x200u32.to_le_bytes());
                p.extend_from_slice(&(t.len() as u16 + 1).to_le_bytes());
                p.extend_from_slice(t.as_bytes());
                p.push(0);
            };
            let u = |p: &mut Vec<u8>, v: u32| {
                p.extend_from_slice(&0x43u32.to_le_bytes());
                p.extend_from_slice(&v.to_le_bytes());
            };
            let (serial, k) = (self.fill / 8, self.fill % 8);
            match self.ft {
                1 => {
                    s(&mut payload, "FLST");
                    u(&mut payload, serial);
                    s(&mut payload, &format!("f{}.bin", serial));
                    u(&mut payload, 4 * (k + 1));
                    s(&mut payload, "date");
                    u(&mut payload, k + 1);
                    payload.extend_from_slice(&0x42u32.to_le_bytes());
                    payload.extend_from_slice(&4u16.to_le_bytes());
                    s(&mut payload, "FLST");
                    noar = 8;
                }
                2 => {
                    s(&mut payload, "FLDA");
                    u(&mut payload, serial);
                    u(&mut payload, k + 1);
                    payload.extend_from_slice(&0x400u32.to_le_bytes());
                    payload.extend_from_slice(&4u16.to_le_bytes());
                    payload.extend_from_slice(&uid.to_le_bytes());
                    s(&mut payload, "FLDA");
                    noar = 5;
                }
                _ => {
                    s(&mut payload, "FLFI");
                    u(&mut payload, serial);
                    s(&mut payload, "FLFI");
                    noar = 3;
                }
            }
        } else {
            payload = uid.to_le_bytes().to_vec();
            payload.extend(std::iter::repeat(0x55u8).take(self.fill as usize));
        }
        let ext = if self.ext {
            Some(DltExtendedHeader { verb_mstp_mtin: self.vmm(), noar, apid: DltChar4::from_buf(&apid_id(self.apid)), ctid: DltChar4::from_buf(&ctid_id(self.ctid)) })
        } else {
            None
        };
        DltMessage {
            index: 0,
            reception_time_us: self.rt,
            ecu: DltChar4::from_buf(&ecu_id(self.ecu)),
            timestamp_dms: if self.has_ts { self.ts } else { 0 },
            standard_header: DltStandardHeader { htyp: 0x20 | if self.has_ts { 0x10 } else { 0 } | if self.ext { 1 } else { 0 }, len: 0, mcnt: self.mcnt },
            extended_header: ext,
            payload,
            payload_text: None,
            lifecycle: 0,
        }
    }
}
#[derive(Clone, Debug)]
struct FileSpec {
    msgs: Vec<u32>,         // uids
    garbage: Vec<Vec<u8>>,  // msgs.len() + 1 runs: before each message and at the end
    missing: bool,          // never created
    pad: u32,               // number of garbage bytes in front of everything (structural: may exceed the scanned 512 KiB)
    padk: u8,               // what they are: 0 blanks, 1 "DLT" repeated (marker prefixes), 2 "DLS"/"DLT"/NUL mix, 3.. pseudo-random bytes without 0x01
}
/// the `n` leading garbage bytes of kind `k` (no DLT\x01 / DLS\x01 marker inside, none completed by a following marker)
fn pad_bytes(n: usize, k: u8) -> Vec<u8> {
    match k {
        0 => vec![0x20u8; n],
        1 => (0..n).map(|i| b"DLT"[i % 3]).collect(),
        2 => (0..n).map(|i| b"DLS\0DLT\0D"[i % 9]).collect(),
        _ => {
            let mut r = Rng::new(0xc14 + k as u64);
            (0..n).map(|_| { let b = r.next() as u8; if b == 1 { 2 } else { b } }).collect()
        }
    }
}
#[derive(Clone, Debug)]
struct Scn {
    msgs: Vec<M>, // uid = position
    files: Vec<FileSpec>,
}
impl Scn {
    fn json(&self) -> Value {
        json!({"msgs": self.msgs.iter().map(|m| m.json()).collect::<Vec<_>>(),
               "files": self.files.iter().map(|f| json!({"msgs": f.msgs, "garbage": f.garbage, "missing": f.missing, "pad": f.pad, "padk": f.padk})).collect::<Vec<_>>()})
    }
    fn from_json(v: &Value) -> Scn {
        Scn {
            msgs: v["msgs"].as_array().unwrap().iter().map(M::from_json).collect(),
            files: v["files"]
                .as_array()
                .unwrap()
                .iter()
                .map(|f| FileSpec {
                    msgs: serde_json::from_value(f["msgs"].clone()).unwrap(),
                    garbage: serde_json::from_value(f["garbage"].clone()).unwrap(),
                    missing: f["missing"].as_bool().unwrap(),
                    pad: f["pad"].as_u64().unwrap_or(0) as u32,
                    padk: f["padk"].as_u64().unwrap_or(0) as u8,
                })
                .collect(),
        }
    }
    fn file_bytes(&self, k: usize) -> (Vec<u8>, usize) {
        // bytes and the number of messages that end within the first SCAN bytes
        let f = &self.files[k];
        let mut out = pad_bytes(f.pad as usize, f.padk);
        let mut scan = 0;
        for (i, uid) in f.msgs.iter().enumerate() {
            out.extend_from_slice(&f.garbage[i]);
            self.msgs[*uid as usize].build(*uid).to_write(&mut out).unwrap();
            if out.len() <= SCAN {
                scan = i + 1;
            }
        }
        out.extend_from_slice(&f.garbage[f.msgs.len()]);
        (out, scan)
    }
    fn write_files(&self, dir: &Path) {
        std::fs::create_dir_all(dir).unwrap();
        for k in 0..self.files.len() {
            if !self.files[k].missing {
                std::fs::write(dir.join(format!("f{}.dlt", k)), self.file_bytes(k).0).unwrap();
            }
        }
    }
    fn first_rt(&self, k: usize) -> Option<u64> {
        let f = &self.files[k];
        if f.missing || self.file_bytes(k).1 == 0 {
            None
        } else {
            Some(self.msgs[f.msgs[0] as usize].rt)
        }
    }
}

// ------------------------------------------------------------------ id criteria: literal or regular expression
/// One ECU / APID / CTID criterion as the user writes it.  `flag`: the DLF element `enableregexp_Appid` /
/// `enableregexp_Context` (None: element absent); `--eac` parts and dlt-convert format files have no such flag.
#[derive(Clone, Debug, PartialEq)]
struct Crit {
    text: String,
    flag: Option<bool>,
}
/// where a filter comes from: decides how its id criteria are read
#[derive(Clone, Copy, Debug, PartialEq)]
enum Front {
    Dlf,
    Conv,
    Eac,
}
#[derive(Clone, Copy, Debug, PartialEq)]
enum IdKind {
    Ecu,
    Apid,
    Ctid,
}
/// the characters that make an id expression a regular expression (help text of --eac: "Entries can contain regex chars")
fn has_regex_chars(s: &str) -> bool {
    s.bytes().any(|c| b"^$*+?()[]{}|.-\\=!<>,".contains(&c))
}
/// a literal id is its first four bytes, padded with NUL
fn lit4(s: &str) -> [u8; 4] {
    let mut out = [0u8; 4];
    for (i, b) in s.bytes().take(4).enumerate() {
        out[i] = b;
    }
    out
}
impl Crit {
    fn lit(s: &str) -> Crit {
        Crit { text: s.to_string(), flag: None }
    }
    fn json(&self) -> Value {
        json!([self.text, self.flag])
    }
    fn from_json(v: &Value) -> Option<Crit> {
        if v.is_null() {
            return None;
        }
        Some(Crit { text: v[0].as_str().unwrap().to_string(), flag: v[1].as_bool() })
    }
    /// is the criterion a regular expression?  dlt-convert format: never; DLF: never for the ECU (dlt-viewer has no
    /// regex for it), else what the flag says, without flag by the characters; --eac: by the characters
    fn is_regex(&self, front: Front, kind: IdKind) -> bool {
        match front {
            Front::Conv => false,
            Front::Dlf if kind == IdKind::Ecu => false,
            Front::Dlf => self.flag.unwrap_or_else(|| has_regex_chars(&self.text)),
            Front::Eac => has_regex_chars(&self.text),
        }
    }
    /// ground truth (no regex crate involved): does the criterion hold for this id (the four bytes of the message)?
    fn holds(&self, front: Front, kind: IdKind, id: &[u8; 4]) -> bool {
        if self.is_regex(front, kind) {
            re_search(&self.text, id)
        } else {
            &lit4(&self.text) == id
        }
    }
}

// ---- a small regular-expression matcher of its own (the oracle must not ask the engine the code uses)
#[derive(Clone, Debug)]
enum Re {
    Byte(u8),
    Any,
    Class(Vec<(u8, u8)>, bool),
    Bol,
    Eol,
    Cat(Vec<Re>),
    Alt(Vec<Re>),
    Rep(Box<Re>, usize, Option<usize>),
}
struct ReParser<'a> {
    s: &'a [u8],
    i: usize,
}
impl<'a> ReParser<'a> {
    fn peek(&self) -> Option<u8> {
        self.s.get(self.i).cloned()
    }
    fn alt(&mut self) -> Option<Re> {
        let mut v = vec![self.cat()?];
        while self.peek() == Some(b'|') {
            self.i += 1;
            v.push(self.cat()?);
        }
        Some(if v.len() == 1 { v.pop().unwrap() } else { Re::Alt(v) })
    }
    fn cat(&mut self) -> Option<Re> {
        let mut v = vec![];
        while let Some(c) = self.peek() {
            if c == b'|' || c == b')' {
                break;
            }
            let a = self.atom()?;
            let a = match self.peek() {
                Some(b'*') => {
                    self.i += 1;
                    Re::Rep(Box::new(a), 0, None)
                }
                Some(b'+') => {
                    self.i += 1;
                    Re::Rep(Box::new(a), 1, None)
                }
                Some(b'?') => {
                    self.i += 1;
                    Re::Rep(Box::new(a), 0, Some(1))
                }
                _ => a,
            };
            v.push(a);
        }
        Some(Re::Cat(v))
    }
    fn atom(&mut self) -> Option<Re> {
        let c = self.peek()?;
        self.i += 1;
        match c {
            b'(' => {
                let r = self.alt()?;
                if self.peek() != Some(b')') {
                    return None;
                }
                self.i += 1;
                Some(r)
            }
            b'[' => {
                let neg = self.peek() == Some(b'^');
                if neg {
                    self.i += 1;
                }
                let mut rs = vec![];
                loop {
                    let a = self.peek()?;
                    self.i += 1;
                    if a == b']' {
                        break;
                    }
                    if a == b'\\' || a == b'[' {
                        return None;
                    }
                    if self.peek() == Some(b'-') && self.s.get(self.i + 1).map_or(false, |x| *x != b']') {
                        let b = self.s[self.i + 1];
                        self.i += 2;
                        rs.push((a, b));
                    } else {
                        rs.push((a, a));
                    }
                }
                if rs.is_empty() {
                    return None;
                }
                Some(Re::Class(rs, neg))
            }
            b'.' => Some(Re::Any),
            b'^' => Some(Re::Bol),
            b'$' => Some(Re::Eol),
            b'*' | b'+' | b'?' | b'{' | b'}' | b')' | b'|' | b'\\' => None,
            c if c < 0x80 => Some(Re::Byte(c)),
            _ => None,
        }
    }
}
fn re_parse(s: &str) -> Option<Re> {
    let mut p = ReParser { s: s.as_bytes(), i: 0 };
    let r = p.alt()?;
    if p.i == s.len() {
        Some(r)
    } else {
        None
    }
}
/// can `re` match `s` from position `i` so that the continuation accepts the end position?
fn re_m(re: &Re, s: &[u8], i: usize, k: &dyn Fn(usize) -> bool) -> bool {
    match re {
        Re::Byte(b) => i < s.len() && s[i] == *b && k(i + 1),
        Re::Any => i < s.len() && s[i] != b'\n' && k(i + 1),
        Re::Class(rs, neg) => i < s.len() && (rs.iter().any(|(a, b)| *a <= s[i] && s[i] <= *b) != *neg) && k(i + 1),
        Re::Bol => i == 0 && k(i),
        Re::Eol => i == s.len() && k(i),
        Re::Cat(v) => re_cat(v, s, i, k),
        Re::Alt(v) => v.iter().any(|r| re_m(r, s, i, k)),
        Re::Rep(r, min, max) => re_rep(r, *min, *max, s, i, k),
    }
}
fn re_cat(v: &[Re], s: &[u8], i: usize, k: &dyn Fn(usize) -> bool) -> bool {
    match v.split_first() {
        None => k(i),
        Some((a, rest)) => re_m(a, s, i, &|j| re_cat(rest, s, j, k)),
    }
}
fn re_rep(r: &Re, min: usize, max: Option<usize>, s: &[u8], i: usize, k: &dyn Fn(usize) -> bool) -> bool {
    if min == 0 && k(i) {
        return true;
    }
    if max == Some(0) {
        return false;
    }
    re_m(r, s, i, &|j| j > i && re_rep(r, min.saturating_sub(1), max.map(|m| m - 1), s, j, k))
}
/// unanchored search over the bytes of an id (what "the expression matches the id" means)
fn re_search(text: &str, hay: &[u8]) -> bool {
    let re = re_parse(text).unwrap_or_else(|| panic!("generator produced an expression outside the oracle's grammar: {:?}", text));
    (0..=hay.len()).any(|i| re_m(&re, hay, i, &|_| true))
}

// ------------------------------------------------------------------ options
#[derive(Clone, Debug, PartialEq)]
struct Flt {
    kind: u8, // 0 positive, 1 negative, 2 marker
    enabled: bool,
    ecu: Option<Crit>,
    apid: Option<Crit>,
    ctid: Option<Crit>,
    ctrl: bool,       // DLF enablecontrolmsgs: control messages only
    lmin: Option<u8>, // DLF log level bounds
    lmax: Option<u8>,
}
impl Flt {
    fn new(kind: u8) -> Flt {
        Flt { kind, enabled: true, ecu: None, apid: None, ctid: None, ctrl: false, lmin: None, lmax: None }
    }
    fn ids(kind: u8, ecu: Option<&str>, apid: Option<&str>, ctid: Option<&str>) -> Flt {
        let mut f = Flt::new(kind);
        f.ecu = ecu.map(Crit::lit);
        f.apid = apid.map(Crit::lit);
        f.ctid = ctid.map(Crit::lit);
        f
    }
    fn json(&self) -> Value {
        json!({"kind": self.kind, "enabled": self.enabled, "ecu": self.ecu.as_ref().map(|c| c.json()), "apid": self.apid.as_ref().map(|c| c.json()),
               "ctid": self.ctid.as_ref().map(|c| c.json()), "ctrl": self.ctrl, "lmin": self.lmin, "lmax": self.lmax})
    }
    fn from_json(v: &Value) -> Flt {
        if v.is_array() {
            // replay files written before id criteria could be expressions: [kind, enabled, [ecu numbers], apid number, ctid number]
            let ecus: Vec<u8> = serde_json::from_value(v[2].clone()).unwrap();
            let mut f = Flt::new(v[0].as_u64().unwrap() as u8);
            f.enabled = v[1].as_bool().unwrap();
            if !ecus.is_empty() {
                f.ecu = Some(Crit::lit(&ecus.iter().map(|e| id_str(&ecu_id(*e))).collect::<Vec<_>>().join("|")));
            }
            f.apid = v[3].as_u64().map(|x| Crit::lit(&id_str(&apid_id(x as u8))));
            f.ctid = v[4].as_u64().map(|x| Crit::lit(&id_str(&ctid_id(x as u8))));
            return f;
        }
        Flt {
            kind: v["kind"].as_u64().unwrap() as u8,
            enabled: v["enabled"].as_bool().unwrap(),
            ecu: Crit::from_json(&v["ecu"]),
            apid: Crit::from_json(&v["apid"]),
            ctid: Crit::from_json(&v["ctid"]),
            ctrl: v["ctrl"].as_bool().unwrap_or(false),
            lmin: v["lmin"].as_u64().map(|x| x as u8),
            lmax: v["lmax"].as_u64().map(|x| x as u8),
        }
    }
    /// has a criterion that can only hold for a message with an extended header
    fn needs_ext(&self) -> bool {
        self.apid.is_some() || self.ctid.is_some() || self.ctrl || self.lmin.is_some() || self.lmax.is_some()
    }
    /// ground truth, stated on the criteria (independent of how `Filter::matches` is written): every given criterion
    /// holds; a message WITHOUT extended header has no APID, no CTID, no message type and no log level, so none of
    /// those criteria holds for it
    fn verdict(&self, front: Front, m: &M) -> bool {
        if let Some(c) = &self.ecu {
            if !c.holds(front, IdKind::Ecu, &ecu_id(m.ecu)) {
                return false;
            }
        }
        if self.needs_ext() && !m.ext {
            return false;
        }
        if let Some(c) = &self.apid {
            if !c.holds(front, IdKind::Apid, &apid_id(m.apid)) {
                return false;
            }
        }
        if let Some(c) = &self.ctid {
            if !c.holds(front, IdKind::Ctid, &ctid_id(m.ctid)) {
                return false;
            }
        }
        let (mstp, mtin) = ((m.vmm() >> 1) & 7, m.vmm() >> 4);
        if self.ctrl && mstp != 3 {
            return false;
        }
        if let Some(l) = self.lmin {
            if !(mstp == 0 && mtin >= l) {
                return false;
            }
        }
        if let Some(l) = self.lmax {
            if !(mstp == 0 && mtin <= l) {
                return false;
            }
        }
        true
    }
}
/// what the `-o` path holds before the run (the environment of the output side)
#[derive(Clone, Debug, PartialEq)]
enum Pre {
    Absent,
    Empty,
    /// arbitrary bytes: (length, seed)
    Junk(u32, u64),
    /// a valid DLT file of these messages of the scenario (any messages, any order), optionally followed by the
    /// first bytes of one more frame
    Dlt(Vec<u32>, bool),
    /// the output of a previous `adlt convert` run with these options on the same file arguments and the same path
    Prev(Box<Opts>),
}
impl Pre {
    fn json(&self) -> Value {
        match self {
            Pre::Absent => json!({"k": "absent"}),
            Pre::Empty => json!({"k": "empty"}),
            Pre::Junk(n, s) => json!({"k": "junk", "len": n, "seed": s}),
            Pre::Dlt(u, p) => json!({"k": "dlt", "uids": u, "partial": p}),
            Pre::Prev(o) => json!({"k": "prev", "opts": o.json()}),
        }
    }
    fn from_json(v: &Value) -> Pre {
        match v["k"].as_str().unwrap_or("absent") {
            "empty" => Pre::Empty,
            "junk" => Pre::Junk(v["len"].as_u64().unwrap() as u32, v["seed"].as_u64().unwrap()),
            "dlt" => Pre::Dlt(serde_json::from_value(v["uids"].clone()).unwrap(), v["partial"].as_bool().unwrap()),
            "prev" => Pre::Prev(Box::new(Opts::from_json(&v["opts"]))),
            _ => Pre::Absent,
        }
    }
    fn tag(&self) -> &'static str {
        match self {
            Pre::Absent => "out_path_absent",
            Pre::Empty => "out_path_empty",
            Pre::Junk(..) => "out_path_junk",
            Pre::Dlt(..) => "out_path_other_dlt",
            Pre::Prev(..) => "out_path_previous_run",
        }
    }
}
/// materialised prior content
#[derive(Clone, Debug)]
enum PreMat {
    Absent,
    Bytes(Vec<u8>),
    Prev(Box<Opts>, Box<PreMat>),
}
fn materialize(scn: &Scn, o: &Opts) -> PreMat {
    if !o.ofile {
        return PreMat::Absent;
    }
    match &o.pre {
        Pre::Absent => PreMat::Absent,
        Pre::Empty => PreMat::Bytes(vec![]),
        Pre::Junk(n, seed) => {
            let mut r = Rng::new(*seed);
            PreMat::Bytes((0..*n).map(|_| r.next() as u8).collect())
        }
        Pre::Dlt(uids, partial) => {
            let mut out = vec![];
            for u in uids {
                scn.msgs[*u as usize % scn.msgs.len().max(1)].build(*u % scn.msgs.len().max(1) as u32).to_write(&mut out).unwrap();
            }
            if *partial && !scn.msgs.is_empty() {
                let mut one = vec![];
                scn.msgs[0].build(0).to_write(&mut one).unwrap();
                out.extend_from_slice(&one[..one.len().min(21)]);
            }
            PreMat::Bytes(out)
        }
        Pre::Prev(p) => {
            let mut p2 = (**p).clone();
            p2.ofile = true;
            let inner = materialize(scn, &p2);
            PreMat::Prev(Box::new(p2), Box::new(inner))
        }
    }
}

/// `--file_transfer=<glob>` (+ `--file_transfer_apid/_ctid`): the file-transfer plugin sits between lifecycle detection
/// and the selection stages; the command line configures it to KEEP every message (keepFLDA = true), so the option
/// must not change which messages are emitted
#[derive(Clone, Debug, PartialEq)]
struct Ft {
    glob: String,
    apid: Option<String>,
    ctid: Option<String>,
}
#[derive(Clone, Debug, PartialEq)]
struct Opts {
    ft: Option<Ft>,
    b: Option<u32>,
    e: Option<u32>,
    lcs: Vec<u32>,
    ffmt: u8, // 0 no -f, 1 dlf, 2 dlt-convert format
    ffilters: Vec<Flt>,
    eac: Vec<Flt>,
    eac_style: u8, // how alternatives are spelled
    sort: bool,
    style: u8, // 0 none, 1 -a, 2 -x, 3 -s
    ofile: bool,
    pre: Pre, // prior content of the -o path (only meaningful with ofile)
}
impl Opts {
    fn none(style: u8) -> Opts {
        Opts { ft: None, b: None, e: None, lcs: vec![], ffmt: 0, ffilters: vec![], eac: vec![], eac_style: 0, sort: false, style, ofile: false, pre: Pre::Absent }
    }
    fn json(&self) -> Value {
        json!({"ft": self.ft.as_ref().map(|f| json!({"glob": f.glob, "apid": f.apid, "ctid": f.ctid})),
               "b": self.b, "e": self.e, "lcs": self.lcs, "ffmt": self.ffmt,
               "ffilters": self.ffilters.iter().map(|f| f.json()).collect::<Vec<_>>(),
               "eac": self.eac.iter().map(|f| f.json()).collect::<Vec<_>>(), "eac_style": self.eac_style,
               "sort": self.sort, "style": self.style, "ofile": self.ofile, "pre": self.pre.json()})
    }
    fn from_json(v: &Value) -> Opts {
        Opts {
            ft: if v["ft"].is_object() {
                Some(Ft { glob: v["ft"]["glob"].as_str().unwrap().to_string(), apid: v["ft"]["apid"].as_str().map(|x| x.to_string()), ctid: v["ft"]["ctid"].as_str().map(|x| x.to_string()) })
            } else {
                None
            },
            b: v["b"].as_u64().map(|x| x as u32),
            e: v["e"].as_u64().map(|x| x as u32),
            lcs: serde_json::from_value(v["lcs"].clone()).unwrap(),
            ffmt: v["ffmt"].as_u64().unwrap() as u8,
            ffilters: v["ffilters"].as_array().unwrap().iter().map(Flt::from_json).collect(),
            eac: v["eac"].as_array().unwrap().iter().map(Flt::from_json).collect(),
            eac_style: v["eac_style"].as_u64().unwrap() as u8,
            sort: v["sort"].as_bool().unwrap(),
            style: v["style"].as_u64().unwrap() as u8,
            ofile: v["ofile"].as_bool().unwrap(),
            pre: Pre::from_json(&v["pre"]),
        }
    }
    /// the filter vector convert builds: file filters, then the --eac filters (each with the front end it is read by)
    fn filters(&self) -> Vec<(Front, Flt)> {
        let front = if self.ffmt == 2 { Front::Conv } else { Front::Dlf };
        let mut v: Vec<(Front, Flt)> = if self.ffmt != 0 { self.ffilters.iter().map(|f| (front, f.clone())).collect() } else { vec![] };
        v.extend(self.eac.iter().map(|f| (Front::Eac, f.clone())));
        v
    }
    fn key(&self) -> String {
        self.json().to_string()
    }
}

/// the elements of one DLF <filter>, in document order
fn dlf_attrs(f: &Flt) -> Vec<(&'static str, String)> {
    let mut kv: Vec<(&'static str, String)> = vec![("type", f.kind.to_string()), ("enablefilter", (f.enabled as u8).to_string())];
    if let Some(e) = &f.ecu {
        kv.push(("enableecuid", "1".into()));
        kv.push(("ecuid", e.text.clone()));
    } else {
        kv.push(("enableecuid", "0".into()));
        kv.push(("ecuid", "EC01".into()));
    }
    if let Some(a) = &f.apid {
        kv.push(("enableapplicationid", "1".into()));
        kv.push(("applicationid", a.text.clone()));
        if let Some(fl) = a.flag {
            kv.push(("enableregexp_Appid", (fl as u8).to_string()));
        }
    }
    if let Some(c) = &f.ctid {
        // (the flag may come in front of the value: the elements are collected into a map)
        if let Some(fl) = c.flag {
            kv.push(("enableregexp_Context", (fl as u8).to_string()));
        }
        kv.push(("enablecontextid", "1".into()));
        kv.push(("contextid", c.text.clone()));
    }
    if f.ctrl {
        kv.push(("enablecontrolmsgs", "1".into()));
    }
    if let Some(l) = f.lmin {
        kv.push(("enableLogLevelMin", "1".into()));
        kv.push(("logLevelMin", l.to_string()));
    }
    if let Some(l) = f.lmax {
        kv.push(("enableLogLevelMax", "1".into()));
        kv.push(("logLevelMax", l.to_string()));
    }
    kv
}
/// number of a DLF element in the Coq model (Filter/Frontends.v dkey_idx)
fn dlf_key_idx(k: &str) -> u32 {
    const NAMES: [&str; 19] = [
        "type", "enablefilter", "enableecuid", "ecuid", "enableapplicationid", "applicationid", "enableregexp_Appid", "enablecontextid", "contextid",
        "enableregexp_Context", "enablecontrolmsgs", "enablepayloadtext", "ignoreCase_Payload", "payloadtext", "enableregexp_Payload", "enableLogLevelMax",
        "logLevelMax", "enableLogLevelMin", "logLevelMin",
    ];
    NAMES.iter().position(|n| *n == k).map_or(19, |i| i as u32)
}
fn dlf_text(fs: &[Flt], pretty: bool) -> String {
    let nl = if pretty { "\n  " } else { "" };
    let mut s = String::from("<?xml version=\"1.0\" encoding=\"UTF-8\"?>\n<dltfilter>");
    for f in fs {
        s.push_str(nl);
        s.push_str("<filter>");
        for (k, v) in dlf_attrs(f) {
            assert!(!v.contains(|c| c == '<' || c == '>' || c == '&'), "value needs XML escaping: {}", v);
            s.push_str(nl);
            s.push_str(&format!("<{}>{}</{}>", k, v, k));
        }
        s.push_str(nl);
        s.push_str("</filter>");
    }
    s.push_str(if pretty { "\n</dltfilter>\n" } else { "</dltfilter>" });
    s
}
fn conv_text(fs: &[Flt]) -> Vec<u8> {
    // "<apid> <ctid> " : 4 bytes each, filled with '-', one separator byte after each
    let mut out = vec![];
    for (i, f) in fs.iter().enumerate() {
        for (c, sep) in [(&f.apid, b' '), (&f.ctid, if i % 2 == 0 { b' ' } else { b'\n' })] {
            let t = c.as_ref().map_or("", |c| c.text.as_str());
            assert!(t.len() <= 4 && !t.contains('-'), "not a dlt-convert format id: {}", t);
            for k in 0..4 {
                out.push(*t.as_bytes().get(k).unwrap_or(&b'-'));
            }
            out.push(sep);
        }
    }
    out
}
/// one ECU:APID:CTID expression
fn eac_one(f: &Flt, style: u8) -> String {
    let part = |c: &Option<Crit>| c.as_ref().map_or(String::new(), |c| c.text.clone());
    let mut s = format!("{}:{}:{}", part(&f.ecu), part(&f.apid), part(&f.ctid));
    assert!(!s.contains(','), "',' separates --eac expressions: {}", s);
    if style != 2 {
        // trailing empty parts may be left out
        while s.ends_with(':') && s.len() > 1 {
            s.pop();
        }
    }
    s
}
fn eac_text(fs: &[Flt], style: u8) -> String {
    fs.iter().map(|f| eac_one(f, style)).collect::<Vec<_>>().join(",")
}

// ------------------------------------------------------------------ running the binary
#[derive(Clone, Debug, Default)]
struct RunOut {
    ok: bool, // exit status success
    timed_out: bool,
    lines: Vec<String>,
    stderr: String,
    ofile: Option<Vec<DltMessage>>,
    obytes: Option<Vec<u8>>,        // final content of the -o path
    prior: Option<Vec<DltMessage>>, // what the -o path re-read to just before the run (None: absent)
    prior_len: Option<usize>,
}

type ArgSpec = (usize, bool); // (file number, alternative spelling of the path)

/// one `adlt convert` process; returns (exit ok, timed out, stdout lines, stderr)
fn exec_adlt(scn_dir: &Path, inv_dir: &Path, args: &[ArgSpec], o: &Opts, opath: &Path, tag: &str) -> (bool, bool, Vec<String>, String) {
    let bin = std::env::var("VERIF_ADLT_BIN").expect("VERIF_ADLT_BIN");
    let mut cmd = Command::new(bin);
    cmd.arg("convert");
    for (k, alt) in args {
        let p = if *alt { scn_dir.join(".").join("..").join(scn_dir.file_name().unwrap()).join(format!("f{}.dlt", k)) } else { scn_dir.join(format!("f{}.dlt", k)) };
        cmd.arg(p);
    }
    match o.style {
        1 => {
            cmd.arg("-a");
        }
        2 => {
            cmd.arg("-x");
        }
        3 => {
            cmd.arg("-s");
        }
        _ => {}
    }
    if let Some(b) = o.b {
        cmd.arg("-b").arg(b.to_string());
    }
    if let Some(e) = o.e {
        cmd.arg("-e").arg(e.to_string());
    }
    if !o.lcs.is_empty() {
        cmd.arg(format!("--lcs={}", o.lcs.iter().map(|x| x.to_string()).collect::<Vec<_>>().join(",")));
    }
    if o.ffmt != 0 {
        let fp = inv_dir.join(format!("filter{}.{}", tag, if o.ffmt == 1 { "dlf" } else { "txt" }));
        if o.ffmt == 1 {
            std::fs::write(&fp, dlf_text(&o.ffilters, o.eac_style % 2 == 0)).unwrap();
        } else {
            std::fs::write(&fp, conv_text(&o.ffilters)).unwrap();
        }
        cmd.arg("-f").arg(fp);
    }
    if !o.eac.is_empty() {
        cmd.arg(format!("--eac={}", eac_text(&o.eac, o.eac_style)));
    }
    if o.sort {
        cmd.arg("--sort");
    }
    if let Some(ft) = &o.ft {
        cmd.arg(format!("--file_transfer={}", ft.glob));
        cmd.arg("--file_transfer_path").arg(inv_dir.join(format!("ft{}", tag)));
        if let Some(a) = &ft.apid {
            cmd.arg("--file_transfer_apid").arg(a);
        }
        if let Some(c) = &ft.ctid {
            cmd.arg("--file_transfer_ctid").arg(c);
        }
    }
    if o.ofile {
        cmd.arg("-o").arg(opath);
    }
    let so = inv_dir.join(format!("stdout{}.txt", tag));
    let se = inv_dir.join(format!("stderr{}.txt", tag));
    let mut child = cmd
        .env("RUST_BACKTRACE", "0")
        .stdin(Stdio::null())
        .stdout(std::fs::File::create(&so).unwrap())
        .stderr(std::fs::File::create(&se).unwrap())
        .spawn()
        .expect("spawn adlt");
    let t0 = Instant::now();
    let (mut ok, mut timed_out) = (false, false);
    loop {
        match child.try_wait().unwrap() {
            Some(st) => {
                ok = st.success();
                break;
            }
            None => {
                if t0.elapsed() > Duration::from_secs(120) {
                    let _ = child.kill();
                    let _ = child.wait();
                    timed_out = true;
                    break;
                }
                std::thread::sleep(Duration::from_millis(3));
            }
        }
    }
    let lines = String::from_utf8_lossy(&std::fs::read(&so).unwrap_or_default()).lines().map(|s| s.to_string()).collect();
    let stderr = String::from_utf8_lossy(&std::fs::read(&se).unwrap_or_default()).to_string();
    (ok, timed_out, lines, stderr)
}

/// puts the -o path into its prior state; false if a preparing run failed or timed out
fn prepare_out_path(scn_dir: &Path, inv_dir: &Path, args: &[ArgSpec], opath: &Path, pre: &PreMat, depth: usize) -> bool {
    match pre {
        PreMat::Absent => true,
        PreMat::Bytes(b) => {
            std::fs::write(opath, b).unwrap();
            true
        }
        PreMat::Prev(o, inner) => {
            if !prepare_out_path(scn_dir, inv_dir, args, opath, inner, depth + 1) {
                return false;
            }
            let (_ok, timed_out, _, stderr) = exec_adlt(scn_dir, inv_dir, args, o, opath, &format!("_pre{}", depth));
            // (a run on files none of which can be opened fails and writes nothing: the path keeps its state)
            !timed_out && !stderr.contains("panicked")
        }
    }
}

fn reread(data: &[u8]) -> Vec<DltMessage> {
    let mut cur = std::io::Cursor::new(data);
    DltMessageIterator::new(0, &mut cur).collect()
}

fn run_adlt(scn_dir: &Path, inv_dir: &Path, args: &[ArgSpec], o: &Opts, pre: &PreMat) -> RunOut {
    std::fs::create_dir_all(inv_dir).unwrap();
    let opath = inv_dir.join("out.dlt");
    let mut r = RunOut::default();
    if o.ofile {
        if !prepare_out_path(scn_dir, inv_dir, args, &opath, pre, 0) {
            r.timed_out = true;
            r.stderr = "preparing run failed".into();
            let _ = std::fs::remove_dir_all(inv_dir);
            return r;
        }
        if opath.exists() {
            let data = std::fs::read(&opath).unwrap();
            r.prior_len = Some(data.len());
            r.prior = Some(reread(&data));
        }
    }
    let (ok, timed_out, lines, stderr) = exec_adlt(scn_dir, inv_dir, args, o, &opath, "");
    r.ok = ok;
    r.timed_out = timed_out;
    r.lines = lines;
    r.stderr = stderr;
    if opath.exists() {
        let data = std::fs::read(&opath).unwrap();
        r.ofile = Some(reread(&data));
        r.obytes = Some(data);
    }
    let _ = std::fs::remove_dir_all(inv_dir);
    r
}

// ------------------------------------------------------------------ parsing the output
struct Parsed {
    screen: Vec<(u32, u32)>,          // (index, uid)
    listing: Option<Vec<(u32, u8, u32)>>, // (id, ecu, nr)
    file: Option<Vec<u32>>,
    prior: Option<Vec<u32>>, // uids the -o path re-read to before the run (u32::MAX: not a message of the scenario)
    problems: Vec<String>,
}
fn same_msg(a: &DltMessage, b: &DltMessage) -> bool {
    a.ecu == b.ecu
        && a.reception_time_us == b.reception_time_us
        && a.timestamp_dms == b.timestamp_dms
        && a.standard_header.htyp == b.standard_header.htyp
        && a.standard_header.mcnt == b.standard_header.mcnt
        && a.extended_header == b.extended_header
        && a.payload == b.payload
}
fn parse_out(scn: &Scn, r: &RunOut, style: u8, ft: bool) -> Parsed {
    let mut key: HashMap<(u8, u32, u8), u32> = HashMap::new();
    for (uid, m) in scn.msgs.iter().enumerate() {
        key.insert((m.ecu, if m.has_ts { m.ts } else { 0 }, m.mcnt), uid as u32);
    }
    // a re-read message is identified by (ECU, timestamp, message counter) - unique by construction - and then compared
    // with the original field by field (same_msg)
    let uid_of = |m: &DltMessage| -> u32 {
        let e = m.ecu.as_buf();
        if &e[0..2] != b"EC" {
            return u32::MAX;
        }
        let ecu = (e[2].wrapping_sub(b'0')).wrapping_mul(10).wrapping_add(e[3].wrapping_sub(b'0'));
        key.get(&(ecu, m.timestamp_dms, m.standard_header.mcnt)).cloned().unwrap_or(u32::MAX)
    };
    let mut p = Parsed { screen: vec![], listing: None, file: None, prior: None, problems: vec![] };
    // with --file_transfer the plugin appends its summary: warnings, "have N file transfers:", one "LC# .." row per transfer
    let summary_at = if ft {
        r.lines.iter().position(|l| (l.starts_with("have ") && l.ends_with(" file transfers:")) || (l.starts_with("Plugin ") && l.contains(" generated ")))
    } else {
        None
    };
    let lines = &r.lines[..summary_at.unwrap_or(r.lines.len())];
    if style != 0 {
        for l in lines {
            let t: Vec<&str> = l.split_whitespace().collect();
            let parsed = (|| {
                if t.len() < 8 {
                    return None;
                }
                let idx: u32 = t[0].parse().ok()?;
                let ts: u32 = t[3].parse().ok()?;
                let mcnt: u8 = t[4].parse().ok()?;
                let e = t[5].as_bytes();
                if e.len() != 4 || &e[0..2] != b"EC" {
                    return None;
                }
                let ecu = (e[2] - b'0') * 10 + (e[3] - b'0');
                let uid = *key.get(&(ecu, ts, mcnt))?;
                Some((idx, uid))
            })();
            match parsed {
                Some(x) => p.screen.push(x),
                None => p.problems.push(format!("unexpected stdout line: {:.100}", l)),
            }
        }
    } else {
        let mut rows = vec![];
        let mut announced = None;
        for l in lines {
            if let Some(rest) = l.strip_prefix("have ") {
                announced = rest.split_whitespace().next().and_then(|x| x.parse::<usize>().ok());
            } else if let Some(rest) = l.strip_prefix("LC#") {
                let parsed = (|| {
                    let (id, right) = rest.split_once(':')?;
                    let id: u32 = id.trim().parse().ok()?;
                    let e = right.split_whitespace().next()?.as_bytes();
                    if e.len() != 4 {
                        return None;
                    }
                    let ecu = (e[2].wrapping_sub(b'0')) * 10 + (e[3].wrapping_sub(b'0'));
                    let nr: u32 = right[right.rfind('#')? + 1..].split_whitespace().next()?.parse().ok()?;
                    Some((id, ecu, nr))
                })();
                match parsed {
                    Some(x) => rows.push(x),
                    None => p.problems.push(format!("unexpected listing line: {:.100}", l)),
                }
            } else {
                p.problems.push(format!("unexpected stdout line: {:.100}", l));
            }
        }
        if r.ok {
            if announced != Some(rows.len()) {
                p.problems.push(format!("listing announces {:?} lifecycles, prints {}", announced, rows.len()));
            }
            rows.sort();
            p.listing = Some(rows);
        }
    }
    if let Some(ms) = &r.ofile {
        let mut uids = vec![];
        for m in ms {
            let uid = uid_of(m);
            if (uid as usize) < scn.msgs.len() && same_msg(m, &scn.msgs[uid as usize].build(uid)) {
                uids.push(uid);
            } else {
                p.problems.push(format!("-o file: message {} is not a message of the input", m.index));
                uids.push(u32::MAX);
            }
        }
        p.file = Some(uids);
    }
    if let Some(ms) = &r.prior {
        p.prior = Some(
            ms.iter()
                .map(|m| {
                    let uid = uid_of(m);
                    if (uid as usize) < scn.msgs.len() && same_msg(m, &scn.msgs[uid as usize].build(uid)) {
                        uid
                    } else {
                        u32::MAX
                    }
                })
                .collect(),
        );
    }
    p
}

// ------------------------------------------------------------------ jobs (process runs), executed in parallel
#[derive(Clone, Debug)]
struct Job {
    scn: usize,
    args: Vec<ArgSpec>,
    opts: Opts,
}
fn job_key(scn: usize, args: &[ArgSpec], o: &Opts) -> String {
    format!("{}|{:?}|{}", scn, args, o.key())
}
struct World {
    root: PathBuf,
    scns: Vec<Scn>,
    results: HashMap<String, RunOut>,
    invocations: u64,
}
impl World {
    fn run_jobs(&mut self, jobs: Vec<Job>, par: usize) {
        let mut todo: Vec<(String, Job, PreMat)> = vec![];
        let mut seen = BTreeSet::new();
        for j in jobs {
            let k = job_key(j.scn, &j.args, &j.opts);
            if !self.results.contains_key(&k) && seen.insert(k.clone()) {
                let pm = materialize(&self.scns[j.scn], &j.opts);
                todo.push((k, j, pm));
            }
        }
        let base = self.invocations;
        self.invocations += todo.len() as u64;
        let todo = Arc::new(todo);
        let next = Arc::new(Mutex::new(0usize));
        let out: Arc<Mutex<Vec<(String, RunOut)>>> = Arc::new(Mutex::new(vec![]));
        let mut hs = vec![];
        for _ in 0..par.max(1) {
            let (todo, next, out, root) = (todo.clone(), next.clone(), out.clone(), self.root.clone());
            hs.push(std::thread::spawn(move || loop {
                let i = {
                    let mut n = next.lock().unwrap();
                    let i = *n;
                    *n += 1;
                    i
                };
                if i >= todo.len() {
                    break;
                }
                let (k, j, pm) = &todo[i];
                let r = run_adlt(&root.join(format!("s{}", j.scn)), &root.join(format!("i{}", base as usize + i)), &j.args, &j.opts, pm);
                out.lock().unwrap().push((k.clone(), r));
            }));
        }
        for h in hs {
            h.join().unwrap();
        }
        for (k, r) in out.lock().unwrap().drain(..) {
            self.results.insert(k, r);
        }
    }
    fn get(&self, scn: usize, args: &[ArgSpec], o: &Opts) -> &RunOut {
        &self.results[&job_key(scn, args, o)]
    }
}

fn canon_args(args: &[ArgSpec]) -> Vec<ArgSpec> {
    let mut v: Vec<ArgSpec> = args.iter().map(|a| (a.0, false)).collect();
    v.sort();
    v
}
/// the process runs one invocation's case needs: itself, the baseline for the same arguments, the baseline for the
/// canonical order of the same arguments
fn jobs_for(scn: usize, args: &[ArgSpec], o: &Opts) -> Vec<Job> {
    vec![
        Job { scn, args: args.to_vec(), opts: o.clone() },
        Job { scn, args: args.to_vec(), opts: Opts::none(3) },
        Job { scn, args: canon_args(args), opts: Opts::none(3) },
    ]
}

// ------------------------------------------------------------------ oracle + case
fn fail(c: &str, d: String) -> Verdict {
    Verdict::Fail { clause: c.into(), detail: d }
}

struct Truth {
    /// expected lifecycle id per uid (rank of first appearance of (ecu, boot) in the baseline), None if the trace is
    /// not clean in baseline order
    lc_of: Option<HashMap<u32, u32>>,
    /// (id, ecu, nr) rows expected in the listing
    rows: Vec<(u32, u8, u32)>,
}
fn truth(scn: &Scn, baseline: &[(u32, u32)]) -> Truth {
    let mut ids: BTreeMap<(u8, u32), u32> = BTreeMap::new();
    let mut maxboot: HashMap<u8, u32> = HashMap::new();
    let mut clean = true;
    let mut lc_of = HashMap::new();
    let mut rows: Vec<(u32, u8, u32)> = vec![];
    for (_, uid) in baseline {
        let m = &scn.msgs[*uid as usize];
        let mb = maxboot.entry(m.ecu).or_insert(m.boot);
        if m.boot < *mb || m.creq || !m.has_ts || m.boot == u32::MAX {
            clean = false;
        }
        *mb = (*mb).max(m.boot);
        let n = ids.len() as u32 + 1;
        let id = *ids.entry((m.ecu, m.boot)).or_insert(n);
        if id == n && rows.len() < n as usize {
            rows.push((id, m.ecu, 0));
        }
        rows[id as usize - 1].2 += 1;
        lc_of.insert(*uid, id);
    }
    // a message that occurs twice (a file taken twice) has no unique ground truth either
    let distinct: BTreeSet<u32> = baseline.iter().map(|x| x.1).collect();
    if distinct.len() != baseline.len() {
        clean = false;
    }
    Truth { lc_of: if clean { Some(lc_of) } else { None }, rows }
}

fn keep_truth(fs: &[(Front, Flt)], m: &M) -> bool {
    let pos: Vec<&(Front, Flt)> = fs.iter().filter(|f| f.1.enabled && f.1.kind == 0).collect();
    let neg: Vec<&(Front, Flt)> = fs.iter().filter(|f| f.1.enabled && f.1.kind == 1).collect();
    (pos.is_empty() || pos.iter().any(|f| f.1.verdict(f.0, m))) && !neg.iter().any(|f| f.1.verdict(f.0, m))
}

fn distinct_first_times(scn: &Scn, args: &[ArgSpec]) -> bool {
    let files: BTreeSet<usize> = args.iter().map(|a| a.0).collect();
    let mut ts: Vec<u64> = files.iter().filter_map(|k| scn.first_rt(*k)).collect();
    let n = ts.len();
    ts.sort();
    ts.dedup();
    ts.len() == n
}

/// The unfiltered input of a run on several files, stated on the generated files alone (no model, no run of the tool):
/// files whose sets of ECU ids are EQUAL form one stream and are chained in the order of their first reception time,
/// files with DIFFERENT sets are parallel streams that are merged message by message by reception time.  The set of a
/// file = the ECUs of the messages that lie completely inside the first 512 KiB (the documented range of the probe,
/// `DltFileInfos::ecus_seen`: "the ECU ids within the read_size range"); `drop_first`: the (wrong) classification that
/// forgets the ECU of the first message unless it occurs again - used for statistics only.
/// None: two different files of one stream have the same first reception time (the chain order is not determined).
fn ecu_set(scn: &Scn, k: usize, drop_first: bool) -> BTreeSet<u8> {
    let n = scn.file_bytes(k).1;
    scn.files[k].msgs[if drop_first { 1.min(n) } else { 0 }..n].iter().map(|u| scn.msgs[*u as usize].ecu).collect()
}
fn expected_streams(scn: &Scn, args: &[ArgSpec], drop_first: bool) -> Option<Vec<Vec<usize>>> {
    let mut named: Vec<usize> = vec![];
    for a in args {
        if !named.contains(&a.0) && !scn.files[a.0].missing && scn.file_bytes(a.0).1 > 0 {
            named.push(a.0);
        }
    }
    let mut groups: Vec<(BTreeSet<u8>, Vec<usize>)> = vec![];
    for k in named {
        let set = ecu_set(scn, k, drop_first);
        match groups.iter_mut().find(|g| g.0 == set) {
            Some(g) => g.1.push(k),
            None => groups.push((set, vec![k])),
        }
    }
    let mut streams = vec![];
    for (_, mut fs) in groups {
        fs.sort_by_key(|k| scn.first_rt(*k).unwrap());
        if fs.windows(2).any(|w| scn.first_rt(w[0]) == scn.first_rt(w[1])) {
            return None;
        }
        streams.push(fs);
    }
    streams.sort_by_key(|fs| scn.first_rt(fs[0]).unwrap());
    Some(streams)
}
/// is `got` (uids) a merge by reception time of the streams (each the concatenation of its files)?  Every emitted
/// message must be the next message of its stream and no other stream may have a next message with an EARLIER
/// reception time (equal times: either order).
fn merge_accepts(scn: &Scn, streams: &[Vec<usize>], got: &[u32]) -> Result<(), String> {
    let seqs: Vec<Vec<u32>> = streams.iter().map(|fs| fs.iter().flat_map(|k| scn.files[*k].msgs.iter().cloned()).collect()).collect();
    let mut pos = vec![0usize; seqs.len()];
    let rt = |u: u32| scn.msgs[u as usize].rt;
    let show = |u: u32| { let m = &scn.msgs[u as usize]; format!("uid {} (EC{:02}, +{}us)", u, m.ecu, m.rt.wrapping_sub(RHO)) };
    for (i, u) in got.iter().enumerate() {
        let s = match (0..seqs.len()).find(|s| pos[*s] < seqs[*s].len() && seqs[*s][pos[*s]] == *u) {
            Some(s) => s,
            None => {
                let heads: Vec<String> = (0..seqs.len()).filter(|s| pos[*s] < seqs[*s].len()).map(|s| show(seqs[s][pos[s]])).collect();
                return Err(format!("index {}: {} is not the next message of its stream; the streams are at {:?}", i, show(*u), heads));
            }
        };
        if let Some(t) = (0..seqs.len()).filter(|t| *t != s && pos[*t] < seqs[*t].len()).find(|t| rt(seqs[*t][pos[*t]]) < rt(*u)) {
            return Err(format!("index {}: {} of stream {:?} is emitted while {} of the parallel stream {:?} was received earlier", i, show(*u), streams[s], show(seqs[t][pos[t]]), streams[t]));
        }
        pos[s] += 1;
    }
    if let Some(s) = (0..seqs.len()).find(|s| pos[*s] < seqs[*s].len()) {
        return Err(format!("{} of stream {:?} is never emitted", show(seqs[s][pos[s]]), streams[s]));
    }
    Ok(())
}
/// one run of that merge (ties: the first stream), for statistics
fn merge_first(scn: &Scn, streams: &[Vec<usize>]) -> Vec<u32> {
    let seqs: Vec<Vec<u32>> = streams.iter().map(|fs| fs.iter().flat_map(|k| scn.files[*k].msgs.iter().cloned()).collect()).collect();
    let mut pos = vec![0usize; seqs.len()];
    let mut out = vec![];
    while let Some(s) = (0..seqs.len()).filter(|s| pos[*s] < seqs[*s].len()).min_by_key(|s| scn.msgs[seqs[*s][pos[*s]] as usize].rt) {
        out.push(seqs[s][pos[s]]);
        pos[s] += 1;
    }
    out
}

fn record(sink: &mut Sink, w: &World, scn_no: usize, args: &[ArgSpec], o: &Opts, extra_tags: &[&str]) {
    let scn = &w.scns[scn_no];
    let r = w.get(scn_no, args, o);
    let rb = w.get(scn_no, args, &Opts::none(3));
    let rc = w.get(scn_no, &canon_args(args), &Opts::none(3));
    let p = parse_out(scn, r, o.style, o.ft.is_some());
    let pb = parse_out(scn, rb, 3, false);
    let pc = parse_out(scn, rc, 3, false);
    let filters = o.filters();
    let t = truth(scn, &pb.screen);
    let dft = distinct_first_times(scn, args);
    let files_named: BTreeSet<usize> = args.iter().map(|a| a.0).collect();
    let any_ok = files_named.iter().any(|k| !scn.files[*k].missing);

    // ---------------- oracle
    let verdict = (|| {
        for (what, x) in [("run", r), ("baseline", rb), ("baseline-canonical", rc)] {
            if x.timed_out {
                return fail("terminates", format!("{} timed out", what));
            }
            if x.stderr.contains("panicked") {
                return fail("no_panic", format!("{}: {:.300}", what, x.stderr));
            }
        }
        if !any_ok {
            // no file can be opened: an error, nothing emitted
            if r.ok || !p.screen.is_empty() || p.file != p.prior || r.obytes.as_ref().map(|b| b.len()) != r.prior_len {
                return fail("no_input", "no input file can be opened but the run succeeded, emitted messages or touched the -o path".into());
            }
            return Verdict::Ok;
        }
        if !r.ok || !rb.ok || !rc.ok {
            return fail("exit_status", format!("exit status not ok: {:.300}", r.stderr));
        }
        for (what, x) in [("run", &p), ("baseline", &pb), ("baseline-canonical", &pc)] {
            if let Some(pr) = x.problems.first() {
                return fail("output_format", format!("{}: {}", what, pr));
            }
        }
        // baseline: numbered 0.., every message of every named file once (when first times are distinct), file order kept
        for (k, (idx, _)) in pb.screen.iter().enumerate() {
            if *idx as usize != k {
                return fail("indices_consecutive", format!("baseline line {} has index {}", k, idx));
            }
        }
        for k in &files_named {
            if scn.files[*k].missing || scn.file_bytes(*k).1 == 0 {
                continue;
            }
            let want = &scn.files[*k].msgs;
            let inset: BTreeSet<u32> = want.iter().cloned().collect();
            let got: Vec<u32> = pb.screen.iter().map(|x| x.1).filter(|u| inset.contains(u)).collect();
            if dft {
                if &got != want {
                    return fail("every_message_once_in_file_order", format!("file {}: expected {:?} got {:?}", k, want, got));
                }
            } else {
                // a file may legitimately be read twice when first reception times tie (not de-duplicated): each copy in order
                let times = got.len() / want.len().max(1);
                let mut ok = got.len() == times * want.len() && times >= 1;
                if ok {
                    for c in 0..times {
                        // the c-th occurrence of every uid forms the file's sequence
                        let mut seen: HashMap<u32, usize> = HashMap::new();
                        let sub: Vec<u32> = got
                            .iter()
                            .cloned()
                            .filter(|u| {
                                let e = seen.entry(*u).or_insert(0);
                                *e += 1;
                                *e == c + 1
                            })
                            .collect();
                        ok &= &sub == want;
                    }
                }
                if !ok {
                    return fail("every_message_in_file_order", format!("file {}: expected copies of {:?} got {:?}", k, want, got));
                }
            }
        }
        let known: BTreeSet<u32> =
            files_named.iter().filter(|k| !scn.files[**k].missing && scn.file_bytes(**k).1 > 0).flat_map(|k| scn.files[*k].msgs.iter().cloned()).collect();
        if pb.screen.iter().any(|x| !known.contains(&x.1)) {
            return fail("only_input_messages", "baseline contains a message of no named file".into());
        }
        // several files: equal ECU sets are chained by first reception time, different sets merged by reception time
        if let Some(streams) = expected_streams(scn, args, false) {
            let got: Vec<u32> = pb.screen.iter().map(|x| x.1).collect();
            if let Err(e) = merge_accepts(scn, &streams, &got) {
                let sets: Vec<String> = streams.iter().map(|fs| format!("files {:?} (ECUs {:?})", fs, ecu_set(scn, fs[0], false))).collect();
                return fail("input_streams_by_ecu_set", format!("expected streams {}: {}", sets.join(" | "), e));
            }
        }
        // file order irrelevant
        if dft && pb.screen != pc.screen {
            let show = |v: &Vec<(u32, u32)>| v.iter().map(|(i, u)| { let m = &scn.msgs[*u as usize]; format!("({}, EC{:02}, +{}us)", i, m.ecu, m.rt.wrapping_sub(RHO)) }).collect::<Vec<_>>().join(" ");
            return fail("file_order_irrelevant", format!("arguments {:?} emit (index, ecu, time) {} but the same files in canonical order {:?} emit {}", args, show(&pb.screen), canon_args(args), show(&pc.screen)));
        }
        // lifecycle ground truth vs listing
        if let (Some(rows), Some(_)) = (&p.listing, &t.lc_of) {
            if rows != &t.rows {
                return fail("lifecycle_listing", format!("listing {:?}, ground truth {:?}", rows, t.rows));
            }
        }
        // selection
        if !o.lcs.is_empty() && t.lc_of.is_none() {
            return Verdict::Ok; // no ground truth for the lifecycles: correspondence only
        }
        let want: Vec<(u32, u32)> = pb
            .screen
            .iter()
            .filter(|(idx, uid)| {
                let m = &scn.msgs[*uid as usize];
                o.b.map_or(true, |b| *idx >= b)
                    && o.e.map_or(true, |e| *idx <= e)
                    && (o.lcs.is_empty() || o.lcs.contains(&t.lc_of.as_ref().unwrap()[uid]))
                    && keep_truth(&filters, m)
            })
            .cloned()
            .collect();
        if o.style != 0 {
            let mut got = p.screen.clone();
            if o.sort {
                got.sort();
            }
            if got != want {
                return fail("screen_selected_exactly", format!("expected {:?} got {:?}", want, p.screen));
            }
        }
        match (&p.file, o.ofile) {
            (None, false) => {}
            (Some(got), true) => {
                let mut w: Vec<u32> = want.iter().map(|x| x.1).collect();
                let mut g = got.clone();
                if o.sort {
                    // position in the baseline identifies the message
                    let pos: HashMap<u32, usize> = pb.screen.iter().enumerate().map(|(i, x)| (x.1, i)).collect();
                    g.sort_by_key(|u| pos.get(u).cloned().unwrap_or(usize::MAX));
                    w.sort_by_key(|u| pos.get(u).cloned().unwrap_or(usize::MAX));
                }
                if g != w {
                    return fail("file_selected_exactly", format!("expected {:?} got {:?} (the -o path held {:?} before the run)", w, got, p.prior));
                }
                // the final content of the path is exactly the frames of those messages, byte for byte, nothing else
                let mut bytes = vec![];
                for u in got {
                    scn.msgs[*u as usize].build(*u).to_write(&mut bytes).unwrap();
                }
                if r.obytes.as_ref() != Some(&bytes) {
                    return fail("file_bytes_exact", format!("the -o file has {} bytes, the frames of the selected messages {} (prior content: {:?} bytes)", r.obytes.as_ref().map_or(0, |b| b.len()), bytes.len(), r.prior_len));
                }
            }
            (None, true) => return fail("file_written", "-o given but no file written".into()),
            (Some(_), false) => return fail("file_written", "file written without -o".into()),
        }
        Verdict::Ok
    })();

    // ---------------- observation
    let status = if r.ok { 0u32 } else { 1 };
    let obs = O::T(vec![
        O::n(status),
        O::T(pb.screen.iter().map(|x| O::n(x.1)).collect()),
        O::T(p.screen.iter().map(|x| O::T(vec![O::n(x.0), O::n(x.1)])).collect()),
        match &p.file {
            None => O::T(vec![]),
            Some(f) => O::T(vec![O::T(f.iter().map(|u| O::n(*u)).collect())]),
        },
        match &p.listing {
            None => O::T(vec![]),
            Some(rows) => O::T(vec![O::T(rows.iter().map(|x| O::T(vec![O::n(x.0), O::n(x.1), O::n(x.2)])).collect())]),
        },
    ]);

    // ---------------- Coq input: the filter sources as written, the header parts Filter::matches reads, and the real
    // regex engine's answers (the model loads the filters with the C11 front-end models and evaluates the model of
    // Filter::matches itself; the oracle above used the harness's own matcher)
    let cbytes = |b: &[u8]| cnums(b);
    let coq_files: Vec<String> = (0..scn.files.len())
        .map(|k| {
            let f = &scn.files[k];
            let msgs: Vec<String> = f
                .msgs
                .iter()
                .map(|uid| {
                    let m = &scn.msgs[*uid as usize];
                    let ext = if m.ext { format!("(Some ({}, {}, {}))", m.vmm(), cbytes(&apid_id(m.apid)), cbytes(&ctid_id(m.ctid))) } else { "None".to_string() };
                    format!("({}, {}, {}, {}, {}, {}, ({}, {}))", uid, m.ecu, m.rt, if m.has_ts { m.ts as u64 * 100 } else { 0 }, cbool(m.has_ts), cbool(m.creq), cbytes(&ecu_id(m.ecu)), ext)
                })
                .collect();
            format!("({}, {}, {})", k, if f.missing { 0 } else { scn.file_bytes(k).1 }, clist(&msgs))
        })
        .collect();
    let coq_args: Vec<String> = args.iter().map(|a| if scn.files[a.0].missing { "None".to_string() } else { format!("(Some {})", a.0) }).collect();
    let mut coq_srcs: Vec<String> = vec![];
    if o.ffmt == 1 {
        for f in &o.ffilters {
            let kv: Vec<String> = dlf_attrs(f).iter().map(|(k, v)| format!("({}, {})", dlf_key_idx(k), cbytes(v.as_bytes()))).collect();
            coq_srcs.push(format!("FsDlf {}", clist(&kv)));
        }
    } else if o.ffmt == 2 {
        coq_srcs.push(format!("FsConv {}", cbytes(&conv_text(&o.ffilters))));
    }
    for f in &o.eac {
        coq_srcs.push(format!("FsEac {}", cbytes(eac_one(f, o.eac_style).as_bytes())));
    }
    // the engine's answers: every criterion text that could be read as an expression x every id of its kind in the scenario
    let (mut vt, mut rt): (Vec<String>, Vec<String>) = (vec![], vec![]);
    {
        let mut seen: BTreeSet<(String, u8)> = BTreeSet::new();
        for (_, f) in &filters {
            for (kind, c) in [(0u8, &f.ecu), (1, &f.apid), (2, &f.ctid)] {
                let c = match c {
                    Some(c) => c,
                    None => continue,
                };
                if !(has_regex_chars(&c.text) || c.flag == Some(true)) || !seen.insert((c.text.clone(), kind)) {
                    continue;
                }
                let compiled = regex::bytes::Regex::new(&c.text);
                if !vt.iter().any(|x: &String| x.starts_with(&format!("({}, ", cbytes(c.text.as_bytes())))) {
                    vt.push(format!("({}, {})", cbytes(c.text.as_bytes()), cbool(compiled.is_ok())));
                }
                if let Ok(re) = compiled {
                    let ids: BTreeSet<[u8; 4]> = scn
                        .msgs
                        .iter()
                        .filter(|m| kind == 0 || m.ext)
                        .map(|m| match kind {
                            0 => ecu_id(m.ecu),
                            1 => apid_id(m.apid),
                            _ => ctid_id(m.ctid),
                        })
                        .collect();
                    for id in ids {
                        let e = format!("({}, {}, {})", cbytes(c.text.as_bytes()), cbytes(&id), cbool(re.is_match(&id)));
                        if !rt.contains(&e) {
                            rt.push(e);
                        }
                    }
                }
            }
        }
    }
    let coq_opts = format!(
        "({}, {}, {}, {}, {}, {}, {}, {})",
        o.b.unwrap_or(0),
        o.e.unwrap_or(u32::MAX),
        cnums(&o.lcs),
        clist(&coq_srcs),
        cbool(o.sort),
        o.style,
        cbool(o.ofile),
        copt(p.prior.as_ref().map(|v| cnums(v)))
    );
    let input_coq = format!("({}, {}, {}, ({}, {}))", clist(&coq_files), clist(&coq_args), coq_opts, clist(&vt), clist(&rt));

    // ---------------- tags
    let mut tags: Vec<String> = extra_tags.iter().map(|s| s.to_string()).collect();
    tags.push(format!("files{}", files_named.len().min(6)));
    tags.push(format!("style{}", o.style));
    if o.b.is_some() {
        tags.push("opt_b".into());
    }
    if o.e.is_some() {
        tags.push("opt_e".into());
    }
    if !o.lcs.is_empty() {
        tags.push("opt_lcs".into());
    }
    if o.ffmt == 1 {
        tags.push("opt_f_dlf".into());
    }
    if o.ffmt == 2 {
        tags.push("opt_f_conv".into());
        // a record whose CTID is shorter than its APID ("AP02 C3-- ") and that names a message of the input
        if o.ffilters.iter().any(|f| {
            let (ta, tc) = (f.apid.as_ref().map_or("", |c| c.text.as_str()), f.ctid.as_ref().map_or("", |c| c.text.as_str()));
            !tc.is_empty() && tc.len() < ta.len() && pb.screen.iter().any(|x| f.verdict(Front::Conv, &scn.msgs[x.1 as usize]))
        }) {
            tags.push("conv_record_short_ctid_matches".into());
        }
    }
    {
        let nneg = filters.iter().filter(|f| f.1.enabled && f.1.kind == 1).count();
        let npos = filters.iter().filter(|f| f.1.enabled && f.1.kind == 0).count();
        if nneg >= 2 {
            tags.push("filters_2plus_negative".into());
            // some message matches one but not all of the negative filters
            let negs: Vec<&(Front, Flt)> = filters.iter().filter(|f| f.1.enabled && f.1.kind == 1).collect();
            if pb.screen.iter().any(|x| { let m = &scn.msgs[x.1 as usize]; let c = negs.iter().filter(|f| f.1.verdict(f.0, m)).count(); c >= 1 && c < negs.len() }) {
                tags.push("negatives_partly_matching".into());
            }
        }
        if npos >= 2 {
            tags.push("filters_2plus_positive".into());
        }
        if nneg >= 1 && npos >= 1 {
            tags.push("filters_pos_and_neg".into());
        }
        // id criteria that are expressions, and messages for which the missing extended header decides
        let mut t: BTreeSet<String> = BTreeSet::new();
        for (front, f) in filters.iter().filter(|f| f.1.enabled && f.1.kind <= 1) {
            let re: Vec<bool> = [(IdKind::Ecu, &f.ecu), (IdKind::Apid, &f.apid), (IdKind::Ctid, &f.ctid)].iter().map(|(k, c)| c.as_ref().map_or(false, |c| c.is_regex(*front, *k))).collect();
            let nm = ["ecu", "apid", "ctid"];
            let fr = match front { Front::Dlf => "dlf", Front::Conv => "conv", Front::Eac => "eac" };
            let pol = if f.kind == 0 { "pos" } else { "neg" };
            for k in 0..3 {
                if re[k] {
                    t.insert(format!("crit_regex_{}_{}", nm[k], fr));
                    t.insert(format!("crit_regex_{}", pol));
                }
            }
            if re.iter().filter(|x| **x).count() >= 2 {
                t.insert("crit_regex_pair".into());
            }
            if [&f.ecu, &f.apid, &f.ctid].iter().any(|c| c.as_ref().map_or(false, |c| c.flag.is_some())) {
                t.insert("crit_dlf_regex_flag".into());
            }
            if [&f.ecu, &f.apid, &f.ctid].iter().any(|c| c.as_ref().map_or(false, |c| c.text.len() > 4 && !has_regex_chars(&c.text))) {
                t.insert("crit_overlong_literal".into());
            }
            if f.ctrl || f.lmin.is_some() || f.lmax.is_some() {
                t.insert("crit_type_or_level".into());
            }
            if f.needs_ext() {
                // a message without extended header that satisfies everything else the filter asks for
                let mut g = f.clone();
                g.apid = None;
                g.ctid = None;
                g.ctrl = false;
                g.lmin = None;
                g.lmax = None;
                if pb.screen.iter().any(|x| { let m = &scn.msgs[x.1 as usize]; !m.ext && g.verdict(*front, m) }) {
                    t.insert(format!("noext_decides_{}", pol));
                    for (k, only) in [(1usize, f.ctid.is_none()), (2, f.apid.is_none())] {
                        if re[k] && only && !f.ctrl && f.lmin.is_none() && f.lmax.is_none() {
                            t.insert(format!("noext_decides_regex_{}_only", nm[k]));
                        }
                    }
                    if f.apid.is_none() && f.ctid.is_none() {
                        t.insert("noext_decides_type_or_level_only".into());
                    }
                }
            }
        }
        tags.extend(t);
        if pb.screen.iter().any(|x| !scn.msgs[x.1 as usize].ext) {
            tags.push("input_has_msgs_without_ext_header".into());
        }
    }
    if !o.eac.is_empty() {
        tags.push(format!("opt_eac{}", o.eac.len().min(3)));
    }
    if o.sort {
        tags.push("opt_sort".into());
    }
    if o.ofile {
        tags.push("opt_o".into());
        tags.push(o.pre.tag().into());
        if let Pre::Prev(p1) = &o.pre {
            if let Pre::Prev(_) = &p1.pre {
                tags.push("out_path_written_three_times".into());
            }
        }
        match (r.prior_len, r.obytes.as_ref().map(|b| b.len())) {
            (Some(a), Some(b)) if a > b => tags.push("out_path_prior_longer".into()),
            (Some(a), Some(b)) if a < b => tags.push("out_path_prior_shorter".into()),
            (Some(_), Some(_)) => tags.push("out_path_prior_same_length".into()),
            _ => {}
        }
    }
    if !dft {
        tags.push("first_times_tie".into());
    }
    match (expected_streams(scn, args, false), expected_streams(scn, args, true)) {
        (Some(st), other) => {
            tags.push(format!("streams{}", st.len().min(5)));
            if st.iter().any(|fs| fs.len() > 1) {
                tags.push("stream_of_several_files".into());
            }
            if st.iter().any(|fs| fs.windows(2).any(|w| scn.files[w[0]].msgs.last().map(|u| scn.msgs[*u as usize].rt) > scn.first_rt(w[1]))) {
                tags.push("chained_files_overlap_in_time".into());
            }
            if let Some(st2) = other {
                let norm = |v: &Vec<Vec<usize>>| { let mut v = v.clone(); v.sort(); v };
                if norm(&st) != norm(&st2) {
                    // a file's first message is the only one of its ECU (or its only message) and another file has the remaining set
                    tags.push("partition_depends_on_first_msg_ecu".into());
                    if merge_first(scn, &st) != merge_first(scn, &st2) {
                        tags.push("first_msg_ecu_decides_input_order".into());
                    }
                }
            }
        }
        (None, _) => tags.push("stream_order_undetermined".into()),
    }
    for k in &files_named {
        let f = &scn.files[*k];
        if f.missing {
            continue;
        }
        let n = scn.file_bytes(*k).1;
        if n == 1 && f.msgs.len() == 1 {
            tags.push("single_message_file".into());
        }
        if n > 0 && n < f.msgs.len() {
            let all: BTreeSet<u8> = f.msgs.iter().map(|u| scn.msgs[*u as usize].ecu).collect();
            if all != ecu_set(scn, *k, false) {
                tags.push("ecu_only_beyond_scan_range".into());
            }
        }
        if n >= 2 {
            let e = |i: usize| scn.msgs[f.msgs[i] as usize].ecu;
            if (0..n - 1).all(|i| e(i) != e(n - 1)) {
                tags.push("ecu_only_in_last_scanned_msg".into());
            }
        }
        // where the first message lies / how large it is (the probe must find it anywhere in its 512 KiB)
        if let Some(u) = f.msgs.first() {
            let lead = f.pad as usize + f.garbage[0].len();
            let mut one = vec![];
            scn.msgs[*u as usize].build(*u).to_write(&mut one).unwrap();
            for (lim, name) in [(8usize << 10, "8k"), (64 << 10, "64k"), (256 << 10, "256k")] {
                if lead + one.len() > lim {
                    tags.push(format!("first_msg_ends_beyond_{}", name));
                }
            }
            if lead + one.len() > SCAN {
                tags.push("first_msg_beyond_scan_range".into());
            }
            if one.len() > 8 << 10 {
                tags.push("first_msg_larger_than_8k".into());
            }
        }
    }
    tags.sort();
    tags.dedup();
    if scn.msgs.iter().any(|m| m.boot == u32::MAX) {
        tags.push("messy_trace".into());
    }
    if files_named.iter().any(|k| !scn.files[*k].missing && scn.file_bytes(*k).1 < scn.files[*k].msgs.len()) {
        tags.push("file_larger_than_scan".into());
    }
    if t.lc_of.is_none() {
        tags.push("lifecycles_not_clean".into());
    }
    if args.len() != files_named.len() {
        tags.push("file_named_twice".into());
    }
    if args.iter().any(|a| scn.files[a.0].missing) {
        tags.push("missing_file".into());
    }
    if args != &canon_args(args)[..] {
        tags.push("permuted_args".into());
    }
    {
        // reception-time ties between messages of different files
        let mut seen: HashMap<u64, usize> = HashMap::new();
        let mut tie = false;
        for k in &files_named {
            for u in &scn.files[*k].msgs {
                let rt = scn.msgs[*u as usize].rt;
                if let Some(k0) = seen.get(&rt) {
                    if k0 != k {
                        tie = true;
                    }
                }
                seen.insert(rt, *k);
            }
        }
        if tie {
            tags.push("cross_file_time_tie".into());
        }
    }
    let selected = p.screen.len().max(p.file.as_ref().map_or(0, |f| f.len()));
    let has_selection = o.b.is_some() || o.e.is_some() || !o.lcs.is_empty() || !filters.is_empty();
    let nontrivial = pb.screen.len() >= 3 && (!has_selection || (selected > 0 && selected < pb.screen.len()));
    let input_json = json!({"scn": scn.json(), "args": args.iter().map(|a| json!([a.0, a.1])).collect::<Vec<_>>(), "opts": o.json()});
    let id = sink.next_id();
    sink.push(Case { id, key: input_coq.clone(), input_coq, input_json, obs, verdict, classes: vec![], tags, nontrivial });
}

// ------------------------------------------------------------------ generators
fn gen_garbage(rng: &mut Rng, max: u64) -> Vec<u8> {
    loop {
        let n = rng.size(max);
        let g: Vec<u8> = (0..n).map(|_| *rng.pick(&[b'D', b'L', b'T', b'S', 1u8, 0, 0x20, 0xff, 0x35, b'E'])).collect();
        let mut probe = g.clone();
        probe.extend_from_slice(b"DLT");
        let bad = probe.windows(4).any(|w| w == b"DLT\x01" || w == b"DLS\x01");
        if !bad {
            return g;
        }
    }
}

/// clean-boot trace over `necu` ECUs; `grid`: quantisation of all times (coarse grids give many reception-time ties)
fn gen_msgs(rng: &mut Rng, necu: u64, max_per_boot: u64, grid: u64) -> Vec<M> {
    let mut all: Vec<M> = vec![];
    for e in 1..=necu {
        let nb = rng.range(1, 3);
        let mut t = RHO + rng.below(4) * grid;
        for b in 0..nb {
            let n = rng.range(1, max_per_boot);
            let delay = if rng.chance(1, 2) { 0 } else { rng.below(3) * 100 };
            let mut ts_us: u64 = if rng.chance(1, 2) { 0 } else { rng.below(3) * grid };
            let mut maxts = 0;
            for k in 0..n {
                if k > 0 {
                    ts_us += match rng.below(6) {
                        0 => 0,
                        1 => 12_000_000 / grid * grid + grid, // a gap > 10 s
                        _ => rng.range(1, 3) * grid,
                    };
                }
                maxts = maxts.max(ts_us);
                let ext = rng.chance(3, 4);
                all.push(M {
                    ecu: e as u8,
                    rt: t + delay + ts_us,
                    ts: (ts_us / 100) as u32,
                    mcnt: 0,
                    ext,
                    apid: if ext { rng.range(1, NIDS) as u8 } else { 0 },
                    ctid: if ext { rng.range(1, NIDS) as u8 } else { 0 },
                    boot: b as u32,
                    fill: 0,
                    creq: false,
                    has_ts: true,
                    lvl: rng.range(1, 6) as u8,
                    ft: 0,
                });
            }
            // next boot: at least 1 ms after the last message was generated
            t = t + maxts + delay
                + match rng.below(3) {
                    0 => grid.max(1_000),
                    1 => 2 * grid.max(1_000),
                    _ => rng.range(1, 30) * grid.max(1_000_000),
                };
        }
    }
    // global order: by reception time, ties in random order
    let mut keyed: Vec<(u64, u64, M)> = all.into_iter().map(|m| (m.rt, rng.next(), m)).collect();
    keyed.sort_by_key(|x| (x.0, x.1));
    let mut out: Vec<M> = keyed.into_iter().map(|x| x.2).collect();
    // unique (ecu, ts, mcnt)
    let mut used: BTreeSet<(u8, u32, u8)> = BTreeSet::new();
    for (i, m) in out.iter_mut().enumerate() {
        let mut c = (i % 256) as u8;
        while used.contains(&(m.ecu, m.ts, c)) {
            c = c.wrapping_add(1);
        }
        m.mcnt = c;
        used.insert((m.ecu, m.ts, c));
    }
    out
}

fn gen_scn(rng: &mut Rng, big: bool) -> Scn {
    let necu = rng.range(1, 4);
    let grid = *rng.pick(&[100u64, 1_000, 100_000, 1_000_000, 1_000_000]);
    let mut msgs = gen_msgs(rng, necu, if big { 9 } else { 5 }, grid);
    // messy traces (no lifecycle ground truth, the model's detector is compared): control requests, messages
    // without timestamp, reception times out of order, timestamps that do not fit the boot
    if rng.chance(1, 5) {
        for m in msgs.iter_mut() {
            match rng.below(8) {
                0 => {
                    m.ext = true;
                    m.creq = true;
                    if m.apid == 0 {
                        m.apid = 1;
                        m.ctid = 1;
                    }
                }
                1 => m.has_ts = false,
                2 => m.rt = m.rt + rng.below(3_000_000),
                3 => m.rt = m.rt - rng.below(3_000_000),
                4 => m.ts = m.ts + rng.below(400_000) as u32,
                _ => {}
            }
            m.boot = u32::MAX;
        }
        // keep (ecu, ts, mcnt) unique
        let mut used: BTreeSet<(u8, u32, u8)> = BTreeSet::new();
        for m in msgs.iter_mut() {
            let ts = if m.has_ts { m.ts } else { 0 };
            let mut c = m.mcnt;
            while used.contains(&(m.ecu, ts, c)) {
                c = c.wrapping_add(1);
            }
            m.mcnt = c;
            used.insert((m.ecu, ts, c));
        }
    }
    let huge = big && rng.chance(1, 3);
    let nfiles = rng.range(1, 5) as usize;
    // each file: an ECU subset and a phase (time slice) it accepts
    let nphase = rng.range(1, 3);
    let t0 = msgs.first().map_or(0, |m| m.rt);
    let t1 = msgs.last().map_or(0, |m| m.rt) + 1;
    let mut sets: Vec<(BTreeSet<u8>, u64)> = vec![];
    for _ in 0..nfiles {
        let mut s = BTreeSet::new();
        if rng.chance(1, 2) {
            s.insert(rng.range(1, necu) as u8);
        } else {
            for e in 1..=necu {
                if rng.chance(1, 2) {
                    s.insert(e as u8);
                }
            }
            if s.is_empty() {
                s.insert(rng.range(1, necu) as u8);
            }
        }
        sets.push((s, rng.below(nphase)));
    }
    let strict_phase = rng.chance(2, 3);
    let mut files: Vec<Vec<u32>> = vec![vec![]; nfiles];
    for (uid, m) in msgs.iter().enumerate() {
        let phase = (m.rt.saturating_sub(t0) * nphase / t1.saturating_sub(t0).max(1)).min(nphase - 1);
        let mut cand: Vec<usize> = (0..nfiles).filter(|k| sets[*k].0.contains(&m.ecu) && (!strict_phase || sets[*k].1 == phase)).collect();
        if cand.is_empty() {
            cand = (0..nfiles).filter(|k| sets[*k].0.contains(&m.ecu)).collect();
        }
        if cand.is_empty() {
            cand = vec![rng.below(nfiles as u64) as usize];
        }
        files[*rng.pick(&cand)].push(uid as u32);
    }
    if huge {
        // one file larger than the 512 KiB convert looks at to find out which ECUs a file contains
        let k = (0..nfiles).max_by_key(|k| files[*k].len()).unwrap();
        if files[k].len() >= 10 {
            for uid in files[k][..9].iter() {
                msgs[*uid as usize].fill = 58_300;
            }
        }
    }
    let mut fs: Vec<FileSpec> = files
        .into_iter()
        .map(|msgs| {
            let with_garbage = rng.chance(1, 2);
            let garbage = (0..=msgs.len()).map(|_| if with_garbage && rng.chance(1, 3) { gen_garbage(rng, 12) } else { vec![] }).collect();
            FileSpec { msgs, garbage, missing: false, pad: 0, padk: 0 }
        })
        .collect();
    // odd files: missing, empty, garbage only
    if rng.chance(1, 5) {
        fs.push(FileSpec { msgs: vec![], garbage: vec![vec![]], missing: true, pad: 0, padk: 0 });
    }
    if rng.chance(1, 6) {
        fs.push(FileSpec { msgs: vec![], garbage: vec![if rng.chance(1, 2) { vec![] } else { gen_garbage(rng, 40) }], missing: false, pad: 0, padk: 0 });
    }
    Scn { msgs, files: fs }
}

/// the ids of one kind that occur in generated messages
fn universe(kind: IdKind, necu: u64) -> Vec<String> {
    match kind {
        IdKind::Ecu => (1..=necu.max(1) as u8).map(|e| id_str(&ecu_id(e))).collect(),
        IdKind::Apid => (1..=NIDS as u8).map(|a| id_str(&apid_id(a))).collect(),
        IdKind::Ctid => (1..=NIDS as u8).map(|c| id_str(&ctid_id(c))).collect(),
    }
}
/// a literal id: mostly one that occurs, sometimes over-long (only the first four bytes count), unknown, or a text that
/// WOULD be an expression elsewhere (dlt-convert format files and the DLF ECU id are never expressions)
fn gen_lit(rng: &mut Rng, u: &[String], front: Front) -> String {
    let id = rng.pick(u).clone();
    match rng.below(12) {
        0 if front != Front::Conv && id.len() == 4 => format!("{}{}", id, *rng.pick(&["X", "1", "02"])),
        1 => (*rng.pick(&["ZZZZ", "EC0", "AP0", "CT", "P01"])).to_string(),
        2 if front != Front::Eac && id.len() == 4 => format!("{}.", &id[..3]),
        _ => id,
    }
}
/// an expression over the ids of one kind: "A|B", ".*X", anchored, classes, dots, groups, repetitions
fn gen_regex(rng: &mut Rng, u: &[String]) -> String {
    let a = rng.pick(u).clone();
    let b = rng.pick(u).clone();
    let last = |s: &str, n: usize| s[s.len() - n.min(s.len())..].to_string();
    let first = |s: &str, n: usize| s[..n.min(s.len())].to_string();
    match rng.below(16) {
        0 | 1 => format!("{}|{}", a, b),
        2 => format!("{}|{}|ZZ", first(&a, 3), b),
        3 => {
            let n = rng.range(1, 2) as usize;
            format!(".*{}", last(&a, n))
        }
        4 => {
            let n = rng.range(1, 3) as usize;
            format!("^{}", first(&a, n))
        }
        5 => {
            let n = rng.range(1, 2) as usize;
            format!("{}$", last(&a, n))
        }
        6 => format!("^{}$", a), // (an id shorter than four characters is followed by NUL bytes: no match)
        7 => format!("^{}", a),
        8 => {
            let stem = first(&a, a.len() - 1);
            format!("{}[{}{}]", stem, last(&a, 1), last(&b, 1))
        }
        9 => {
            let stem = first(&a, a.len() - 1);
            format!("^{}[^{}]", stem, last(&b, 1))
        }
        10 => {
            let k = rng.below(a.len() as u64) as usize;
            format!("{}.{}", &a[..k], &a[k + 1..])
        }
        11 => format!("({}|{}){}", first(&a, 1), first(&b, 2), if rng.chance(1, 2) { "" } else { ".+" }),
        12 => format!("{}.?{}", first(&a, 1), last(&a, 1)),
        13 => format!("[{}{}].*[0-2]$", first(&a, 1), first(&b, 1)),
        14 => format!("{}+{}", first(&a, a.len() - 1), last(&a, 1)),
        _ => format!("^({}|{})", a, last(&b, 2)),
    }
}
fn gen_crit(rng: &mut Rng, kind: IdKind, necu: u64, front: Front) -> Crit {
    let u = universe(kind, necu);
    let can_regex = !(front == Front::Conv || (front == Front::Dlf && kind == IdKind::Ecu));
    if !can_regex {
        let mut t = gen_lit(rng, &u, front);
        if front == Front::Dlf && rng.chance(1, 8) {
            t = gen_regex(rng, &u); // read literally: its first four bytes
        }
        if front == Front::Conv {
            t.truncate(4);
        }
        return Crit { text: t, flag: None };
    }
    if front == Front::Dlf && rng.chance(1, 4) {
        // the DLF flag decides, whatever the text looks like
        return match rng.below(4) {
            0 => Crit { text: gen_regex(rng, &u), flag: Some(true) },
            1 => Crit { text: gen_regex(rng, &u), flag: Some(false) }, // a literal with odd characters
            2 => {
                // a plain text as an expression: matches every id that contains it
                let a = rng.pick(&u).clone();
                let n = rng.range(1, a.len() as u64) as usize;
                let k = rng.below((a.len() - n) as u64 + 1) as usize;
                Crit { text: a[k..k + n].to_string(), flag: Some(true) }
            }
            _ => Crit { text: gen_lit(rng, &u, front), flag: Some(false) },
        };
    }
    if rng.chance(1, 2) {
        Crit { text: gen_regex(rng, &u), flag: None }
    } else {
        Crit { text: gen_lit(rng, &u, front), flag: None }
    }
}

/// one filter with ECU / APID / CTID criteria alone, in pairs or all three (DLF: sometimes message type / log level)
fn gen_flt(rng: &mut Rng, necu: u64, kind: u8, front: Front) -> Flt {
    let mut f = Flt::new(kind);
    let (e, a, c) = match rng.below(10) {
        0 | 1 => (true, false, false),
        2 | 3 => (false, true, false),
        4 | 5 => (false, false, true),
        6 => (false, true, true),
        7 => (true, true, false),
        8 => (true, false, true),
        _ => (true, true, true),
    };
    if e {
        f.ecu = Some(gen_crit(rng, IdKind::Ecu, necu, front));
    }
    if a {
        f.apid = Some(gen_crit(rng, IdKind::Apid, necu, front));
    }
    if c {
        f.ctid = Some(gen_crit(rng, IdKind::Ctid, necu, front));
    }
    if front == Front::Dlf && rng.chance(1, 6) {
        match rng.below(4) {
            0 => f.ctrl = true,
            1 => f.lmin = Some(rng.below(7) as u8),
            2 => f.lmax = Some(rng.below(7) as u8),
            _ => {
                f.lmin = Some(rng.range(1, 4) as u8);
                f.lmax = Some(rng.range(3, 6) as u8);
            }
        }
        if rng.chance(1, 2) {
            // type / level criteria alone (or with the ECU only)
            f.apid = None;
            f.ctid = None;
        }
    }
    f
}

/// a dlt-convert format record "APID CTID " that names a message of the input (so that the record selects something);
/// preferably one whose CTID is SHORTER than its APID (the record is then "AP02 C3-- ": each id is filled up with '-')
fn conv_record_of_input(rng: &mut Rng, scn: &Scn) -> Option<Flt> {
    let ext: Vec<&M> = scn.msgs.iter().filter(|m| m.ext && m.apid != 0 && m.ctid != 0).collect();
    if ext.is_empty() {
        return None;
    }
    let len = |b: [u8; 4]| id_str(&b).len();
    let shorter: Vec<&&M> = ext.iter().filter(|m| len(ctid_id(m.ctid)) < len(apid_id(m.apid))).collect();
    let m: &M = if !shorter.is_empty() && rng.chance(2, 3) { **rng.pick(&shorter) } else { *rng.pick(&ext) };
    let mut f = Flt::new(0);
    f.apid = Some(Crit::lit(&id_str(&apid_id(m.apid))));
    f.ctid = Some(Crit::lit(&id_str(&ctid_id(m.ctid))));
    Some(f)
}

fn gen_opts(rng: &mut Rng, scn: &Scn, n: usize, nlc: u32, lcs_ok: bool, depth: u32) -> Opts {
    let necu = scn.msgs.iter().map(|m| m.ecu).max().unwrap_or(1) as u64;
    let mut o = Opts::none(0);
    let n = n as u64;
    if rng.chance(1, 2) {
        o.b = Some(match rng.below(6) {
            0 => 0,
            1 => n as u32,
            2 => (n + 3) as u32,
            _ => rng.below(n + 1) as u32,
        });
    }
    if rng.chance(1, 2) {
        o.e = Some(match rng.below(6) {
            0 => 0,
            1 => n.saturating_sub(1) as u32,
            2 => u32::MAX,
            _ => rng.below(n + 1) as u32,
        });
    }
    if lcs_ok && rng.chance(2, 5) {
        let k = rng.range(1, 3);
        let mut v: Vec<u32> = vec![];
        for _ in 0..k {
            v.push(if rng.chance(1, 8) { nlc + 1 + rng.below(3) as u32 } else { rng.range(1, nlc.max(1) as u64) as u32 });
        }
        o.lcs = v;
    }
    match rng.below(6) {
        0 | 1 => {
            // DLF file: filter SETS with mixed kinds
            o.ffmt = 1;
            // distinct single-criterion filters so that several negatives (positives) have different criteria: literal
            // ones for every id, and expressions over the APIDs / CTIDs
            let mut crit: Vec<Flt> = vec![];
            for a in 1..=NIDS as u8 {
                crit.push(Flt::ids(0, None, Some(&id_str(&apid_id(a))), None));
                crit.push(Flt::ids(0, None, None, Some(&id_str(&ctid_id(a)))));
            }
            for e in 1..=necu as u8 {
                crit.push(Flt::ids(0, Some(&id_str(&ecu_id(e))), None, None));
            }
            for _ in 0..4 {
                let mut f = Flt::new(0);
                if rng.chance(1, 2) {
                    f.apid = Some(Crit { text: gen_regex(rng, &universe(IdKind::Apid, necu)), flag: None });
                } else {
                    f.ctid = Some(Crit { text: gen_regex(rng, &universe(IdKind::Ctid, necu)), flag: None });
                }
                crit.push(f);
            }
            shuffle(rng, &mut crit);
            let mut take = |rng: &mut Rng, kind: u8, crit: &mut Vec<Flt>| -> Flt {
                let mut f = if rng.chance(1, 2) && !crit.is_empty() { crit.pop().unwrap() } else { gen_flt(rng, necu, kind, Front::Dlf) };
                f.kind = kind;
                f
            };
            match rng.below(5) {
                0 => {
                    // several negatives (each removes something else), sometimes a positive as well
                    for _ in 0..rng.range(2, 4) {
                        o.ffilters.push(take(rng, 1, &mut crit));
                    }
                    if rng.chance(1, 3) {
                        o.ffilters.push(take(rng, 0, &mut crit));
                    }
                }
                1 => {
                    // several positives
                    for _ in 0..rng.range(2, 4) {
                        o.ffilters.push(take(rng, 0, &mut crit));
                    }
                }
                2 | 3 => {
                    // positives and negatives together, markers and disabled ones in between
                    for _ in 0..rng.range(2, 4) {
                        let kind = match rng.below(7) {
                            0 | 1 | 2 => 1,
                            3 => 2,
                            _ => 0,
                        };
                        let mut f = take(rng, kind, &mut crit);
                        f.enabled = !rng.chance(1, 5);
                        o.ffilters.push(f);
                    }
                }
                _ => {
                    for _ in 0..rng.range(0, 2) {
                        let kind = rng.below(3) as u8;
                        let mut f = take(rng, kind, &mut crit);
                        f.enabled = !rng.chance(1, 4);
                        o.ffilters.push(f);
                    }
                }
            }
            shuffle(rng, &mut o.ffilters);
        }
        2 => {
            o.ffmt = 2;
            let k = rng.range(0, 3);
            for _ in 0..k {
                // "APID CTID " records; an id may be shorter than four characters or missing ("----" = four NUL bytes)
                let mut f = Flt::new(0);
                f.apid = if rng.chance(1, 5) { Some(Crit::lit("")) } else { Some(gen_crit(rng, IdKind::Apid, necu, Front::Conv)) };
                f.ctid = if rng.chance(1, 5) { Some(Crit::lit("")) } else { Some(gen_crit(rng, IdKind::Ctid, necu, Front::Conv)) };
                if rng.chance(1, 3) {
                    if let Some(g) = conv_record_of_input(rng, scn) {
                        f = g;
                    }
                }
                o.ffilters.push(f);
            }
        }
        _ => {}
    }
    if rng.chance(if o.ffmt != 0 { 3 } else { 2 }, 5) {
        let k = rng.range(1, 3);
        for _ in 0..k {
            o.eac.push(gen_flt(rng, necu, 0, Front::Eac));
        }
        o.eac_style = rng.below(3) as u8;
    } else {
        o.eac_style = rng.below(2) as u8;
    }
    o.sort = rng.chance(1, 4);
    o.style = rng.below(4) as u8;
    if depth == 0 && rng.chance(1, 8) {
        o.ft = Some(gen_ft(rng, None));
    }
    o.ofile = rng.chance(1, 2) || o.style == 0 || depth > 0;
    if o.ofile {
        o.pre = gen_pre(rng, scn, n as usize, nlc, lcs_ok, depth);
    }
    o
}

/// the state of the -o path before the run: absent, empty, junk of various lengths, a valid DLT file of other
/// messages, or the output of earlier runs (wider / narrower / differently sorted selections of the same input)
fn gen_pre(rng: &mut Rng, scn: &Scn, n: usize, nlc: u32, lcs_ok: bool, depth: u32) -> Pre {
    match rng.below(10) {
        0 | 1 | 2 => Pre::Absent,
        3 => Pre::Empty,
        4 => Pre::Junk(*rng.pick(&[1u32, 3, 16, 40, 200, 1_000, 5_000, 70_000]) + rng.below(7) as u32, rng.next()),
        5 => {
            let total = scn.msgs.len() as u64;
            if total == 0 {
                return Pre::Empty;
            }
            let k = match rng.below(3) {
                0 => rng.range(1, 3),
                1 => total,
                _ => 2 * total + rng.below(5),
            };
            Pre::Dlt((0..k).map(|_| rng.below(total) as u32).collect(), rng.chance(1, 3))
        }
        _ => {
            if depth >= 2 {
                return Pre::Absent;
            }
            let mut p = if rng.chance(1, 2) {
                // the whole input (the widest selection), sometimes time sorted
                let mut p = Opts::none(*rng.pick(&[0u8, 3]));
                p.sort = rng.chance(1, 4);
                p.ofile = true;
                if depth < 1 && rng.chance(1, 4) {
                    p.pre = gen_pre(rng, scn, n, nlc, lcs_ok, depth + 1);
                }
                p
            } else {
                gen_opts(rng, scn, n, nlc, lcs_ok, depth + 1)
            };
            p.ofile = true;
            Pre::Prev(Box::new(p))
        }
    }
}

fn shuffle<T>(rng: &mut Rng, v: &mut Vec<T>) {
    for i in (1..v.len()).rev() {
        let j = rng.below(i as u64 + 1) as usize;
        v.swap(i, j);
    }
}

// ------------------------------------------------------------------ corpus
/// four single-ECU files, first messages at distinct times, two later messages tie: the heap merge pops them in an
/// order that depends on the order in which the streams were pushed (the order of the file arguments before the fix)
fn corpus_tie() -> Scn {
    let mk = |ecu: u8, rt: u64, ts: u32, mcnt: u8| M { ecu, rt, ts, mcnt, ext: false, apid: 0, ctid: 0, boot: 0, fill: 0, creq: false, has_ts: true, lvl: 4, ft: 0 };
    let msgs = vec![
        mk(1, RHO + 100, 0, 0),
        mk(1, RHO + 300, 2, 1), // the tie: both second messages are received at the same time
        mk(2, RHO + 200, 0, 2),
        mk(2, RHO + 300, 1, 3),
        mk(3, RHO + 250, 0, 4),
        mk(4, RHO + 260, 0, 5),
    ];
    let f = |v: Vec<u32>| FileSpec { garbage: vec![vec![]; v.len() + 1], msgs: v, missing: false, pad: 0, padk: 0 };
    let s = Scn { msgs, files: vec![f(vec![0, 1]), f(vec![2, 3]), f(vec![4]), f(vec![5])] };
    s
}

/// odd files: 0 normal (ECU 1), 1 missing, 2 empty, 3 garbage only, 4 a message behind 530000 blanks (beyond the
/// 512 KiB convert scans: the file counts as one without DLT message), 5 normal (ECU 2)
fn corpus_odd() -> (Scn, Vec<Vec<usize>>) {
    let mk = |ecu: u8, rt: u64, ts: u32, mcnt: u8| M { ecu, rt, ts, mcnt, ext: true, apid: 1, ctid: 2, boot: 0, fill: 0, creq: false, has_ts: true, lvl: 4, ft: 0 };
    let msgs = vec![mk(1, RHO, 0, 0), mk(1, RHO + 1_000_000, 10_000, 1), mk(3, RHO + 500_000, 0, 2), mk(2, RHO + 700_000, 0, 3), mk(2, RHO + 900_000, 2_000, 4)];
    let f = |v: Vec<u32>, pad: u32| FileSpec { garbage: vec![vec![]; v.len() + 1], msgs: v, missing: false, pad, padk: 0 };
    let files = vec![
        f(vec![0, 1], 0),
        FileSpec { msgs: vec![], garbage: vec![vec![]], missing: true, pad: 0, padk: 0 },
        f(vec![], 0),
        FileSpec { msgs: vec![], garbage: vec![vec![1, 2, 3, b'D', b'L', b'T', 0, 0, 0, 0, 0, 0, 0, 0, 0, 0, 0, 0, 0, 0, 0, 0, 0, 0]], missing: false, pad: 0, padk: 0 },
        f(vec![2], 530_000),
        f(vec![3, 4], 17),
    ];
    let lists = vec![vec![1], vec![2], vec![3], vec![4], vec![1, 2], vec![1, 0], vec![5, 4, 3, 2, 1, 0], vec![4, 5], vec![0, 0, 5, 0]];
    (Scn { msgs, files }, lists)
}

/// a stream of two files (ECU 1: a1 at 5 s, a2 at 12 s) next to three other streams (ECU 2: 8 s; ECU 3: 3 s, 12 s;
/// ECU 4: 11 s).  ECU 1's and ECU 3's messages at 12 s tie.  If the streams are ordered by the first reception time
/// of the file that happens to be NAMED first (instead of the stream's earliest file), naming a2 before a1 changes
/// the order in which the streams enter the heap and the tie comes out the other way round.
fn corpus_stream_files() -> (Scn, Vec<Vec<usize>>) {
    let mk = |ecu: u8, t: u64, first: u64, mcnt: u8| M {
        ecu,
        rt: RHO + t * 1_000_000,
        ts: ((t - first) * 10_000) as u32,
        mcnt,
        ext: false,
        apid: 0,
        ctid: 0,
        boot: 0,
        fill: 0,
        creq: false,
        has_ts: true,
        lvl: 4, ft: 0
    };
    let msgs = vec![mk(1, 5, 5, 0), mk(1, 12, 5, 1), mk(2, 8, 8, 2), mk(3, 3, 3, 3), mk(3, 12, 3, 4), mk(4, 11, 11, 5)];
    let f = |v: Vec<u32>| FileSpec { garbage: vec![vec![]; v.len() + 1], msgs: v, missing: false, pad: 0, padk: 0 };
    let files = vec![f(vec![0]), f(vec![1]), f(vec![2]), f(vec![3, 4]), f(vec![5])];
    // chronological, a2 before a1, and more permutations (several name a2 first / before a1)
    let lists = vec![vec![0, 1, 2, 3, 4], vec![1, 0, 2, 3, 4], vec![4, 3, 2, 1, 0], vec![2, 1, 3, 0, 4], vec![3, 1, 4, 2, 0], vec![1, 2, 3, 4, 0], vec![0, 2, 3, 4, 1]];
    (Scn { msgs, files }, lists)
}

/// family aimed at the stream order: 4-6 single-ECU streams on a 1 s grid (first messages at distinct seconds, later
/// messages in a narrow range so that cross-stream ties are frequent), 1-2 of the streams split into 2-3 consecutive
/// files; argument lists: file-number order, chronological, reverse chronological (every stream's later files are
/// named first), and shuffles
fn gen_multi(rng: &mut Rng) -> (Scn, Vec<Vec<ArgSpec>>) {
    loop {
        let necu = rng.range(4, 6);
        let mut firsts: Vec<u64> = (0..necu).collect();
        shuffle(rng, &mut firsts);
        let width = rng.range(2, 5);
        let mut msgs: Vec<M> = vec![];
        let mut per_ecu: Vec<Vec<u32>> = vec![];
        for e in 0..necu {
            let n = rng.range(1, 5);
            let mut times = vec![firsts[e as usize]];
            let mut later: Vec<u64> = (1..n).map(|_| necu + rng.below(width)).collect();
            later.sort();
            times.extend(later);
            let mut uids = vec![];
            for (k, t) in times.iter().enumerate() {
                uids.push(msgs.len() as u32);
                let ext = rng.chance(1, 2);
                msgs.push(M {
                    ecu: e as u8 + 1,
                    rt: RHO + t * 1_000_000,
                    ts: ((t - times[0]) * 10_000) as u32,
                    mcnt: k as u8,
                    ext,
                    apid: if ext { rng.range(1, NIDS) as u8 } else { 0 },
                    ctid: if ext { rng.range(1, NIDS) as u8 } else { 0 },
                    boot: 0,
                    fill: 0,
                    creq: false,
                    has_ts: true,
                    lvl: rng.range(1, 6) as u8,
                    ft: 0,
                });
            }
            per_ecu.push(uids);
        }
        // split 1-2 streams with at least two messages into 2-3 consecutive files
        let mut files: Vec<Vec<u32>> = vec![];
        let splittable: Vec<usize> = (0..necu as usize).filter(|e| per_ecu[*e].len() >= 2).collect();
        if splittable.is_empty() {
            continue;
        }
        let mut split: BTreeSet<usize> = BTreeSet::new();
        split.insert(*rng.pick(&splittable));
        if rng.chance(1, 3) {
            split.insert(*rng.pick(&splittable));
        }
        for e in 0..necu as usize {
            let u = &per_ecu[e];
            if split.contains(&e) {
                let parts = if u.len() >= 3 && rng.chance(1, 2) { 3 } else { 2 };
                let mut cuts: BTreeSet<usize> = BTreeSet::new();
                while cuts.len() < parts - 1 {
                    cuts.insert(rng.range(1, u.len() as u64 - 1) as usize);
                }
                let mut start = 0;
                for c in cuts.iter().cloned().chain(std::iter::once(u.len())) {
                    files.push(u[start..c].to_vec());
                    start = c;
                }
            } else {
                files.push(u.clone());
            }
        }
        // the property's hypothesis: the files' first messages have distinct reception times
        let mut ft: Vec<u64> = files.iter().map(|f| msgs[f[0] as usize].rt).collect();
        ft.sort();
        if ft.windows(2).any(|w| w[0] == w[1]) {
            continue;
        }
        // file numbers in random order, so that the canonical (file-number) order is not the chronological one
        shuffle(rng, &mut files);
        let fs: Vec<FileSpec> = files.into_iter().map(|m| FileSpec { garbage: vec![vec![]; m.len() + 1], msgs: m, missing: false, pad: 0, padk: 0 }).collect();
        let scn = Scn { msgs, files: fs };
        let nf = scn.files.len();
        let base: Vec<ArgSpec> = (0..nf).map(|k| (k, false)).collect();
        let mut chrono = base.clone();
        chrono.sort_by_key(|a| scn.first_rt(a.0));
        let mut rev = chrono.clone();
        rev.reverse();
        let mut lists = vec![base.clone(), chrono, rev];
        for _ in 0..2 {
            let mut p = base.clone();
            shuffle(rng, &mut p);
            lists.push(p);
        }
        return (scn, lists);
    }
}

/// two ECUs, APIDs AP01 / AP02 / A3 and messages without extended header; option sets around "several negative
/// filters with different criteria" (a message matching ONE of them must go)
fn corpus_filters() -> (Scn, Vec<Opts>) {
    let mut msgs = vec![];
    for k in 0..12u32 {
        let ecu = (k % 2) as u8 + 1;
        let ext = k % 4 != 3;
        msgs.push(M {
            ecu,
            rt: RHO + k as u64 * 100_000,
            ts: (k / 2) * 2_000,
            mcnt: k as u8,
            ext,
            apid: if ext { (k % 3) as u8 + 1 } else { 0 },
            ctid: if ext { (k / 3 % 3) as u8 + 1 } else { 0 },
            boot: 0,
            fill: 0,
            creq: false,
            has_ts: true,
            lvl: (k % 6) as u8 + 1, ft: 0
        });
    }
    let f = |v: Vec<u32>| FileSpec { garbage: vec![vec![]; v.len() + 1], msgs: v, missing: false, pad: 0, padk: 0 };
    let scn = Scn { files: vec![f((0..12).filter(|k| k % 2 == 0).collect()), f((0..12).filter(|k| k % 2 == 1).collect())], msgs };
    let fl = |kind: u8, enabled: bool, ecu: Vec<u8>, apid: Option<u8>, ctid: Option<u8>| {
        let ecu: Vec<String> = ecu.iter().map(|e| id_str(&ecu_id(*e))).collect();
        let joined = ecu.join("|");
        let mut f = Flt::ids(kind, if ecu.is_empty() { None } else { Some(&joined) }, apid.map(|a| id_str(&apid_id(a))).as_deref(), ctid.map(|c| id_str(&ctid_id(c))).as_deref());
        f.enabled = enabled;
        f
    };
    let dlf = |fs: Vec<Flt>, style: u8, ofile: bool| {
        let mut o = Opts::none(style);
        o.ffmt = 1;
        o.ffilters = fs;
        o.ofile = ofile;
        o
    };
    let mut opts = vec![
        dlf(vec![fl(1, true, vec![], Some(1), None), fl(1, true, vec![], Some(2), None)], 3, false),
        dlf(vec![fl(1, true, vec![], Some(1), None), fl(1, true, vec![], Some(2), None), fl(1, true, vec![], Some(3), None)], 1, true),
        dlf(vec![fl(1, true, vec![], Some(1), None), fl(1, true, vec![], None, Some(2)), fl(1, true, vec![2], None, None)], 2, false),
        dlf(vec![fl(1, true, vec![], Some(1), None), fl(0, true, vec![1], None, None), fl(1, true, vec![], None, Some(3))], 3, true),
        dlf(vec![fl(1, true, vec![], Some(2), None), fl(1, false, vec![], Some(1), None), fl(2, true, vec![], Some(3), None), fl(1, true, vec![], None, Some(1))], 3, false),
        dlf(vec![fl(0, true, vec![], Some(1), None), fl(0, true, vec![], Some(2), None), fl(1, true, vec![], None, Some(2)), fl(1, true, vec![1], None, None)], 0, true),
    ];
    // the same with --eac expressions on top (one filter set)
    let mut o = opts[0].clone();
    o.eac = vec![fl(0, true, vec![1], None, None)];
    opts.push(o);
    let mut o = opts[2].clone();
    o.eac = vec![fl(0, true, vec![1, 2], None, Some(1)), fl(0, true, vec![], Some(3), None)];
    o.b = Some(2);
    o.e = Some(10);
    opts.push(o);
    (scn, opts)
}

/// the environment of the output side: one file of 10 messages; the -o path absent / empty / junk (shorter and longer
/// than what is written) / another DLT file / written before by a wider, a narrower, a sorted selection, two and three
/// times in a row
fn corpus_out_path() -> (Scn, Vec<Opts>) {
    let msgs: Vec<M> = (0..10u32)
        .map(|k| M { ecu: 1, rt: RHO + k as u64 * 50_000, ts: k * 500, mcnt: k as u8, ext: true, apid: (k % 3) as u8 + 1, ctid: 1, boot: 0, fill: if k == 7 { 300 } else { 0 }, creq: false, has_ts: true, lvl: 4, ft: 0 })
        .collect();
    let scn = Scn { files: vec![FileSpec { garbage: vec![vec![]; 11], msgs: (0..10).collect(), missing: false, pad: 0, padk: 0 }, FileSpec { msgs: vec![], garbage: vec![vec![]], missing: true, pad: 0, padk: 0 }], msgs };
    let win = |b: Option<u32>, e: Option<u32>, style: u8, pre: Pre| {
        let mut o = Opts::none(style);
        o.b = b;
        o.e = e;
        o.ofile = true;
        o.pre = pre;
        o
    };
    let all = |sort: bool| {
        let mut o = Opts::none(0);
        o.ofile = true;
        o.sort = sort;
        o
    };
    let apid = |a: u8, pre: Pre| {
        let mut o = Opts::none(3);
        o.eac = vec![Flt::ids(0, None, Some(&id_str(&apid_id(a))), None)];
        o.ofile = true;
        o.pre = pre;
        o
    };
    let opts = vec![
        win(Some(2), Some(5), 3, Pre::Absent),
        win(Some(2), Some(5), 3, Pre::Empty),
        win(Some(2), Some(5), 0, Pre::Prev(Box::new(all(false)))),
        win(Some(3), Some(3), 1, Pre::Prev(Box::new(all(true)))),
        apid(2, Pre::Prev(Box::new(win(Some(1), Some(8), 0, Pre::Absent)))),
        win(None, None, 0, Pre::Prev(Box::new(win(Some(4), Some(5), 3, Pre::Absent)))),
        win(Some(6), Some(6), 2, Pre::Prev(Box::new(win(Some(2), Some(7), 0, Pre::Prev(Box::new(all(false))))))),
        win(Some(0), Some(1), 3, Pre::Junk(5_000, 7)),
        win(Some(0), Some(8), 3, Pre::Junk(33, 8)),
        win(Some(9), Some(9), 0, Pre::Junk(5, 9)),
        apid(1, Pre::Dlt(vec![9, 8, 7, 6, 5, 4, 3, 2, 1, 0, 0, 1, 2], true)),
        apid(3, Pre::Dlt(vec![5], false)),
        win(Some(20), None, 3, Pre::Prev(Box::new(all(false)))), // selects nothing: the file must end up empty
        {
            let mut o = win(Some(1), Some(6), 3, Pre::Prev(Box::new(apid(1, Pre::Absent))));
            o.sort = true;
            o
        },
    ];
    (scn, opts)
}

/// id criteria that are expressions, on an input where every third message has no extended header: `--eac` and DLF
/// forms of ECU / APID / CTID alone and in pairs ("A|B", ".*X", anchored, classes), positive and negative, the DLF flags,
/// message type / log level criteria, over-long and short literals, dlt-convert format records
fn corpus_id_expressions() -> (Scn, Vec<Opts>) {
    let mut msgs = vec![];
    for k in 0..18u32 {
        let ext = k % 3 != 2;
        msgs.push(M {
            ecu: (k % 2) as u8 + 1,
            rt: RHO + k as u64 * 70_000,
            ts: (k / 2) * 1_400,
            mcnt: k as u8,
            ext,
            apid: if ext { (k % 4) as u8 + 1 } else { 0 },
            ctid: if ext { ((k / 2) % 4) as u8 + 1 } else { 0 },
            boot: 0,
            fill: 0,
            creq: k == 7,
            has_ts: true,
            lvl: (k % 6) as u8 + 1, ft: 0
        });
    }
    let f = |v: Vec<u32>| FileSpec { garbage: vec![vec![]; v.len() + 1], msgs: v, missing: false, pad: 0, padk: 0 };
    let scn = Scn { files: vec![f((0..18).filter(|k| k % 2 == 0).collect()), f((0..18).filter(|k| k % 2 == 1).collect())], msgs };
    let re = |t: &str, flag: Option<bool>| Some(Crit { text: t.to_string(), flag });
    let mk = |kind: u8, ecu: Option<Crit>, apid: Option<Crit>, ctid: Option<Crit>| {
        let mut f = Flt::new(kind);
        f.ecu = ecu;
        f.apid = apid;
        f.ctid = ctid;
        f
    };
    let mut opts = vec![];
    let eacs: Vec<Vec<Flt>> = vec![
        vec![mk(0, None, None, re("CT01|CT02", None))],
        vec![mk(0, re("EC02|EC01", None), None, re("^CT", None))],
        vec![mk(0, None, re("AP0[12]", None), None)],
        vec![mk(0, None, re(".*02", None), None)],
        vec![mk(0, re("^EC0[13]$", None), None, None)],
        vec![mk(0, re("EC01", None), re("A.*", None), None)],
        vec![mk(0, None, re("^A", None), re("02$", None))],
        vec![mk(0, re("EC0.", None), None, re("C3", None))],
        vec![mk(0, None, None, re("DT02", None)), mk(0, None, re("BP02", None), None), mk(0, re("EC02", None), None, re("CT0[^1]", None))],
        vec![mk(0, None, None, re("^C3$", None))],
        vec![mk(0, None, re("AP011", None), None)],
        vec![mk(0, None, None, re(".*", None))],
    ];
    for (i, e) in eacs.into_iter().enumerate() {
        let mut o = Opts::none(if i % 4 == 3 { 0 } else { 3 });
        o.eac = e;
        o.eac_style = (i % 3) as u8;
        o.ofile = i % 2 == 0 || o.style == 0;
        opts.push(o);
    }
    let lv = |kind: u8, ctrl: bool, lmin: Option<u8>, lmax: Option<u8>| {
        let mut f = Flt::new(kind);
        f.ctrl = ctrl;
        f.lmin = lmin;
        f.lmax = lmax;
        f
    };
    let dlfs: Vec<Vec<Flt>> = vec![
        vec![mk(0, None, None, re("CT0[12]", None))],
        vec![mk(1, None, None, re("C3|DT02", None))],
        vec![mk(1, None, re("P0", Some(true)), None)],
        vec![mk(0, None, re("AP0.", Some(false)), None)],
        vec![lv(0, false, Some(3), Some(5))],
        vec![lv(1, true, None, None)],
        vec![mk(0, re("EC01", None), None, re(".*2", None)), mk(1, None, re("^B", None), None)],
        vec![mk(0, None, None, re("^CT", Some(true))), mk(0, re("EC02", None), None, None)],
        vec![mk(1, None, None, re("CT01", Some(true))), mk(1, None, re("A3|AP01", None), None), lv(1, false, Some(6), None)],
        vec![mk(0, re("EC01|EC02", None), None, None)], // DLF ECU ids are literal: the first four bytes
    ];
    for (i, d) in dlfs.into_iter().enumerate() {
        let mut o = Opts::none(if i % 4 == 1 { 1 } else { 3 });
        o.ffmt = 1;
        o.ffilters = d;
        o.eac_style = (i % 2) as u8;
        o.ofile = i % 2 == 1;
        if i == 6 {
            o.eac = vec![mk(0, None, None, re("C3|CT01", None))];
        }
        opts.push(o);
    }
    let mut o = Opts::none(3);
    o.ffmt = 2;
    o.ffilters = vec![mk(0, None, re("AP01", None), re("CT01", None)), mk(0, None, re("A3", None), re("", None)), mk(0, None, re("AP0.", None), re("CT02", None)), mk(0, None, re("AP02", None), re("C3", None))];
    opts.push(o.clone());
    o.eac = vec![mk(0, None, None, re("CT0[34]|C3", None))];
    o.ofile = true;
    opts.push(o);
    (scn, opts)
}

/// family for `--sort`: traces in which an ECU is suspended and resumed (its timestamps go on, the reception times jump
/// by 15-40 s: the detector opens a "resume" lifecycle) and a later message with a smaller buffering delay moves the
/// start estimate of the resumed lifecycle BEFORE the start of the lifecycle it resumes; a second ECU runs in parallel.
/// There is no clean-boot ground truth for such traces (boot = u32::MAX): lifecycle ids come from the detector model.
fn gen_resume(rng: &mut Rng) -> Scn {
    let mut msgs: Vec<M> = vec![];
    let step = *rng.pick(&[100_000u64, 500_000, 1_000_000]);
    let mut push = |rng: &mut Rng, msgs: &mut Vec<M>, ecu: u8, rt: u64, ts_us: u64| {
        let ext = rng.chance(2, 3);
        msgs.push(M {
            ecu,
            rt,
            ts: (ts_us / 100) as u32,
            mcnt: (msgs.len() % 256) as u8,
            ext,
            apid: if ext { rng.range(1, NIDS) as u8 } else { 0 },
            ctid: if ext { rng.range(1, NIDS) as u8 } else { 0 },
            boot: u32::MAX,
            fill: 0,
            creq: false,
            has_ts: true,
            lvl: rng.range(1, 6) as u8,
            ft: 0,
        });
    };
    // ECU 1: first part of the lifecycle, start estimate T
    let t = RHO + rng.below(5) * step;
    let n1 = rng.range(3, 7);
    let mut ts = 0u64;
    for _ in 0..n1 {
        let jit = rng.below(3) * 1_000;
        push(rng, &mut msgs, 1, t + ts + jit, ts);
        ts += rng.range(1, 3) * step;
    }
    // suspended: reception times jump, timestamps go on
    let gap = rng.range(15, 40) * 1_000_000;
    let n2 = rng.range(2, 6);
    for _ in 0..n2 {
        let jit = rng.below(3) * 1_000;
        push(rng, &mut msgs, 1, t + gap + ts + jit, ts);
        ts += rng.range(1, 3) * step;
    }
    // messages with a much larger timestamp and a smaller delay: start estimate = rt - ts moves before T
    if rng.chance(4, 5) {
        let back = rng.range(1, 20) * 1_000_000 + rng.below(1_000_000);
        let last_rt = t + gap + ts;
        let n3 = rng.range(1, 4);
        for k in 0..n3 {
            let rt = last_rt + k * step;
            push(rng, &mut msgs, 1, rt, rt - t + back); // rt - timestamp = T - back
        }
    }
    // ECU 2 in parallel, sometimes rebooting in between
    let t2 = t + rng.below(10) * step;
    let total = msgs.last().unwrap().rt - t;
    let n = rng.range(3, 9);
    let mut boot_at = t2;
    for k in 0..n {
        let rt = t2 + total * k / n + rng.below(1_000);
        if rng.chance(1, 6) {
            boot_at = rt;
        }
        push(rng, &mut msgs, 2, rt, rt - boot_at);
    }
    // file order = reception order per ECU; one file per ECU or one for both
    let mut order: Vec<u32> = (0..msgs.len() as u32).collect();
    order.sort_by_key(|u| (msgs[*u as usize].rt, *u));
    let mut used: BTreeSet<(u8, u32, u8)> = BTreeSet::new();
    for m in msgs.iter_mut() {
        while used.contains(&(m.ecu, m.ts, m.mcnt)) {
            m.mcnt = m.mcnt.wrapping_add(1);
        }
        used.insert((m.ecu, m.ts, m.mcnt));
    }
    let f = |v: Vec<u32>| FileSpec { garbage: vec![vec![]; v.len() + 1], msgs: v, missing: false, pad: 0, padk: 0 };
    let files = if rng.chance(1, 2) {
        vec![f(order)]
    } else {
        vec![f(order.iter().cloned().filter(|u| msgs[*u as usize].ecu == 1).collect()), f(order.iter().cloned().filter(|u| msgs[*u as usize].ecu == 2).collect())]
    };
    Scn { msgs, files }
}

/// family aimed at the per-stream sort + de-duplication: a stream (one ECU set) of 2-3 DIFFERENT files whose first
/// messages have exactly the same reception time (a logger with coarse time stamps rotating its file, two channels
/// started by the same trigger), optionally one more stream; argument lists also name a file twice (that copy, and only
/// that, must be dropped).  First reception times tie, so nothing is said about the order of the arguments; every file
/// must still come out completely, in its order.
fn gen_tied(rng: &mut Rng) -> (Scn, Vec<Vec<ArgSpec>>) {
    let nset = rng.range(1, 2) as u8; // ECUs of the tied stream
    let grid = *rng.pick(&[1_000u64, 100_000, 1_000_000]);
    let nf = rng.range(2, 3) as usize;
    let t0 = RHO + rng.below(4) * grid;
    let mut msgs: Vec<M> = vec![];
    let mut files: Vec<Vec<u32>> = vec![];
    let mk = |rng: &mut Rng, msgs: &mut Vec<M>, ecu: u8, rt: u64, boot_t: u64| -> u32 {
        let ext = rng.chance(3, 4);
        msgs.push(M {
            ecu,
            rt,
            ts: ((rt - boot_t) / 100) as u32,
            mcnt: (msgs.len() % 256) as u8,
            ext,
            apid: if ext { rng.range(1, NIDS) as u8 } else { 0 },
            ctid: if ext { rng.range(1, NIDS) as u8 } else { 0 },
            boot: 0,
            fill: 0,
            creq: false,
            has_ts: true,
            lvl: rng.range(1, 6) as u8,
            ft: 0,
        });
        msgs.len() as u32 - 1
    };
    for _ in 0..nf {
        let mut f = vec![];
        // every ECU of the set at the shared first time (so that all files have the same ECU set), then some more
        let mut rt = t0;
        for e in 1..=nset {
            f.push(mk(rng, &mut msgs, e, rt, t0));
        }
        for _ in 0..rng.range(0, 4) {
            rt += rng.below(3) * grid;
            let e = rng.range(1, nset as u64) as u8;
            f.push(mk(rng, &mut msgs, e, rt, t0));
        }
        files.push(f);
    }
    if rng.chance(1, 2) {
        // another stream
        let e = nset + 1;
        let t1 = t0 + rng.below(3) * grid + 17;
        let mut f = vec![];
        let mut rt = t1;
        for _ in 0..rng.range(1, 4) {
            f.push(mk(rng, &mut msgs, e, rt, t1));
            rt += rng.range(1, 2) * grid;
        }
        files.push(f);
    }
    let fs: Vec<FileSpec> = files.into_iter().map(|m| FileSpec { garbage: vec![vec![]; m.len() + 1], msgs: m, missing: false, pad: 0, padk: 0 }).collect();
    let scn = Scn { msgs, files: fs };
    let base: Vec<ArgSpec> = (0..scn.files.len()).map(|k| (k, false)).collect();
    let mut rev = base.clone();
    rev.reverse();
    let mut twice = base.clone();
    shuffle(rng, &mut twice);
    let k = rng.below(nf as u64) as usize;
    let at = rng.below(twice.len() as u64 + 1) as usize;
    twice.insert(at, (k, rng.chance(1, 2)));
    (scn, vec![base, rev, twice])
}

/// size of the frame `to_write` produces for a message
fn frame_len(m: &M) -> usize {
    let mut one = vec![];
    m.build(0).to_write(&mut one).unwrap();
    one.len()
}
/// moves file `k` (by leading garbage) so that its message number `idx` ends exactly `delta` bytes after the end of the
/// scanned range (delta <= 0: the message is the last one inside the range; delta > 0: it is cut by / behind the range)
fn align_to_scan(scn: &mut Scn, k: usize, idx: usize, delta: i64) -> bool {
    scn.files[k].pad = 0;
    let mut end = 0usize;
    for i in 0..=idx {
        end += scn.files[k].garbage[i].len() + frame_len(&scn.msgs[scn.files[k].msgs[i] as usize]);
    }
    let want = SCAN as i64 + delta;
    if (end as i64) > want {
        return false;
    }
    scn.files[k].pad = (want - end as i64) as u32;
    true
}

/// family aimed at the classification of the input files by their ECU sets (class of seeded C14-7 / C09-7): 2-4 files
/// that overlap in reception time; one file has only the base ECUs, the others differ from it by ONE message of another
/// ECU - as first, as last, as a middle message, within the first 8 KiB / 64 KiB / just inside / just behind the 512 KiB
/// the probe looks at -, or consist of a single message, or start with the only message of one of the base ECUs.
/// Shapes: 0 plain, 1 extra ECU first, 2 extra ECU last, 3 extra ECU in the middle, 4 single message, 5 first message is
/// the only one of a base ECU, 6 [extra, base] (two messages), 7 extra ECU first and again later (control).
/// `late`: 0 all messages small, 1 the extra message lies behind 8 KiB, 2 behind 64 KiB, 3 is the last message inside the
/// 512 KiB, 4 is cut by the end of the 512 KiB (structurally: earlier messages carry large payloads, `pad` aligns).
fn gen_ecu_edges(rng: &mut Rng, force: Option<(u8, u8)>) -> (Scn, Vec<Vec<ArgSpec>>) {
    loop {
        let ns = if rng.chance(2, 3) { 1u8 } else { 2 };
        let nf = rng.range(2, 4) as usize;
        let mut shapes: Vec<(u8, u8)> = vec![(0, 0)];
        for i in 1..nf {
            let sh = match (i, force) {
                (1, Some(f)) => f,
                _ => {
                    let sh = *rng.pick(&[0u8, 1, 1, 1, 2, 2, 3, 4, 4, 5, 6, 7]);
                    let late = if (sh == 2 || sh == 3) && rng.chance(1, 4) { rng.range(1, 2) as u8 } else { 0 };
                    (sh, late)
                }
            };
            shapes.push(if sh.0 == 5 && ns < 2 { (1, 0) } else { sh });
        }
        // ECU sequence of every file
        let extra = |rng: &mut Rng| ns + 1 + rng.below(2) as u8;
        let base = |rng: &mut Rng| rng.range(1, ns as u64) as u8;
        let mut ecus: Vec<Vec<u8>> = vec![];
        let mut big_at: Vec<Option<(usize, usize)>> = vec![]; // (index of the message behind the large ones, number of large messages)
        for (sh, late) in &shapes {
            let mut plain: Vec<u8> = vec![];
            for e in 1..=ns {
                plain.push(e);
                plain.push(e);
            }
            for _ in 0..rng.below(3) {
                plain.push(base(rng));
            }
            shuffle(rng, &mut plain);
            let mut v = match sh {
                0 => plain,
                1 => {
                    let mut v = vec![extra(rng)];
                    v.extend(plain);
                    v
                }
                2 => {
                    plain.push(extra(rng));
                    plain
                }
                3 => {
                    let at = rng.range(1, plain.len() as u64 - 1) as usize;
                    plain.insert(at, extra(rng));
                    plain
                }
                4 => vec![base(rng)],
                5 => {
                    let mut v = vec![1u8];
                    v.extend(std::iter::repeat(2u8).take(rng.range(2, 4) as usize));
                    v
                }
                6 => vec![extra(rng), base(rng)],
                _ => {
                    let x = extra(rng);
                    let mut v = vec![x];
                    v.extend(plain);
                    let at = rng.range(2, v.len() as u64) as usize;
                    v.insert(at, x);
                    v
                }
            };
            let mut big = None;
            if *late > 0 && (*sh == 2 || *sh == 3) {
                // large messages of base ECUs in front of the extra one
                let x = v.iter().position(|e| *e > ns).unwrap();
                let nbig = match late {
                    1 => 1,
                    2 => 2,
                    _ => 8,
                };
                let mut w: Vec<u8> = v[..x].to_vec();
                while w.len() < nbig + 1 {
                    w.push(base(rng));
                }
                let at = w.len();
                w.extend_from_slice(&v[x..]);
                v = w;
                big = Some((at, nbig));
            }
            ecus.push(v);
            big_at.push(big);
        }
        // reception times: a random interleaving of the files (per-file order kept), on a grid, some ties
        let grid = *rng.pick(&[1_000u64, 100_000, 1_000_000]);
        let mut next: Vec<usize> = vec![0; nf];
        let mut t = RHO + rng.below(3) * grid;
        let mut msgs: Vec<M> = vec![];
        let mut files: Vec<Vec<u32>> = vec![vec![]; nf];
        let boot_t = RHO;
        loop {
            let cand: Vec<usize> = (0..nf).filter(|k| next[*k] < ecus[*k].len()).collect();
            if cand.is_empty() {
                break;
            }
            let k = *rng.pick(&cand);
            // a file's first message at a time of its own (the property's hypothesis), later ones may tie
            if next[k] == 0 || !rng.chance(1, 5) {
                t += rng.range(1, 3) * grid;
            }
            let ext = rng.chance(2, 3);
            files[k].push(msgs.len() as u32);
            msgs.push(M {
                ecu: ecus[k][next[k]],
                rt: t,
                ts: ((t - boot_t) / 100) as u32,
                mcnt: (msgs.len() % 256) as u8,
                ext,
                apid: if ext { rng.range(1, NIDS) as u8 } else { 0 },
                ctid: if ext { rng.range(1, NIDS) as u8 } else { 0 },
                boot: u32::MAX, // chained files overlap in time: no clean-boot ground truth, the detector model is compared
                fill: 0,
                creq: false,
                has_ts: true,
                lvl: rng.range(1, 6) as u8,
                ft: 0,
            });
            next[k] += 1;
        }
        let mut fs: Vec<FileSpec> = files
            .into_iter()
            .map(|m| {
                let g = rng.chance(1, 4);
                FileSpec { garbage: (0..=m.len()).map(|_| if g && rng.chance(1, 3) { gen_garbage(rng, 12) } else { vec![] }).collect(), msgs: m, missing: false, pad: 0, padk: 0 }
            })
            .collect();
        for k in 0..nf {
            if let Some((at, nbig)) = big_at[k] {
                let fill = match shapes[k].1 {
                    1 => rng.range(8_200, 30_000),
                    2 => rng.range(33_000, 65_000),
                    _ => 65_000,
                } as u32;
                for i in at - nbig..at {
                    msgs[fs[k].msgs[i] as usize].fill = fill;
                }
                fs[k].padk = rng.below(4) as u8;
            }
        }
        let mut scn = Scn { msgs, files: fs };
        let mut ok = true;
        for k in 0..nf {
            if let Some((at, _)) = big_at[k] {
                if shapes[k].1 >= 3 {
                    let delta = if shapes[k].1 == 3 { 0 } else { rng.range(1, 30) as i64 };
                    ok &= align_to_scan(&mut scn, k, at, delta);
                }
            }
        }
        if !ok {
            continue;
        }
        // files overlap in time (else chaining and merging give the same sequence)
        let span = |k: usize| (scn.msgs[scn.files[k].msgs[0] as usize].rt, scn.msgs[*scn.files[k].msgs.last().unwrap() as usize].rt);
        if !(0..nf).any(|a| (0..nf).any(|b| a != b && span(a).0 < span(b).0 && span(b).0 < span(a).1)) {
            continue;
        }
        let base: Vec<ArgSpec> = (0..nf).map(|k| (k, false)).collect();
        let mut other = base.clone();
        other.reverse();
        if nf > 2 && rng.chance(1, 2) {
            shuffle(rng, &mut other);
        }
        return (scn, vec![base, other]);
    }
}

/// family aimed at the probe every input file goes through (class of seeded C01-7): the first message may lie anywhere in
/// the first 512 KiB and may be as large as a DLT message can be.  Per file: leading garbage (blanks / marker prefixes /
/// random bytes) and a first message of sizes around 8 KiB, 64 KiB, 512 KiB (`class`), then 1-4 ordinary messages.
/// Classes: 0-3 garbage around 8 KiB, 4-5 around 64 KiB, 6 random up to 500 KB, 7 the first message ends exactly at the
/// end of the 512 KiB, 8 it is cut by it (the documented limit: "doesn't contain a DLT message in first 0.5MB"), 9-11 first
/// message of 8 KiB / 20-40 KB / near maximum size at offset 0, 12 garbage + message together just above 8 KiB, 13 nothing
/// special (control).
const PROBE_CLASSES: u64 = 14;
fn gen_probe_edges(rng: &mut Rng, class0: u64) -> Scn {
    let nf = *rng.pick(&[1usize, 1, 2, 2, 3]);
    let necu = rng.range(1, 2) as u8;
    let grid = *rng.pick(&[1_000u64, 100_000]);
    let mut msgs: Vec<M> = vec![];
    let mut fs: Vec<FileSpec> = vec![];
    let same_set = rng.chance(1, 2);
    let mut t = RHO;
    let mut aligns: Vec<(usize, i64)> = vec![];
    for k in 0..nf {
        let class = if k == 0 { class0 } else { rng.below(PROBE_CLASSES) };
        let n = rng.range(2, 5) as usize;
        let e0 = if same_set { 1 } else { (k as u8 % necu) + 1 };
        let mut uids = vec![];
        // consecutive files (a rotating logger) or overlapping ones
        if rng.chance(1, 2) {
            t = RHO + rng.below(5) * grid + k as u64 * 7;
        }
        for i in 0..n {
            t += rng.range(1, 3) * grid;
            let ext = rng.chance(2, 3);
            uids.push(msgs.len() as u32);
            msgs.push(M {
                ecu: if same_set && necu == 2 && i % 2 == 1 { 2 } else { e0 },
                rt: t,
                ts: ((t - RHO) / 100) as u32,
                mcnt: (msgs.len() % 256) as u8,
                ext,
                apid: if ext { rng.range(1, NIDS) as u8 } else { 0 },
                ctid: if ext { rng.range(1, NIDS) as u8 } else { 0 },
                boot: u32::MAX,
                fill: 0,
                creq: false,
                has_ts: true,
                lvl: rng.range(1, 6) as u8,
                ft: 0,
            });
        }
        let first = uids[0] as usize;
        let mut pad = 0u64;
        match class {
            0 => pad = 8192 - rng.below(60),
            1 => pad = 8192 + rng.below(60),
            2 => pad = 8192 - rng.below(17), // the storage header starts inside the first 8 KiB
            3 => pad = rng.range(8_300, 20_000),
            4 => pad = 65_536 - 30 + rng.below(60),
            5 => pad = rng.range(66_000, 140_000),
            6 => pad = 1 << rng.range(0, 18),
            7 => aligns.push((k, 0)),
            8 => aligns.push((k, rng.range(1, 40) as i64)),
            9 => msgs[first].fill = rng.range(8_100, 8_300) as u32,
            10 => msgs[first].fill = rng.range(20_000, 40_000) as u32,
            11 => msgs[first].fill = 65_490 - rng.below(40) as u32,
            12 => {
                msgs[first].fill = rng.range(3_000, 5_000) as u32;
                pad = 8_200 - msgs[first].fill as u64 - rng.below(60);
            }
            _ => pad = rng.below(30),
        }
        let g = rng.chance(1, 3);
        fs.push(FileSpec {
            garbage: (0..=n).map(|i| if g && i > 0 && rng.chance(1, 3) { gen_garbage(rng, 12) } else { vec![] }).collect(),
            msgs: uids,
            missing: false,
            pad: pad as u32,
            padk: rng.below(5) as u8,
        });
    }
    let mut scn = Scn { msgs, files: fs };
    for (k, d) in aligns {
        assert!(align_to_scan(&mut scn, k, 0, d));
    }
    scn
}

/// family for `--file_transfer`: one or two files with 1-2 file transfers (FLST, 1-3 FLDA packages, FLFI; verbose
/// messages of one APID / CTID) between ordinary messages
fn gen_ft_scn(rng: &mut Rng) -> (Scn, (u8, u8)) {
    let grid = *rng.pick(&[1_000u64, 100_000]);
    let (fa, fc) = (rng.range(1, NIDS) as u8, rng.range(1, NIDS) as u8);
    let nf = rng.range(1, 2) as usize;
    let mut msgs: Vec<M> = vec![];
    let mut files: Vec<Vec<u32>> = vec![vec![]; nf];
    let mut t = RHO;
    let mut serial = rng.below(50) as u32;
    let mut plan: Vec<(u8, u32)> = vec![]; // (ft kind, fill)
    for _ in 0..rng.range(1, 2) {
        for _ in 0..rng.below(3) {
            plan.push((0, 0));
        }
        serial += 1;
        let n = rng.range(1, 3) as u32;
        plan.push((1, serial * 8 + n - 1));
        for k in 0..n {
            if rng.chance(1, 3) {
                plan.push((0, 0));
            }
            plan.push((2, serial * 8 + k));
        }
        plan.push((3, serial * 8));
    }
    for _ in 0..rng.range(1, 3) {
        plan.push((0, 0));
    }
    for (ft, fill) in plan {
        t += rng.range(1, 3) * grid;
        let k = rng.below(nf as u64) as usize;
        let ext = ft != 0 || rng.chance(2, 3);
        files[k].push(msgs.len() as u32);
        msgs.push(M {
            ecu: k as u8 + 1,
            rt: t,
            ts: ((t - RHO) / 100) as u32,
            mcnt: (msgs.len() % 256) as u8,
            ext,
            apid: if ft != 0 { fa } else if ext { rng.range(1, NIDS) as u8 } else { 0 },
            ctid: if ft != 0 { fc } else if ext { rng.range(1, NIDS) as u8 } else { 0 },
            boot: 0,
            fill,
            creq: false,
            has_ts: true,
            lvl: if ft != 0 { 4 } else { rng.range(1, 6) as u8 },
            ft,
        });
    }
    let fs: Vec<FileSpec> = files.into_iter().filter(|m| !m.is_empty()).map(|m| FileSpec { garbage: vec![vec![]; m.len() + 1], msgs: m, missing: false, pad: 0, padk: 0 }).collect();
    (Scn { msgs, files: fs }, (fa, fc))
}
fn gen_ft(rng: &mut Rng, ids: Option<(u8, u8)>) -> Ft {
    let id = |rng: &mut Rng, own: Option<u8>, apid: bool| -> Option<String> {
        match rng.below(4) {
            0 => None,
            1 => Some(id_str(&if apid { apid_id(rng.range(1, NIDS) as u8) } else { ctid_id(rng.range(1, NIDS) as u8) })),
            _ => Some(id_str(&match (own, apid) {
                (Some(a), true) => apid_id(a),
                (Some(c), false) => ctid_id(c),
                (None, true) => apid_id(1),
                (None, false) => ctid_id(1),
            })),
        }
    };
    Ft { glob: (*rng.pick(&["*.bin", "*", "nomatch*.txt", "f1*"])).to_string(), apid: id(rng, ids.map(|x| x.0), true), ctid: id(rng, ids.map(|x| x.1), false) }
}

/// `-f <file>` (both formats; at least one enabled positive or negative filter) TOGETHER with one or several `-F`/`--eac`
/// expressions: the two sources form ONE filter set (the file's negatives veto what the expressions select, its positives
/// are alternatives to them)
fn gen_opts_ff(rng: &mut Rng, scn: &Scn, n: usize, variant: u64) -> Opts {
    let necu = scn.msgs.iter().map(|m| m.ecu).max().unwrap_or(1) as u64;
    let mut o = Opts::none(*rng.pick(&[1u8, 2, 3, 3, 0]));
    if variant % 2 == 0 {
        o.ffmt = 1;
        let k = rng.range(1, 3);
        for i in 0..k {
            let kind = match (variant / 2 % 3, i) {
                (0, _) => 1,          // negatives only
                (1, _) => 0,          // positives only
                (_, 0) => 1,
                _ => *rng.pick(&[0u8, 0, 1, 2]),
            };
            let mut f = if rng.chance(1, 2) {
                // a single literal criterion on an id that occurs: the filter matches part of the input
                match rng.below(3) {
                    0 => Flt::ids(kind, None, Some(&id_str(&apid_id(rng.range(1, NIDS) as u8))), None),
                    1 => Flt::ids(kind, None, None, Some(&id_str(&ctid_id(rng.range(1, NIDS) as u8)))),
                    _ => Flt::ids(kind, Some(&id_str(&ecu_id(rng.range(1, necu) as u8))), None, None),
                }
            } else {
                gen_flt(rng, necu, kind, Front::Dlf)
            };
            f.kind = kind;
            f.enabled = i == 0 || !rng.chance(1, 6);
            o.ffilters.push(f);
        }
    } else {
        o.ffmt = 2;
        for _ in 0..rng.range(1, 3) {
            let mut f = Flt::new(0);
            f.apid = if rng.chance(1, 6) { Some(Crit::lit("")) } else { Some(gen_crit(rng, IdKind::Apid, necu, Front::Conv)) };
            f.ctid = if rng.chance(1, 6) { Some(Crit::lit("")) } else { Some(gen_crit(rng, IdKind::Ctid, necu, Front::Conv)) };
            if rng.chance(1, 2) {
                if let Some(g) = conv_record_of_input(rng, scn) {
                    f = g;
                }
            }
            o.ffilters.push(f);
        }
    }
    for _ in 0..*rng.pick(&[1u64, 1, 2, 3]) {
        let f = if rng.chance(1, 2) {
            match rng.below(3) {
                0 => Flt::ids(0, Some(&id_str(&ecu_id(rng.range(1, necu) as u8))), None, None),
                1 => Flt::ids(0, None, Some(&id_str(&apid_id(rng.range(1, NIDS) as u8))), None),
                _ => Flt::ids(0, None, None, Some(&id_str(&ctid_id(rng.range(1, NIDS) as u8)))),
            }
        } else {
            gen_flt(rng, necu, 0, Front::Eac)
        };
        o.eac.push(f);
    }
    o.eac_style = rng.below(3) as u8;
    if rng.chance(1, 4) {
        o.b = Some(rng.below(n as u64 / 2 + 1) as u32);
    }
    if rng.chance(1, 4) {
        o.e = Some((n as u64 / 2 + rng.below(n as u64 / 2 + 1)) as u32);
    }
    o.sort = rng.chance(1, 6);
    o.ofile = o.style == 0 || rng.chance(1, 3);
    o
}

/// hand-made inputs for the classification of the files by ECU set.  f0 = ECU 1 at 1, 3, 5 s; f1 = ECU 2 at 2 s, then
/// ECU 1 at 4, 6 s (its first message is the only one of ECU 2: set {1, 2}, merged with f0 by time); f2 = ONE message of
/// ECU 1 at 5.5 s and f3 = ECU 1 at 1.5, 3.5, 7 s (same set as f0: chained by first reception time although they overlap);
/// f4 = ECU 1 at 2.5, 4.5 s, then ECU 3 at 6.5 s (extra ECU last); f5 = ECU 1 at 0.5 s, ECU 2 at 0.7 s (same set as f1).
fn corpus_ecu_sets(w: &mut World, plans: &mut Vec<Plan>) {
    let mut msgs: Vec<M> = vec![];
    let mut files: Vec<Vec<u32>> = vec![];
    for f in [
        vec![(1u8, 10u64), (1, 30), (1, 50)],
        vec![(2, 20), (1, 40), (1, 60)],
        vec![(1, 55)],
        vec![(1, 15), (1, 35), (1, 70)],
        vec![(1, 25), (1, 45), (3, 65)],
        vec![(1, 5), (2, 7)],
    ] {
        let mut v = vec![];
        for (ecu, ds) in f {
            v.push(msgs.len() as u32);
            let k = msgs.len() as u32;
            msgs.push(M { ecu, rt: RHO + ds * 100_000, ts: (ds * 1_000) as u32, mcnt: k as u8, ext: k % 3 != 0, apid: if k % 3 != 0 { (k % 4) as u8 + 1 } else { 0 }, ctid: if k % 3 != 0 { 1 } else { 0 }, boot: u32::MAX, fill: 0, creq: false, has_ts: true, lvl: 4, ft: 0 });
        }
        files.push(v);
    }
    let scn = Scn { msgs, files: files.into_iter().map(|m| FileSpec { garbage: vec![vec![]; m.len() + 1], msgs: m, missing: false, pad: 0, padk: 0 }).collect() };
    let no = w.scns.len();
    scn.write_files(&w.root.join(format!("s{}", no)));
    w.scns.push(scn);
    for (i, l) in [vec![0usize, 1], vec![1, 0], vec![2, 3], vec![3, 2], vec![0, 4], vec![4, 1, 0], vec![0, 2, 3], vec![5, 1], vec![5, 4, 3, 2, 1, 0]].into_iter().enumerate() {
        let args: Vec<ArgSpec> = l.iter().map(|k| (*k, false)).collect();
        plans.push(Plan { scn: no, args: args.clone(), opts: Opts::none(3), tags: vec!["corpus_ecu_sets"] });
        let mut o = Opts::none(if i % 2 == 0 { 3 } else { 0 });
        o.b = Some(1);
        o.e = Some(2 + (i as u32) / 4);
        o.ofile = true;
        if i % 3 == 2 {
            o.eac = vec![Flt::ids(0, Some("EC01"), None, None)];
        }
        plans.push(Plan { scn: no, args, opts: o, tags: vec!["corpus_ecu_sets"] });
    }
}

fn perms4() -> Vec<Vec<usize>> {
    let mut out = vec![];
    for a in 0..4 {
        for b in 0..4 {
            for c in 0..4 {
                for d in 0..4 {
                    let v = vec![a, b, c, d];
                    let s: BTreeSet<usize> = v.iter().cloned().collect();
                    if s.len() == 4 {
                        out.push(v);
                    }
                }
            }
        }
    }
    out
}

struct Plan {
    scn: usize,
    args: Vec<ArgSpec>,
    opts: Opts,
    tags: Vec<&'static str>,
}

fn main() {
    let a = parse_args();
    let mut sink = Sink::new("C14", &a.out);
    let root = tempfile::Builder::new().prefix("c14_").tempdir().unwrap();
    let mut w = World { root: root.path().to_path_buf(), scns: vec![], results: HashMap::new(), invocations: 0 };
    let par = std::thread::available_parallelism().map(|n| n.get()).unwrap_or(4).min(8);

    if let Some(p) = &a.replay {
        let v = read_replay(p);
        let c = &v["case"];
        let scn = Scn::from_json(&c["scn"]);
        scn.write_files(&w.root.join("s0"));
        w.scns.push(scn);
        let args: Vec<ArgSpec> = c["args"].as_array().unwrap().iter().map(|x| (x[0].as_u64().unwrap() as usize, x[1].as_bool().unwrap())).collect();
        let o = Opts::from_json(&c["opts"]);
        w.run_jobs(jobs_for(0, &args, &o), par);
        record(&mut sink, &w, 0, &args, &o, &["replay"]);
        sink.finish();
        return;
    }

    if a.tier == "search" {
        // looking for ONE failing input: rounds of the size of a quick run (without the corpus) under fresh seeds, stop at
        // the first round in which the oracle fails
        let (mut inv, mut scns) = (0, 0);
        for r in 0..6u64 {
            let (i, n) = run_round(&mut sink, "quick", a.seed.wrapping_mul(1_000_003).wrapping_add(r), a.count, r == 0, par);
            inv += i;
            scns += n;
            if sink.cases.iter().any(|c| matches!(c.verdict, Verdict::Fail { .. })) {
                break;
            }
        }
        sink.extra_stats.insert("invocations".into(), json!(inv));
        sink.extra_stats.insert("scenarios".into(), json!(scns));
        sink.finish();
        return;
    }
    let (inv, scns) = run_round(&mut sink, &a.tier, a.seed, a.count, true, par);
    sink.extra_stats.insert("invocations".into(), json!(inv));
    sink.extra_stats.insert("scenarios".into(), json!(scns));
    sink.finish();
}

/// one complete plan: corpus (optional), the general scenarios and the families; returns (process runs, scenarios)
fn run_round(sink: &mut Sink, tier: &str, seed: u64, count: Option<u64>, corpus: bool, par: usize) -> (u64, usize) {
    let root = tempfile::Builder::new().prefix("c14_").tempdir().unwrap();
    let mut w = World { root: root.path().to_path_buf(), scns: vec![], results: HashMap::new(), invocations: 0 };
    let mut plans: Vec<Plan> = vec![];
    if corpus {
        corpus_plans(&mut w, &mut plans, tier);
    }
    generated_plans(&mut w, &mut plans, tier, seed, count, par);
    let mut jobs = vec![];
    for p in &plans {
        jobs.extend(jobs_for(p.scn, &p.args, &p.opts));
    }
    w.run_jobs(jobs, par);
    for p in &plans {
        record(sink, &w, p.scn, &p.args, &p.opts, &p.tags);
    }
    (w.invocations, w.scns.len())
}

fn corpus_plans(w: &mut World, plans: &mut Vec<Plan>, tier: &str) {
    // ---- corpus: the tie witness under several argument orders
    {
        let scn = corpus_tie();
        scn.write_files(&w.root.join("s0"));
        w.scns.push(scn);
        for (i, p) in perms4().into_iter().enumerate() {
            if tier == "quick" && i % 4 != 1 && i != 0 {
                continue;
            }
            plans.push(Plan { scn: 0, args: p.iter().map(|k| (*k, false)).collect(), opts: Opts::none(3), tags: vec!["corpus_tie"] });
        }
    }
    {
        let (scn, lists) = corpus_odd();
        let no = w.scns.len();
        scn.write_files(&w.root.join(format!("s{}", no)));
        w.scns.push(scn);
        for (i, l) in lists.into_iter().enumerate() {
            let mut o = Opts::none(if i % 2 == 0 { 3 } else { 0 });
            o.ofile = i % 3 != 0;
            if i == 6 {
                o.eac = vec![Flt::ids(0, Some("EC02|EC03"), Some("AP01"), None)];
                o.b = Some(1);
            }
            plans.push(Plan { scn: no, args: l.iter().map(|k| (*k, false)).collect(), opts: o, tags: vec!["corpus_odd_files"] });
        }
    }
    {
        let (scn, opts) = corpus_out_path();
        let no = w.scns.len();
        scn.write_files(&w.root.join(format!("s{}", no)));
        w.scns.push(scn);
        for o in opts {
            plans.push(Plan { scn: no, args: vec![(0, false)], opts: o, tags: vec!["corpus_out_path"] });
        }
        // no file can be opened: the run fails and must leave the path alone
        let mut o = Opts::none(3);
        o.ofile = true;
        o.pre = Pre::Junk(100, 3);
        plans.push(Plan { scn: no, args: vec![(1, false)], opts: o, tags: vec!["corpus_out_path"] });
    }
    {
        let (scn, opts) = corpus_filters();
        let no = w.scns.len();
        scn.write_files(&w.root.join(format!("s{}", no)));
        w.scns.push(scn);
        for (i, o) in opts.into_iter().enumerate() {
            let args: Vec<ArgSpec> = if i % 2 == 0 { vec![(0, false), (1, false)] } else { vec![(1, false), (0, false)] };
            plans.push(Plan { scn: no, args, opts: o, tags: vec!["corpus_filters"] });
        }
    }
    {
        let (scn, opts) = corpus_id_expressions();
        let no = w.scns.len();
        scn.write_files(&w.root.join(format!("s{}", no)));
        w.scns.push(scn);
        for (i, o) in opts.into_iter().enumerate() {
            let args: Vec<ArgSpec> = if i % 3 != 2 { vec![(0, false), (1, false)] } else { vec![(1, false), (0, false)] };
            plans.push(Plan { scn: no, args, opts: o, tags: vec!["corpus_id_expressions"] });
        }
    }
    {
        let (scn, lists) = corpus_stream_files();
        let no = w.scns.len();
        scn.write_files(&w.root.join(format!("s{}", no)));
        w.scns.push(scn);
        for l in lists {
            plans.push(Plan { scn: no, args: l.iter().map(|k| (*k, false)).collect(), opts: Opts::none(1), tags: vec!["corpus_stream_files"] });
        }
    }
    corpus_ecu_sets(w, plans);
}

fn generated_plans(w: &mut World, plans: &mut Vec<Plan>, tier: &str, seed: u64, count: Option<u64>, par: usize) {
    let nscn = count.unwrap_or(match tier {
        "quick" => 24,
        "thorough" => 170,
        _ => 400,
    });
    let mut rng = Rng::new(seed);
    // phase 1: scenarios and their baselines
    let first_gen = w.scns.len();
    let mut arg_sets: Vec<Vec<Vec<ArgSpec>>> = vec![vec![]; first_gen];
    for _ in 0..nscn {
        let big = rng.chance(1, 4);
        let scn = gen_scn(&mut rng, big);
        let no = w.scns.len();
        scn.write_files(&w.root.join(format!("s{}", no)));
        let nf = scn.files.len();
        // argument lists: all files in order; a permutation; sometimes a sub-list / a file named twice / other spelling
        let base: Vec<ArgSpec> = (0..nf).map(|k| (k, false)).collect();
        let mut lists = vec![base.clone()];
        let mut p = base.clone();
        shuffle(&mut rng, &mut p);
        if rng.chance(1, 3) && nf >= 1 {
            let k = rng.below(nf as u64) as usize;
            let at = rng.below(p.len() as u64 + 1) as usize;
            p.insert(at, (k, rng.chance(1, 2)));
        }
        if rng.chance(1, 4) && p.len() > 1 {
            p.pop();
        }
        lists.push(p);
        w.scns.push(scn);
        arg_sets.push(lists);
    }
    let mut jobs = vec![];
    for no in first_gen..w.scns.len() {
        for l in &arg_sets[no] {
            jobs.extend(jobs_for(no, l, &Opts::none(3)));
        }
    }
    w.run_jobs(jobs, par);
    // phase 2: option combinations, knowing the size of the input and the number of lifecycles
    for no in first_gen..w.scns.len() {
        for (li, l) in arg_sets[no].clone().iter().enumerate() {
            let pb = parse_out(&w.scns[no], w.get(no, l, &Opts::none(3)), 3, false);
            let t = truth(&w.scns[no], &pb.screen);
            plans.push(Plan { scn: no, args: l.clone(), opts: Opts::none(3), tags: vec!["baseline"] });
            if li == 0 {
                // lifecycle listing + the whole input written to a file
                let mut o = Opts::none(0);
                o.ofile = true;
                plans.push(Plan { scn: no, args: l.clone(), opts: o, tags: vec!["listing"] });
            }
            let k = if li == 0 { 4 } else { 1 };
            for _ in 0..k {
                let o = gen_opts(&mut rng, &w.scns[no], pb.screen.len(), t.rows.len() as u32, t.lc_of.is_some(), 0);
                plans.push(Plan { scn: no, args: l.clone(), opts: o, tags: vec!["options"] });
            }
        }
    }
    // ---- a filter file together with -F expressions (one filter set from two sources): one run per general scenario
    let mut rng5 = Rng::new(seed ^ 0xffac_c14);
    for no in first_gen..w.scns.len() {
        let l = arg_sets[no][(no % 2).min(arg_sets[no].len() - 1)].clone();
        let n = parse_out(&w.scns[no], w.get(no, &l, &Opts::none(3)), 3, false).screen.len();
        let o = gen_opts_ff(&mut rng5, &w.scns[no], n, no as u64);
        plans.push(Plan { scn: no, args: l, opts: o, tags: vec!["filter_file_and_eac"] });
    }
    // ---- family aimed at the classification of the files by ECU set (equal sets chained, different sets merged)
    let nedges = match tier {
        "quick" => 10,
        "thorough" => 60,
        _ => 150,
    };
    let mut rng6 = Rng::new(seed ^ 0xec5e_c14);
    for i in 0..nedges {
        // the first scenarios of a run go through the shapes once (quick reaches every shape), then random ones
        const FORCED: [(u8, u8); 8] = [(1, 0), (4, 0), (2, 0), (2, 1), (3, 2), (2, 3), (2, 4), (5, 0)];
        let force = if i < FORCED.len() { Some(FORCED[i]) } else { None };
        let (scn, lists) = gen_ecu_edges(&mut rng6, force);
        let no = w.scns.len();
        scn.write_files(&w.root.join(format!("s{}", no)));
        let n = scn.msgs.len();
        for (li, l) in lists.into_iter().enumerate() {
            let mut os = vec![Opts::none(if li == 0 { 3 } else { 1 })];
            // index-dependent selections: a window in the middle of the input, also combined with an ECU expression, to the screen and to a file
            let mut win = Opts::none(if li == 0 { 3 } else { 0 });
            win.b = Some(rng6.range(1, 2) as u32);
            win.e = Some((n as u64 / 2 + rng6.below(2)) as u32);
            win.ofile = true;
            os.push(win);
            if li == 0 {
                let mut listing = Opts::none(0);
                listing.ofile = true;
                os.push(listing);
                let mut we = Opts::none(1);
                we.b = Some(rng6.below(3) as u32);
                we.e = Some((n as u64 * 2 / 3) as u32);
                we.eac = vec![Flt::ids(0, Some(&id_str(&ecu_id(1))), None, None)];
                we.ofile = rng6.chance(1, 2);
                os.push(we);
                os.push(gen_opts(&mut rng6, &scn, n, 2, false, 0));
            }
            for o in os {
                plans.push(Plan { scn: no, args: l.clone(), opts: o, tags: vec!["ecu_set_edges"] });
            }
        }
        w.scns.push(scn);
    }
    // ---- family aimed at the probe: first message behind long garbage / a large first message, one and several files
    let nprobe = match tier {
        "quick" => PROBE_CLASSES,
        "thorough" => 5 * PROBE_CLASSES,
        _ => 10 * PROBE_CLASSES,
    };
    let mut rng7 = Rng::new(seed ^ 0x9e0b_c14);
    for i in 0..nprobe {
        let scn = gen_probe_edges(&mut rng7, (i + seed) % PROBE_CLASSES);
        let no = w.scns.len();
        scn.write_files(&w.root.join(format!("s{}", no)));
        let n = scn.msgs.len();
        let mut args: Vec<ArgSpec> = (0..scn.files.len()).map(|k| (k, false)).collect();
        if rng7.chance(1, 2) {
            args.reverse();
        }
        let mut whole = Opts::none(0);
        whole.ofile = true;
        let os = vec![Opts::none(3), whole, gen_opts(&mut rng7, &scn, n, 2, false, 0)];
        w.scns.push(scn);
        for o in os {
            plans.push(Plan { scn: no, args: args.clone(), opts: o, tags: vec!["probe_edges"] });
        }
    }
    // ---- family for --file_transfer: inputs with FLST / FLDA / FLFI messages, the option combined with selections
    let nft = match tier {
        "quick" => 4,
        "thorough" => 24,
        _ => 60,
    };
    let mut rng8 = Rng::new(seed ^ 0xf7_c14);
    for _ in 0..nft {
        let (scn, ids) = gen_ft_scn(&mut rng8);
        let no = w.scns.len();
        scn.write_files(&w.root.join(format!("s{}", no)));
        let n = scn.msgs.len();
        let mut args: Vec<ArgSpec> = (0..scn.files.len()).map(|k| (k, false)).collect();
        if rng8.chance(1, 2) {
            args.reverse();
        }
        let mut os = vec![];
        let mut o = Opts::none(3);
        o.ft = Some(Ft { glob: "*.bin".into(), apid: None, ctid: None });
        os.push(o);
        let mut o = Opts::none(0);
        o.ofile = true;
        o.ft = Some(gen_ft(&mut rng8, Some(ids)));
        os.push(o);
        let mut o = Opts::none(1);
        o.b = Some(1);
        o.e = Some((n * 2 / 3) as u32);
        o.ofile = true;
        o.ft = Some(gen_ft(&mut rng8, Some(ids)));
        os.push(o);
        let mut o = Opts::none(3);
        o.eac = vec![Flt::ids(0, None, Some(&id_str(&apid_id(ids.0))), None)];
        o.ofile = rng8.chance(1, 2);
        o.ft = Some(gen_ft(&mut rng8, Some(ids)));
        os.push(o);
        let mut o = gen_opts(&mut rng8, &scn, n, 2, true, 0);
        o.ft = Some(gen_ft(&mut rng8, Some(ids)));
        os.push(o);
        w.scns.push(scn);
        for o in os {
            plans.push(Plan { scn: no, args: args.clone(), opts: o, tags: vec!["file_transfer_option"] });
        }
    }
    // ---- family aimed at the order of the streams: every scenario under 5 argument orders
    let nmulti = match tier {
        "quick" => 10,
        "thorough" => 80,
        _ => 250,
    };
    let mut rng2 = Rng::new(seed ^ 0x5eed_c14);
    for _ in 0..nmulti {
        let (scn, lists) = gen_multi(&mut rng2);
        let no = w.scns.len();
        scn.write_files(&w.root.join(format!("s{}", no)));
        w.scns.push(scn);
        for (i, l) in lists.into_iter().enumerate() {
            plans.push(Plan { scn: no, args: l, opts: Opts::none(if i % 2 == 0 { 3 } else { 1 }), tags: vec!["multi_stream_orders"] });
        }
    }
    // ---- family aimed at the per-stream sort + dedup: different files of one stream with the same first reception time
    let ntied = match tier {
        "quick" => 6,
        "thorough" => 40,
        _ => 120,
    };
    let mut rng4 = Rng::new(seed ^ 0x71ed_c14);
    for _ in 0..ntied {
        let (scn, lists) = gen_tied(&mut rng4);
        let no = w.scns.len();
        scn.write_files(&w.root.join(format!("s{}", no)));
        let n = scn.msgs.len();
        let mut os: Vec<Vec<Opts>> = vec![];
        for i in 0..lists.len() {
            let mut v = vec![Opts::none(if i % 2 == 0 { 3 } else { 1 })];
            if i == 0 {
                let mut o = Opts::none(0);
                o.ofile = true;
                v.push(o);
            }
            v.push(gen_opts(&mut rng4, &scn, n, 2, false, 0));
            os.push(v);
        }
        w.scns.push(scn);
        for (l, v) in lists.into_iter().zip(os) {
            for o in v {
                plans.push(Plan { scn: no, args: l.clone(), opts: o, tags: vec!["tied_first_times"] });
            }
        }
    }
    // ---- family for --sort: suspended and resumed lifecycles whose start estimate moves before the origin's
    let nresume = match tier {
        "quick" => 6,
        "thorough" => 40,
        _ => 120,
    };
    let mut rng3 = Rng::new(seed ^ 0x7e5_c14);
    for _ in 0..nresume {
        let scn = gen_resume(&mut rng3);
        let no = w.scns.len();
        scn.write_files(&w.root.join(format!("s{}", no)));
        let n = scn.msgs.len();
        let mut args: Vec<ArgSpec> = (0..scn.files.len()).map(|k| (k, false)).collect();
        if rng3.chance(1, 2) {
            args.reverse();
        }
        let mut sorted = Opts::none(3);
        sorted.sort = true;
        let mut listing = Opts::none(0);
        listing.sort = true;
        listing.ofile = true;
        // windows on the ORIGINAL index under --sort (the sort moves the resumed lifecycle's messages across others)
        let mut w1 = Opts::none(3);
        w1.sort = true;
        w1.e = Some((n / 2) as u32 + rng3.below(3) as u32);
        w1.ofile = rng3.chance(1, 2);
        let mut w2 = Opts::none(if rng3.chance(1, 2) { 1 } else { 0 });
        w2.sort = true;
        w2.b = Some((n / 3) as u32);
        w2.e = Some((2 * n / 3) as u32 + rng3.below(2) as u32);
        w2.ofile = true;
        let mut os = vec![sorted, listing, w1, w2];
        for _ in 0..2 {
            let mut o = gen_opts(&mut rng3, &scn, n, 3, true, 0);
            o.sort = true;
            os.push(o);
        }
        w.scns.push(scn);
        for o in os {
            plans.push(Plan { scn: no, args: args.clone(), opts: o, tags: vec!["resume_sort"] });
        }
    }
}
