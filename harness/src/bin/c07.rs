fn main() { vharness::lcgen::lc_main("C07"); }
