//! C20 — SeekableChain vs Archive/Chain.v (part 1) and the extraction path logic of unzip.rs vs
//! Archive/Paths.v (part 2).
//!
//! Part 1 oracle: the real chain (over in-memory `Cursor`s or over real files in a temp dir) is compared
//! with ONE `std::io::Cursor` over the concatenation of the volumes.  Seek targets are computed like a
//! file does (Start: o, Current: pos + o, End: len + o); a target outside [0, len] is clamped into
//! that range before it is applied to the reference (SeekableChain never keeps or reports a position
//! outside its data: `saturating_sub`, `if pos >= self.max_pos`); as long as every target of a run was in
//! range a second, untouched `Cursor` driven by the very same `seek` calls must answer identically.
//! A single `read` may be short (the chain stops at volume boundaries) but never empty unless the
//! buffer is empty or the position is at the end; filling loops (`ReadFull`, `read_to_end`) must
//! deliver exactly what the reference delivers.
use adlt::utils::cloneable_seekable_reader::HasLength;
use adlt::utils::seekablechain::SeekableChain;
use std::io::{Cursor, Read, Seek, SeekFrom, Write};
use vharness::*;

// ------------------------------------------------------------------------------------------ part 1
#[derive(Clone, Debug, PartialEq)]
enum Op {
    Read(u64),
    ReadFull(u64),
    ReadToEnd,
    Start(u64),
    Cur(i64),
    End(i64),
}

impl Op {
    fn coq(&self) -> String {
        let sg = |o: &i64, pos: &str, neg: &str| if *o < 0 { format!("{} {}", neg, o.unsigned_abs()) } else { format!("{} {}", pos, o) };
        match self {
            Op::Read(n) => format!("Read {}", n),
            Op::ReadFull(n) => format!("ReadFull {}", n),
            Op::ReadToEnd => format!("ReadFull {}", u64::MAX),
            Op::Start(o) => format!("Seek (Start {})", o),
            Op::Cur(o) => sg(o, "cur_pos", "cur_neg"),
            Op::End(o) => sg(o, "end_pos", "end_neg"),
        }
    }
    fn json(&self) -> Value {
        match self {
            Op::Read(n) => json!({"k": "read", "n": n}),
            Op::ReadFull(n) => json!({"k": "read_full", "n": n}),
            Op::ReadToEnd => json!({"k": "read_to_end"}),
            Op::Start(o) => json!({"k": "start", "o": o}),
            Op::Cur(o) => json!({"k": "cur", "o": o}),
            Op::End(o) => json!({"k": "end", "o": o}),
        }
    }
    fn from_json(v: &Value) -> Op {
        match v["k"].as_str().unwrap() {
            "read" => Op::Read(v["n"].as_u64().unwrap()),
            "read_full" => Op::ReadFull(v["n"].as_u64().unwrap()),
            "read_to_end" => Op::ReadToEnd,
            "start" => Op::Start(v["o"].as_u64().unwrap()),
            "cur" => Op::Cur(v["o"].as_i64().unwrap()),
            "end" => Op::End(v["o"].as_i64().unwrap()),
            x => panic!("op kind {}", x),
        }
    }
}

#[derive(Clone, Debug, PartialEq)]
enum R {
    Bytes(Vec<u8>),
    Pos(u64),
    Err(String),
}

fn run_ops<RS: Read + Seek>(vols: Vec<RS>, ops: &[Op]) -> (u64, Vec<R>) {
    let mut chain = SeekableChain::new(vols);
    let len = HasLength::len(&chain);
    let mut out = vec![];
    for op in ops {
        let r = match op {
            Op::Read(n) => {
                let mut buf = vec![0xEEu8; *n as usize];
                match chain.read(&mut buf) {
                    Ok(k) if k <= buf.len() => R::Bytes(buf[..k].to_vec()),
                    Ok(k) => R::Err(format!("read returned {} for a buffer of {}", k, n)),
                    Err(e) => R::Err(e.to_string()),
                }
            }
            Op::ReadFull(n) => {
                let mut got = vec![];
                let mut err = None;
                while (got.len() as u64) < *n {
                    let mut buf = vec![0xEEu8; (*n as usize) - got.len()];
                    match chain.read(&mut buf) {
                        Ok(0) => break,
                        Ok(k) if k <= buf.len() => got.extend_from_slice(&buf[..k]),
                        Ok(k) => {
                            err = Some(format!("read returned {} for a buffer of {}", k, buf.len()));
                            break;
                        }
                        Err(e) => {
                            err = Some(e.to_string());
                            break;
                        }
                    }
                }
                match err {
                    None => R::Bytes(got),
                    Some(e) => R::Err(e),
                }
            }
            Op::ReadToEnd => {
                let mut v = vec![];
                match chain.read_to_end(&mut v) {
                    Ok(_) => R::Bytes(v),
                    Err(e) => R::Err(e.to_string()),
                }
            }
            Op::Start(o) => chain.seek(SeekFrom::Start(*o)).map(R::Pos).unwrap_or_else(|e| R::Err(e.to_string())),
            Op::Cur(o) => chain.seek(SeekFrom::Current(*o)).map(R::Pos).unwrap_or_else(|e| R::Err(e.to_string())),
            Op::End(o) => chain.seek(SeekFrom::End(*o)).map(R::Pos).unwrap_or_else(|e| R::Err(e.to_string())),
        };
        out.push(r);
    }
    (len, out)
}

fn run_chain_impl(vols: &[Vec<u8>], ops: &[Op], files: bool) -> Result<(u64, Vec<R>), String> {
    let vols = vols.to_vec();
    let ops = ops.to_vec();
    catch_loc(move || {
        if files {
            let dir = tempfile::tempdir().expect("tempdir");
            let mut fs = vec![];
            for (i, v) in vols.iter().enumerate() {
                let p = dir.path().join(format!("vol.zip.{:03}", i + 1));
                std::fs::write(&p, v).expect("write volume");
                fs.push(std::fs::File::open(&p).expect("open volume"));
            }
            run_ops(fs, &ops)
        } else {
            run_ops(vols.iter().map(|v| Cursor::new(v.clone())).collect(), &ops)
        }
    })
}

/// the property evaluated directly on what the implementation did; returns the verdict and whether some
/// seek target was outside [0, len]
fn chain_oracle(vols: &[Vec<u8>], ops: &[Op], r: &Result<(u64, Vec<R>), String>) -> (Verdict, bool) {
    let fail = |c: &str, d: String| Verdict::Fail { clause: c.into(), detail: d };
    let data: Vec<u8> = vols.concat();
    let len = data.len() as u64;
    let (ilen, rs) = match r {
        Err(e) => return (fail("chain_no_panic", e.clone()), false),
        Ok(x) => x,
    };
    if *ilen != len {
        return (fail("chain_len", format!("len() = {}, concatenation has {}", ilen, len)), false);
    }
    let mut reference = Cursor::new(data.clone()); // targets clamped into [0, len]
    let mut strict: Option<Cursor<Vec<u8>>> = Some(Cursor::new(data.clone())); // std behaviour, untouched
    let mut oob = false;
    for (i, (op, got)) in ops.iter().zip(rs.iter()).enumerate() {
        let pos = reference.position();
        match (op, got) {
            (_, R::Err(e)) => return (fail("chain_no_error", format!("op {} {:?}: {}", i, op, e)), oob),
            (Op::Read(n), R::Bytes(b)) => {
                let k = b.len() as u64;
                if k > *n {
                    return (fail("read_count", format!("op {}: {} bytes for a buffer of {}", i, k, n)), oob);
                }
                let mut want = vec![0u8; b.len()];
                let w = reference.read(&mut want).unwrap();
                if w != b.len() || want != *b {
                    return (fail("read_bytes", format!("op {} {:?} at {}: got {:?}, file has {:?}", i, op, pos, b, &want[..w])), oob);
                }
                if k == 0 && *n > 0 && pos < len {
                    return (fail("read_zero_before_end", format!("op {} {:?} at {} of {}: returned 0", i, op, pos, len)), oob);
                }
                if let Some(s) = strict.as_mut() {
                    s.set_position(pos + k);
                }
            }
            (Op::ReadFull(n), R::Bytes(b)) => {
                let mut want = vec![0u8; (*n).min(len + 1) as usize];
                let w = reference.read(&mut want).unwrap();
                if want[..w] != b[..] {
                    return (fail("read_full_bytes", format!("op {} {:?} at {}: got {:?}, file has {:?}", i, op, pos, b, &want[..w])), oob);
                }
                if let Some(s) = strict.as_mut() {
                    s.set_position(pos + w as u64);
                }
            }
            (Op::ReadToEnd, R::Bytes(b)) => {
                let mut want = vec![];
                reference.read_to_end(&mut want).unwrap();
                if want != *b {
                    return (fail("read_to_end_bytes", format!("op {} at {}: got {:?}, file has {:?}", i, pos, b, want)), oob);
                }
                if let Some(s) = strict.as_mut() {
                    s.set_position(len.max(pos));
                }
            }
            (Op::Start(_), R::Pos(p)) | (Op::Cur(_), R::Pos(p)) | (Op::End(_), R::Pos(p)) => {
                let t: i128 = match op {
                    Op::Start(o) => *o as i128,
                    Op::Cur(o) => pos as i128 + *o as i128,
                    Op::End(o) => len as i128 + *o as i128,
                    _ => unreachable!(),
                };
                let clamped = t.clamp(0, len as i128) as u64;
                if t < 0 || t > len as i128 {
                    oob = true;
                    strict = None;
                }
                if *p != clamped {
                    return (fail("seek_position", format!("op {} {:?} at {}: returned {}, file position {}", i, op, pos, p, clamped)), oob);
                }
                reference.set_position(clamped);
                if let Some(s) = strict.as_mut() {
                    let sf = match op {
                        Op::Start(o) => SeekFrom::Start(*o),
                        Op::Cur(o) => SeekFrom::Current(*o),
                        Op::End(o) => SeekFrom::End(*o),
                        _ => unreachable!(),
                    };
                    match s.seek(sf) {
                        Ok(q) if q == *p => {}
                        other => return (fail("seek_like_cursor", format!("op {} {:?}: chain {}, std Cursor {:?}", i, op, p, other)), oob),
                    }
                }
            }
            (o, g) => return (fail("result_kind", format!("op {} {:?} answered {:?}", i, o, g)), oob),
        }
    }
    if rs.len() != ops.len() {
        return (fail("result_count", format!("{} results for {} ops", rs.len(), ops.len())), oob);
    }
    (Verdict::Ok, oob)
}

fn record_chain(sink: &mut Sink, vols: Vec<Vec<u8>>, ops: Vec<Op>, files: bool, extra_tag: &str) {
    let r = run_chain_impl(&vols, &ops, files);
    let (verdict, oob) = chain_oracle(&vols, &ops, &r);
    let obs = match &r {
        Ok((_, rs)) => O::T(vec![
            O::L(0),
            O::T(rs
                .iter()
                .map(|x| match x {
                    R::Bytes(b) => O::T(vec![O::L(0), O::bytes(b)]),
                    R::Pos(p) => O::T(vec![O::L(1), O::n(*p)]),
                    R::Err(_) => O::T(vec![O::L(2)]),
                })
                .collect()),
        ]),
        Err(_) => O::T(vec![O::L(1)]),
    };
    let coq_vols = clist(&vols.iter().map(|v| cnums(v)).collect::<Vec<_>>());
    let coq_ops = clist(&ops.iter().map(|o| o.coq()).collect::<Vec<_>>());
    let input_coq = format!("CChain {} {}", coq_vols, coq_ops);
    let total: usize = vols.iter().map(|v| v.len()).sum();
    let n_empty = vols.iter().filter(|v| v.is_empty()).count();
    let mut tags = vec!["chain".to_string(), format!("vols{}", vols.len().min(7))];
    if files {
        tags.push("chain_over_files".into())
    }
    if n_empty > 0 {
        tags.push("empty_volume".into())
    }
    if vols.first().map_or(false, |v| v.is_empty()) {
        tags.push("empty_first".into())
    }
    if vols.last().map_or(false, |v| v.is_empty()) {
        tags.push("empty_last".into())
    }
    if vols.windows(2).any(|w| w[0].is_empty() && w[1].is_empty()) {
        tags.push("empty_adjacent".into())
    }
    if oob {
        tags.push("seek_target_out_of_range".into())
    } else {
        tags.push("all_targets_in_range(strict std Cursor)".into())
    }
    for o in &ops {
        tags.push(
            match o {
                Op::Read(_) => "op_read",
                Op::ReadFull(_) => "op_read_full",
                Op::ReadToEnd => "op_read_to_end",
                Op::Start(_) => "op_seek_start",
                Op::Cur(_) => "op_seek_current",
                Op::End(_) => "op_seek_end",
            }
            .to_string(),
        );
    }
    if !extra_tag.is_empty() {
        tags.push(extra_tag.to_string());
    }
    tags.sort();
    tags.dedup();
    let nontrivial = vols.len() >= 2
        && total >= 2
        && ops.iter().any(|o| matches!(o, Op::Read(_) | Op::ReadFull(_) | Op::ReadToEnd))
        && ops.iter().any(|o| matches!(o, Op::Start(_) | Op::Cur(_) | Op::End(_)));
    let id = sink.next_id();
    sink.push(Case {
        id,
        key: format!("{}{}", input_coq, if files { " files" } else { "" }),
        input_coq,
        input_json: json!({"part": "chain", "vols": vols, "ops": ops.iter().map(|o| o.json()).collect::<Vec<_>>(), "files": files}),
        obs,
        verdict,
        classes: vec![],
        tags,
        nontrivial,
    });
}

fn gen_split(rng: &mut Rng, data: &[u8]) -> Vec<Vec<u8>> {
    let k = 1 + rng.size(6) as usize; // 1..7 volumes
    let mut cuts: Vec<usize> = (0..k - 1).map(|_| rng.below(data.len() as u64 + 1) as usize).collect();
    // favour empty volumes: repeat cut points, cut at 0 and at the end
    for c in cuts.iter_mut() {
        match rng.below(8) {
            0 => *c = 0,
            1 => *c = data.len(),
            _ => {}
        }
    }
    if cuts.len() >= 2 && rng.chance(1, 3) {
        let j = rng.below(cuts.len() as u64 - 1) as usize;
        cuts[j + 1] = cuts[j];
    }
    cuts.sort();
    let mut vols = vec![];
    let mut prev = 0;
    for c in cuts {
        vols.push(data[prev..c].to_vec());
        prev = c;
    }
    vols.push(data[prev..].to_vec());
    vols
}

fn gen_op(rng: &mut Rng, len: u64) -> Op {
    let around = |rng: &mut Rng| -> i64 { rng.range(0, 2 * len + 6) as i64 - (len as i64 + 3) };
    match rng.below(20) {
        0..=4 => Op::Read(match rng.below(6) {
            0 => 0,
            1 => 1,
            2 => len + rng.below(4),
            _ => rng.below(len + 2),
        }),
        5..=6 => Op::ReadFull(match rng.below(4) {
            0 => len + 1 + rng.below(100),
            _ => rng.below(len + 3),
        }),
        7 => Op::ReadToEnd,
        8..=11 => Op::Start(match rng.below(12) {
            0 => u64::MAX - rng.below(2),
            1 => len,
            2 => len + 1 + rng.below(3),
            3 => 0,
            _ => rng.below(len + 1),
        }),
        12..=15 => Op::Cur(match rng.below(14) {
            0 => i64::MIN,
            1 => i64::MAX,
            2 => 0,
            3 => i64::MIN + 1,
            _ => around(rng),
        }),
        _ => Op::End(match rng.below(14) {
            0 => i64::MIN,
            1 => i64::MAX,
            2 => 0,
            3 => 1 + rng.below(3) as i64,
            _ => -(rng.below(len + 3) as i64),
        }),
    }
}

fn gen_chain_case(rng: &mut Rng, big: bool) -> (Vec<Vec<u8>>, Vec<Op>, bool) {
    let len = rng.size(if big { 60 } else { 24 });
    let base = rng.below(200) as u8;
    let data: Vec<u8> = (0..len).map(|i| if rng.chance(1, 8) { rng.below(256) as u8 } else { base.wrapping_add(i as u8) }).collect();
    let vols = if rng.chance(1, 12) {
        // nothing but empty volumes
        (0..rng.range(1, 4)).map(|_| vec![]).collect()
    } else {
        gen_split(rng, &data)
    };
    let len: u64 = vols.iter().map(|v| v.len() as u64).sum();
    let nops = rng.size(if big { 24 } else { 12 }) as usize;
    let ops = (0..nops).map(|_| gen_op(rng, len)).collect();
    (vols, ops, rng.chance(1, 10))
}

/// all ways to cut `data` into exactly k consecutive (possibly empty) volumes
fn all_splits(data: &[u8], k: usize) -> Vec<Vec<Vec<u8>>> {
    if k == 1 {
        return vec![vec![data.to_vec()]];
    }
    let mut out = vec![];
    for c in 0..=data.len() {
        for mut rest in all_splits(&data[c..], k - 1) {
            let mut v = vec![data[..c].to_vec()];
            v.append(&mut rest);
            out.push(v);
        }
    }
    out
}

fn chain_corpus(sink: &mut Sink) {
    let b = |s: &str| s.as_bytes().to_vec();
    // the defects repaired by the three `fix:` commits (DESIGN Appendix A, C20-1)
    record_chain(sink, vec![b("ab"), b(""), b("cd")], vec![Op::ReadToEnd], false, "witness_empty_volume");
    record_chain(sink, vec![b(""), b("ab"), b("cd")], vec![Op::Read(1), Op::ReadFull(10)], false, "witness_empty_volume");
    record_chain(sink, vec![b("ab"), b("cd")], vec![Op::Start(1), Op::End(3), Op::Read(1)], false, "witness_seek_end_positive");
    record_chain(sink, vec![b("ab"), b("cd")], vec![Op::Start(1), Op::Cur(i64::MIN), Op::Read(1), Op::End(i64::MIN), Op::Read(9)], false, "witness_negate_overflow");
    // the repository's own unit test script
    record_chain(
        sink,
        vec![b("hello"), b("world"), b("!")],
        vec![Op::Read(5), Op::Read(5), Op::Cur(-4), Op::Read(5), Op::Start(0), Op::Read(5), Op::End(-1), Op::Read(5), Op::Start(0), Op::ReadToEnd, Op::Cur(-2), Op::ReadToEnd, Op::End(-2), Op::ReadToEnd, Op::Start(2), Op::ReadToEnd],
        false,
        "repo_unit_test",
    );
    record_chain(sink, vec![b("hello"), b(""), b("world"), b(""), b(""), b("!")], vec![Op::Read(7), Op::Cur(0), Op::Read(7), Op::Cur(0), Op::ReadFull(7), Op::Cur(0), Op::Read(1)], true, "boundary");
    record_chain(sink, vec![], vec![Op::Read(1), Op::Start(5), Op::End(-1), Op::ReadToEnd, Op::Cur(0)], false, "boundary");
    record_chain(sink, vec![b(""), b("")], vec![Op::Read(1), Op::Start(5), Op::End(-1), Op::ReadToEnd, Op::Cur(0)], true, "boundary");
    record_chain(sink, vec![b("abc")], vec![Op::Start(u64::MAX), Op::Cur(i64::MAX), Op::Read(1), Op::Cur(-1), Op::Read(2), Op::End(i64::MAX), Op::Cur(i64::MIN + 1), Op::ReadFull(2)], false, "boundary");
    // seek to the very start of each volume and to the last byte of each, then read across the border
    let vols = vec![b("ab"), b(""), b("cde"), b("f"), b("")];
    let mut ops = vec![];
    for p in 0..=6u64 {
        ops.push(Op::Start(p));
        ops.push(Op::Read(2));
        ops.push(Op::Cur(0));
    }
    record_chain(sink, vols, ops, false, "boundary");
}

fn chain_exhaustive(sink: &mut Sink, data: &[u8], max_vols: usize, seq_len: usize) {
    let len = data.len() as u64;
    let alphabet = vec![
        Op::Read(1),
        Op::Read(2),
        Op::ReadFull(len),
        Op::Start(0),
        Op::Start(1),
        Op::Start(len),
        Op::Cur(-1),
        Op::Cur(1),
        Op::End(-1),
        Op::End(0),
        Op::End(1),
    ];
    let mut seqs: Vec<Vec<Op>> = vec![vec![]];
    for _ in 0..seq_len {
        let mut n = vec![];
        for s in &seqs {
            for o in &alphabet {
                let mut t = s.clone();
                t.push(o.clone());
                n.push(t);
            }
        }
        seqs = n;
    }
    for k in 1..=max_vols {
        for split in all_splits(data, k) {
            for s in &seqs {
                // always end with a read so that the position after the last seek is observed
                let mut ops = s.clone();
                ops.push(Op::Read(1));
                record_chain(sink, split.clone(), ops, false, "exhaustive_small");
            }
        }
    }
}

fn replay_chain(sink: &mut Sink, c: &Value) {
    let vols: Vec<Vec<u8>> = serde_json::from_value(c["vols"].clone()).unwrap();
    let ops: Vec<Op> = c["ops"].as_array().unwrap().iter().map(Op::from_json).collect();
    record_chain(sink, vols, ops, c["files"].as_bool().unwrap_or(false), "replay");
}

fn main() {
    let a = parse_args();
    let mut sink = Sink::new("C20", &a.out);
    if let Some(p) = &a.replay {
        let v = read_replay(p);
        let c = &v["case"];
        match c["part"].as_str().unwrap_or("chain") {
            "chain" => replay_chain(&mut sink, c),
            x => panic!("unknown part {}", x),
        }
        sink.finish();
        return;
    }
    let quick = a.tier == "quick";
    let search = a.tier == "search";
    if !search {
        chain_corpus(&mut sink);
        // every split of a 2-byte string into up to 3 volumes x every op pair of a small alphabet
        chain_exhaustive(&mut sink, b"xy", if quick { 3 } else { 4 }, if quick { 1 } else { 2 });
        if !quick {
            chain_exhaustive(&mut sink, b"pqr", 3, 2);
        }
    }
    let n = a.count.unwrap_or(if quick { 900 } else if search { 3000 } else { 20000 });
    let mut rng = Rng::new(a.seed);
    for _ in 0..n {
        let (vols, ops, files) = gen_chain_case(&mut rng, !quick);
        record_chain(&mut sink, vols, ops, files, "");
    }
    sink.finish();
}
