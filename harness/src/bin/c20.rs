//! C20 — SeekableChain vs Archive/Chain.v (part 1) and the extraction path logic of unzip.rs vs
//! Archive/Paths.v (part 2).
//!
//! Part 1 oracle: the real chain (over in-memory `Cursor`s or over real files in a temp dir) is compared
//! with ONE `std::io::Cursor` over the concatenation of the volumes.  Seek targets are computed like a
//! file does (Start: o, Current: pos + o, End: len + o); a target outside [0, len] is clamped into
//! that range before it is applied to the reference (SeekableChain never keeps or reports a position
//! outside its data: `saturating_sub`, `if pos >= self.max_pos`); as long as every target of a run was in
//! range a second, untouched `Cursor` driven by the very same `seek` calls must answer identically.
//! A single `read` may be short (the chain stops at volume boundaries) but never empty unless the
//! buffer is empty or the position is at the end; filling loops (`ReadFull`, `read_to_end`) must
//! deliver exactly what the reference delivers.
use adlt::utils::cloneable_seekable_reader::HasLength;
use adlt::utils::seekablechain::SeekableChain;
use std::io::{Cursor, Read, Seek, SeekFrom, Write};
use vharness::*;

// ------------------------------------------------------------------------------------------ part 1
#[derive(Clone, Debug, PartialEq)]
enum Op {
    Read(u64),
    ReadFull(u64),
    ReadToEnd,
    Start(u64),
    Cur(i64),
    End(i64),
}

impl Op {
    fn coq(&self) -> String {
        let sg = |o: &i64, pos: &str, neg: &str| if *o < 0 { format!("{} {}", neg, o.unsigned_abs()) } else { format!("{} {}", pos, o) };
        match self {
            Op::Read(n) => format!("Read {}", n),
            Op::ReadFull(n) => format!("ReadFull {}", n),
            Op::ReadToEnd => format!("ReadFull {}", u64::MAX),
            Op::Start(o) => format!("Seek (Start {})", o),
            Op::Cur(o) => sg(o, "cur_pos", "cur_neg"),
            Op::End(o) => sg(o, "end_pos", "end_neg"),
        }
    }
    fn json(&self) -> Value {
        match self {
            Op::Read(n) => json!({"k": "read", "n": n}),
            Op::ReadFull(n) => json!({"k": "read_full", "n": n}),
            Op::ReadToEnd => json!({"k": "read_to_end"}),
            Op::Start(o) => json!({"k": "start", "o": o}),
            Op::Cur(o) => json!({"k": "cur", "o": o}),
            Op::End(o) => json!({"k": "end", "o": o}),
        }
    }
    fn from_json(v: &Value) -> Op {
        match v["k"].as_str().unwrap() {
            "read" => Op::Read(v["n"].as_u64().unwrap()),
            "read_full" => Op::ReadFull(v["n"].as_u64().unwrap()),
            "read_to_end" => Op::ReadToEnd,
            "start" => Op::Start(v["o"].as_u64().unwrap()),
            "cur" => Op::Cur(v["o"].as_i64().unwrap()),
            "end" => Op::End(v["o"].as_i64().unwrap()),
            x => panic!("op kind {}", x),
        }
    }
}

#[derive(Clone, Debug, PartialEq)]
enum R {
    Bytes(Vec<u8>),
    Pos(u64),
    Err(String),
}

fn run_ops<RS: Read + Seek>(vols: Vec<RS>, ops: &[Op]) -> (u64, Vec<R>) {
    let mut chain = SeekableChain::new(vols);
    let len = HasLength::len(&chain);
    let mut out = vec![];
    for op in ops {
        let r = match op {
            Op::Read(n) => {
                let mut buf = vec![0xEEu8; *n as usize];
                match chain.read(&mut buf) {
                    Ok(k) if k <= buf.len() => R::Bytes(buf[..k].to_vec()),
                    Ok(k) => R::Err(format!("read returned {} for a buffer of {}", k, n)),
                    Err(e) => R::Err(e.to_string()),
                }
            }
            Op::ReadFull(n) => {
                let mut got = vec![];
                let mut err = None;
                while (got.len() as u64) < *n {
                    let mut buf = vec![0xEEu8; (*n as usize) - got.len()];
                    match chain.read(&mut buf) {
                        Ok(0) => break,
                        Ok(k) if k <= buf.len() => got.extend_from_slice(&buf[..k]),
                        Ok(k) => {
                            err = Some(format!("read returned {} for a buffer of {}", k, buf.len()));
                            break;
                        }
                        Err(e) => {
                            err = Some(e.to_string());
                            break;
                        }
                    }
                }
                match err {
                    None => R::Bytes(got),
                    Some(e) => R::Err(e),
                }
            }
            Op::ReadToEnd => {
                let mut v = vec![];
                match chain.read_to_end(&mut v) {
                    Ok(_) => R::Bytes(v),
                    Err(e) => R::Err(e.to_string()),
                }
            }
            Op::Start(o) => chain.seek(SeekFrom::Start(*o)).map(R::Pos).unwrap_or_else(|e| R::Err(e.to_string())),
            Op::Cur(o) => chain.seek(SeekFrom::Current(*o)).map(R::Pos).unwrap_or_else(|e| R::Err(e.to_string())),
            Op::End(o) => chain.seek(SeekFrom::End(*o)).map(R::Pos).unwrap_or_else(|e| R::Err(e.to_string())),
        };
        out.push(r);
    }
    (len, out)
}

fn run_chain_impl(vols: &[Vec<u8>], ops: &[Op], files: bool) -> Result<(u64, Vec<R>), String> {
    let vols = vols.to_vec();
    let ops = ops.to_vec();
    catch_loc(move || {
        if files {
            let dir = tempfile::tempdir().expect("tempdir");
            let mut fs = vec![];
            for (i, v) in vols.iter().enumerate() {
                let p = dir.path().join(format!("vol.zip.{:03}", i + 1));
                std::fs::write(&p, v).expect("write volume");
                fs.push(std::fs::File::open(&p).expect("open volume"));
            }
            run_ops(fs, &ops)
        } else {
            run_ops(vols.iter().map(|v| Cursor::new(v.clone())).collect(), &ops)
        }
    })
}

/// the property evaluated directly on what the implementation did; returns the verdict and whether some
/// seek target was outside [0, len]
fn chain_oracle(vols: &[Vec<u8>], ops: &[Op], r: &Result<(u64, Vec<R>), String>) -> (Verdict, bool) {
    let fail = |c: &str, d: String| Verdict::Fail { clause: c.into(), detail: d };
    let data: Vec<u8> = vols.concat();
    let len = data.len() as u64;
    let (ilen, rs) = match r {
        Err(e) => return (fail("chain_no_panic", e.clone()), false),
        Ok(x) => x,
    };
    if *ilen != len {
        return (fail("chain_len", format!("len() = {}, concatenation has {}", ilen, len)), false);
    }
    let mut reference = Cursor::new(data.clone()); // targets clamped into [0, len]
    let mut strict: Option<Cursor<Vec<u8>>> = Some(Cursor::new(data.clone())); // std behaviour, untouched
    let mut oob = false;
    for (i, (op, got)) in ops.iter().zip(rs.iter()).enumerate() {
        let pos = reference.position();
        match (op, got) {
            (_, R::Err(e)) => return (fail("chain_no_error", format!("op {} {:?}: {}", i, op, e)), oob),
            (Op::Read(n), R::Bytes(b)) => {
                let k = b.len() as u64;
                if k > *n {
                    return (fail("read_count", format!("op {}: {} bytes for a buffer of {}", i, k, n)), oob);
                }
                let mut want = vec![0u8; b.len()];
                let w = reference.read(&mut want).unwrap();
                if w != b.len() || want != *b {
                    return (fail("read_bytes", format!("op {} {:?} at {}: got {:?}, file has {:?}", i, op, pos, b, &want[..w])), oob);
                }
                if k == 0 && *n > 0 && pos < len {
                    return (fail("read_zero_before_end", format!("op {} {:?} at {} of {}: returned 0", i, op, pos, len)), oob);
                }
                if let Some(s) = strict.as_mut() {
                    s.set_position(pos + k);
                }
            }
            (Op::ReadFull(n), R::Bytes(b)) => {
                let mut want = vec![0u8; (*n).min(len + 1) as usize];
                let w = reference.read(&mut want).unwrap();
                if want[..w] != b[..] {
                    return (fail("read_full_bytes", format!("op {} {:?} at {}: got {:?}, file has {:?}", i, op, pos, b, &want[..w])), oob);
                }
                if let Some(s) = strict.as_mut() {
                    s.set_position(pos + w as u64);
                }
            }
            (Op::ReadToEnd, R::Bytes(b)) => {
                let mut want = vec![];
                reference.read_to_end(&mut want).unwrap();
                if want != *b {
                    return (fail("read_to_end_bytes", format!("op {} at {}: got {:?}, file has {:?}", i, pos, b, want)), oob);
                }
                if let Some(s) = strict.as_mut() {
                    s.set_position(len.max(pos));
                }
            }
            (Op::Start(_), R::Pos(p)) | (Op::Cur(_), R::Pos(p)) | (Op::End(_), R::Pos(p)) => {
                let t: i128 = match op {
                    Op::Start(o) => *o as i128,
                    Op::Cur(o) => pos as i128 + *o as i128,
                    Op::End(o) => len as i128 + *o as i128,
                    _ => unreachable!(),
                };
                let clamped = t.clamp(0, len as i128) as u64;
                if t < 0 || t > len as i128 {
                    oob = true;
                    strict = None;
                }
                if *p != clamped {
                    return (fail("seek_position", format!("op {} {:?} at {}: returned {}, file position {}", i, op, pos, p, clamped)), oob);
                }
                reference.set_position(clamped);
                if let Some(s) = strict.as_mut() {
                    let sf = match op {
                        Op::Start(o) => SeekFrom::Start(*o),
                        Op::Cur(o) => SeekFrom::Current(*o),
                        Op::End(o) => SeekFrom::End(*o),
                        _ => unreachable!(),
                    };
                    match s.seek(sf) {
                        Ok(q) if q == *p => {}
                        other => return (fail("seek_like_cursor", format!("op {} {:?}: chain {}, std Cursor {:?}", i, op, p, other)), oob),
                    }
                }
            }
            (o, g) => return (fail("result_kind", format!("op {} {:?} answered {:?}", i, o, g)), oob),
        }
    }
    if rs.len() != ops.len() {
        return (fail("result_count", format!("{} results for {} ops", rs.len(), ops.len())), oob);
    }
    (Verdict::Ok, oob)
}

fn record_chain(sink: &mut Sink, vols: Vec<Vec<u8>>, ops: Vec<Op>, files: bool, extra_tag: &str) {
    let r = run_chain_impl(&vols, &ops, files);
    let (verdict, oob) = chain_oracle(&vols, &ops, &r);
    let obs = match &r {
        Ok((_, rs)) => O::T(vec![
            O::L(0),
            O::T(rs
                .iter()
                .map(|x| match x {
                    R::Bytes(b) => O::T(vec![O::L(0), O::bytes(b)]),
                    R::Pos(p) => O::T(vec![O::L(1), O::n(*p)]),
                    R::Err(_) => O::T(vec![O::L(2)]),
                })
                .collect()),
        ]),
        Err(_) => O::T(vec![O::L(1)]),
    };
    let coq_vols = clist(&vols.iter().map(|v| cnums(v)).collect::<Vec<_>>());
    let coq_ops = clist(&ops.iter().map(|o| o.coq()).collect::<Vec<_>>());
    let input_coq = format!("CChain {} {}", coq_vols, coq_ops);
    let total: usize = vols.iter().map(|v| v.len()).sum();
    let n_empty = vols.iter().filter(|v| v.is_empty()).count();
    let mut tags = vec!["chain".to_string(), format!("vols{}", vols.len().min(7))];
    if files {
        tags.push("chain_over_files".into())
    }
    if n_empty > 0 {
        tags.push("empty_volume".into())
    }
    if vols.first().map_or(false, |v| v.is_empty()) {
        tags.push("empty_first".into())
    }
    if vols.last().map_or(false, |v| v.is_empty()) {
        tags.push("empty_last".into())
    }
    if vols.windows(2).any(|w| w[0].is_empty() && w[1].is_empty()) {
        tags.push("empty_adjacent".into())
    }
    if oob {
        tags.push("seek_target_out_of_range".into())
    } else {
        tags.push("all_targets_in_range(strict std Cursor)".into())
    }
    for o in &ops {
        tags.push(
            match o {
                Op::Read(_) => "op_read",
                Op::ReadFull(_) => "op_read_full",
                Op::ReadToEnd => "op_read_to_end",
                Op::Start(_) => "op_seek_start",
                Op::Cur(_) => "op_seek_current",
                Op::End(_) => "op_seek_end",
            }
            .to_string(),
        );
    }
    if !extra_tag.is_empty() {
        tags.push(extra_tag.to_string());
    }
    tags.sort();
    tags.dedup();
    let nontrivial = vols.len() >= 2
        && total >= 2
        && ops.iter().any(|o| matches!(o, Op::Read(_) | Op::ReadFull(_) | Op::ReadToEnd))
        && ops.iter().any(|o| matches!(o, Op::Start(_) | Op::Cur(_) | Op::End(_)));
    let id = sink.next_id();
    sink.push(Case {
        id,
        key: format!("{}{}", input_coq, if files { " files" } else { "" }),
        input_coq,
        input_json: json!({"part": "chain", "vols": vols, "ops": ops.iter().map(|o| o.json()).collect::<Vec<_>>(), "files": files}),
        obs,
        verdict,
        classes: vec![],
        tags,
        nontrivial,
    });
}

fn gen_split(rng: &mut Rng, data: &[u8]) -> Vec<Vec<u8>> {
    let k = 1 + rng.size(6) as usize; // 1..7 volumes
    let mut cuts: Vec<usize> = (0..k - 1).map(|_| rng.below(data.len() as u64 + 1) as usize).collect();
    // favour empty volumes: repeat cut points, cut at 0 and at the end
    for c in cuts.iter_mut() {
        match rng.below(8) {
            0 => *c = 0,
            1 => *c = data.len(),
            _ => {}
        }
    }
    if cuts.len() >= 2 && rng.chance(1, 3) {
        let j = rng.below(cuts.len() as u64 - 1) as usize;
        cuts[j + 1] = cuts[j];
    }
    cuts.sort();
    let mut vols = vec![];
    let mut prev = 0;
    for c in cuts {
        vols.push(data[prev..c].to_vec());
        prev = c;
    }
    vols.push(data[prev..].to_vec());
    vols
}

fn gen_op(rng: &mut Rng, len: u64) -> Op {
    let around = |rng: &mut Rng| -> i64 { rng.range(0, 2 * len + 6) as i64 - (len as i64 + 3) };
    match rng.below(20) {
        0..=4 => Op::Read(match rng.below(6) {
            0 => 0,
            1 => 1,
            2 => len + rng.below(4),
            _ => rng.below(len + 2),
        }),
        5..=6 => Op::ReadFull(match rng.below(4) {
            0 => len + 1 + rng.below(100),
            _ => rng.below(len + 3),
        }),
        7 => Op::ReadToEnd,
        8..=11 => Op::Start(match rng.below(12) {
            0 => u64::MAX - rng.below(2),
            1 => len,
            2 => len + 1 + rng.below(3),
            3 => 0,
            _ => rng.below(len + 1),
        }),
        12..=15 => Op::Cur(match rng.below(14) {
            0 => i64::MIN,
            1 => i64::MAX,
            2 => 0,
            3 => i64::MIN + 1,
            _ => around(rng),
        }),
        _ => Op::End(match rng.below(14) {
            0 => i64::MIN,
            1 => i64::MAX,
            2 => 0,
            3 => 1 + rng.below(3) as i64,
            _ => -(rng.below(len + 3) as i64),
        }),
    }
}

fn gen_chain_case(rng: &mut Rng, big: bool) -> (Vec<Vec<u8>>, Vec<Op>, bool) {
    let len = rng.size(if big { 60 } else { 24 });
    let base = rng.below(200) as u8;
    let data: Vec<u8> = (0..len).map(|i| if rng.chance(1, 8) { rng.below(256) as u8 } else { base.wrapping_add(i as u8) }).collect();
    let vols = if rng.chance(1, 12) {
        // nothing but empty volumes
        (0..rng.range(1, 4)).map(|_| vec![]).collect()
    } else {
        gen_split(rng, &data)
    };
    let len: u64 = vols.iter().map(|v| v.len() as u64).sum();
    let nops = rng.size(if big { 24 } else { 12 }) as usize;
    let ops = (0..nops).map(|_| gen_op(rng, len)).collect();
    (vols, ops, rng.chance(1, 10))
}


/// Family "border": every volume is read before (so that the inner readers are left at arbitrary
/// offsets), then reads whose size is the distance from the current position to the next volume border
/// (sometimes +-1) are followed by seeks whose target lies inside the volume that has just become current
/// (or inside the current / the previous one), then reads again.  The generator tracks the position the
/// way one file would (single reads end at a volume border).
fn gen_border_case(rng: &mut Rng, big: bool) -> (Vec<Vec<u8>>, Vec<Op>, bool) {
    let k = rng.range(2, if big { 6 } else { 5 }) as usize;
    let mut vols: Vec<Vec<u8>> = vec![];
    let mut next = rng.below(100) as u8;
    for _ in 0..k {
        let n = if rng.chance(1, 10) { 0 } else { rng.range(1, if big { 9 } else { 6 }) };
        vols.push((0..n).map(|_| { next = next.wrapping_add(1); next }).collect());
    }
    let len: u64 = vols.iter().map(|v| v.len() as u64).sum();
    if len == 0 {
        vols[0] = vec![1, 2, 3];
    }
    let len: u64 = vols.iter().map(|v| v.len() as u64).sum();
    // borders: start offsets of the non-empty volumes, and the end
    let mut starts: Vec<u64> = vec![];
    let mut acc = 0u64;
    for v in &vols {
        if !v.is_empty() {
            starts.push(acc);
        }
        acc += v.len() as u64;
    }
    let vol_of = |p: u64| -> (u64, u64) {
        // [start, end) of the volume holding p (the last one for p = len)
        let mut s = 0u64;
        let mut e = len;
        for (i, st) in starts.iter().enumerate() {
            if *st <= p {
                s = *st;
                e = if i + 1 < starts.len() { starts[i + 1] } else { len };
            }
        }
        (s, e)
    };
    let mut ops: Vec<Op> = vec![];
    let mut pos: u64 = 0;
    // phase 1: read through all / most of the volumes
    match rng.below(4) {
        0 => {
            ops.push(Op::ReadToEnd);
            pos = len;
        }
        1 => {
            let n = len - rng.below(2).min(len);
            ops.push(Op::ReadFull(n));
            pos = n;
        }
        _ => {
            // volume by volume with single reads, sometimes leaving a rest
            while pos < len {
                let (_, e) = vol_of(pos);
                let want = (e - pos) + rng.below(3);
                ops.push(Op::Read(want));
                pos = e.min(pos + want);
                if rng.chance(1, 8) {
                    break;
                }
            }
        }
    }
    let push_seek = |rng: &mut Rng, ops: &mut Vec<Op>, pos: &mut u64, t: u64| {
        let op = match rng.below(3) {
            0 => Op::Start(t),
            1 => Op::Cur(t as i64 - *pos as i64),
            _ => Op::End(t as i64 - len as i64),
        };
        ops.push(op);
        *pos = t;
    };
    // go somewhere: mostly the start of the chain or of a volume
    let t = match rng.below(4) {
        0 => 0,
        1 => rng.below(len + 1),
        _ => *rng.pick(&starts),
    };
    push_seek(rng, &mut ops, &mut pos, t);
    // phase 2
    for _ in 0..rng.range(1, if big { 5 } else { 3 }) {
        if pos >= len {
            let t = *rng.pick(&starts);
            push_seek(rng, &mut ops, &mut pos, t);
        }
        // read up to the next border (+-1)
        let (_, e) = vol_of(pos);
        let dist = e - pos;
        let n = match rng.below(8) {
            0 => dist.saturating_sub(1),
            1 => dist + 1,
            _ => dist,
        };
        if rng.chance(3, 4) {
            ops.push(Op::Read(n));
            pos = e.min(pos + n);
        } else {
            ops.push(Op::ReadFull(n));
            pos = len.min(pos + n);
        }
        if rng.chance(1, 6) {
            ops.push(Op::Cur(0));
        }
        // seek into the volume that is current now (sometimes the one before / anywhere)
        let (s, e) = if pos < len { vol_of(pos) } else { (0, len) };
        let t = match rng.below(8) {
            0 => rng.below(len + 1),
            1 => s,
            2 => s.saturating_sub(1),
            _ => s + rng.below((e - s).max(1)),
        };
        push_seek(rng, &mut ops, &mut pos, t);
        // and read there
        match rng.below(4) {
            0 => {
                ops.push(Op::ReadToEnd);
                pos = len;
            }
            1 => {
                let n = rng.below(len + 2);
                ops.push(Op::ReadFull(n));
                pos = len.min(pos + n);
            }
            _ => {
                let n = 1 + rng.below(4);
                ops.push(Op::Read(n));
                if pos < len {
                    let (_, e) = vol_of(pos);
                    pos = e.min(pos + n);
                }
            }
        }
    }
    (vols, ops, rng.chance(1, 10))
}

/// all ways to cut `data` into exactly k consecutive (possibly empty) volumes
fn all_splits(data: &[u8], k: usize) -> Vec<Vec<Vec<u8>>> {
    if k == 1 {
        return vec![vec![data.to_vec()]];
    }
    let mut out = vec![];
    for c in 0..=data.len() {
        for mut rest in all_splits(&data[c..], k - 1) {
            let mut v = vec![data[..c].to_vec()];
            v.append(&mut rest);
            out.push(v);
        }
    }
    out
}

fn chain_corpus(sink: &mut Sink) {
    let b = |s: &str| s.as_bytes().to_vec();
    // the defects repaired by the three `fix:` commits (DESIGN Appendix A, C20-1)
    record_chain(sink, vec![b("ab"), b(""), b("cd")], vec![Op::ReadToEnd], false, "witness_empty_volume");
    record_chain(sink, vec![b(""), b("ab"), b("cd")], vec![Op::Read(1), Op::ReadFull(10)], false, "witness_empty_volume");
    record_chain(sink, vec![b("ab"), b("cd")], vec![Op::Start(1), Op::End(3), Op::Read(1)], false, "witness_seek_end_positive");
    record_chain(sink, vec![b("ab"), b("cd")], vec![Op::Start(1), Op::Cur(i64::MIN), Op::Read(1), Op::End(i64::MIN), Op::Read(9)], false, "witness_negate_overflow");
    // the repository's own unit test script
    record_chain(
        sink,
        vec![b("hello"), b("world"), b("!")],
        vec![Op::Read(5), Op::Read(5), Op::Cur(-4), Op::Read(5), Op::Start(0), Op::Read(5), Op::End(-1), Op::Read(5), Op::Start(0), Op::ReadToEnd, Op::Cur(-2), Op::ReadToEnd, Op::End(-2), Op::ReadToEnd, Op::Start(2), Op::ReadToEnd],
        false,
        "repo_unit_test",
    );
    // a seek inside the volume that became current by a read ending exactly on its border, after that volume
    // had been read before (a relative fast path in seek_abs would start from the stale inner position)
    record_chain(sink, vec![b("hello"), b("world"), b("!")], vec![Op::ReadToEnd, Op::Start(0), Op::Read(5), Op::Cur(2), Op::ReadToEnd], false, "witness_border_then_seek_inside");
    record_chain(sink, vec![b("hello"), b("world"), b("!")], vec![Op::ReadFull(11), Op::Start(0), Op::Read(5), Op::Start(7), Op::Read(2), Op::End(-1), Op::Read(1)], true, "witness_border_then_seek_inside");
    record_chain(sink, vec![b("hello"), b(""), b("world"), b(""), b(""), b("!")], vec![Op::Read(7), Op::Cur(0), Op::Read(7), Op::Cur(0), Op::ReadFull(7), Op::Cur(0), Op::Read(1)], true, "boundary");
    record_chain(sink, vec![], vec![Op::Read(1), Op::Start(5), Op::End(-1), Op::ReadToEnd, Op::Cur(0)], false, "boundary");
    record_chain(sink, vec![b(""), b("")], vec![Op::Read(1), Op::Start(5), Op::End(-1), Op::ReadToEnd, Op::Cur(0)], true, "boundary");
    record_chain(sink, vec![b("abc")], vec![Op::Start(u64::MAX), Op::Cur(i64::MAX), Op::Read(1), Op::Cur(-1), Op::Read(2), Op::End(i64::MAX), Op::Cur(i64::MIN + 1), Op::ReadFull(2)], false, "boundary");
    // seek to the very start of each volume and to the last byte of each, then read across the border
    let vols = vec![b("ab"), b(""), b("cde"), b("f"), b("")];
    let mut ops = vec![];
    for p in 0..=6u64 {
        ops.push(Op::Start(p));
        ops.push(Op::Read(2));
        ops.push(Op::Cur(0));
    }
    record_chain(sink, vols, ops, false, "boundary");
}

fn chain_exhaustive(sink: &mut Sink, data: &[u8], max_vols: usize, seq_len: usize) {
    let len = data.len() as u64;
    let alphabet = vec![
        Op::Read(1),
        Op::Read(2),
        Op::ReadFull(len),
        Op::Start(0),
        Op::Start(1),
        Op::Start(len),
        Op::Cur(-1),
        Op::Cur(1),
        Op::End(-1),
        Op::End(0),
        Op::End(1),
    ];
    let mut seqs: Vec<Vec<Op>> = vec![vec![]];
    for _ in 0..seq_len {
        let mut n = vec![];
        for s in &seqs {
            for o in &alphabet {
                let mut t = s.clone();
                t.push(o.clone());
                n.push(t);
            }
        }
        seqs = n;
    }
    for k in 1..=max_vols {
        for split in all_splits(data, k) {
            for s in &seqs {
                // always end with a read so that the position after the last seek is observed
                let mut ops = s.clone();
                ops.push(Op::Read(1));
                record_chain(sink, split.clone(), ops, false, "exhaustive_small");
            }
        }
    }
}

fn replay_chain(sink: &mut Sink, c: &Value) {
    let vols: Vec<Vec<u8>> = serde_json::from_value(c["vols"].clone()).unwrap();
    let ops: Vec<Op> = c["ops"].as_array().unwrap().iter().map(Op::from_json).collect();
    record_chain(sink, vols, ops, c["files"].as_bool().unwrap_or(false), "replay");
}

// ------------------------------------------------------------------------------------------ part 2
use adlt::utils::unzip::{extract_archives, extract_to_dir};
use std::collections::{BTreeMap, HashMap};
use std::path::{Component, Path, PathBuf};
use std::sync::{atomic::AtomicBool, Arc};

#[derive(Clone, Debug)]
struct MSpec {
    name: String,
    kind: u8, // 0 file, 1 directory, 2 symlink
    data: Vec<u8>,
    deflate: bool,
}
/// a member as the zip crate presents it (`by_index`)
#[derive(Clone, Debug)]
struct Presented {
    name: String,
    is_dir: bool,
    is_symlink: bool,
    data: Vec<u8>,
}

fn write_zip(ms: &[MSpec], dup: &[(String, String)]) -> Option<Vec<u8>> {
    let mut w = zip::ZipWriter::new(Cursor::new(Vec::new()));
    for m in ms {
        let o = zip::write::SimpleFileOptions::default()
            .compression_method(if m.deflate { zip::CompressionMethod::Deflated } else { zip::CompressionMethod::Stored })
            .unix_permissions(0o644);
        match m.kind {
            1 => w.add_directory(m.name.clone(), o).ok()?,
            2 => w.add_symlink(m.name.clone(), String::from_utf8_lossy(&m.data).to_string(), o).ok()?,
            _ => {
                w.start_file(m.name.clone(), o).ok()?;
                w.write_all(&m.data).ok()?;
            }
        }
    }
    let mut bytes = w.finish().ok()?.into_inner();
    // duplicate member names: the writer refuses them, so a second name of the same length is patched
    for (from, to) in dup {
        assert_eq!(from.len(), to.len());
        let f = from.as_bytes();
        let mut i = 0;
        while i + f.len() <= bytes.len() {
            if &bytes[i..i + f.len()] == f {
                bytes[i..i + f.len()].copy_from_slice(to.as_bytes());
                i += f.len();
            } else {
                i += 1;
            }
        }
    }
    Some(bytes)
}

fn present(bytes: &[u8]) -> Option<Vec<Presented>> {
    let mut za = zip::ZipArchive::new(Cursor::new(bytes.to_vec())).ok()?;
    let mut out = vec![];
    for i in 0..za.len() {
        let mut f = za.by_index(i).ok()?;
        let mut data = vec![];
        let (is_dir, is_symlink) = (f.is_dir(), f.is_symlink());
        if !is_dir {
            f.read_to_end(&mut data).ok()?;
        }
        out.push(Presented { name: f.name().to_string(), is_dir, is_symlink, data });
    }
    // file_names() must present the same names in the same order (assumption of the model)
    let names: Vec<String> = za.file_names().map(|s| s.to_string()).collect();
    if names != out.iter().map(|p| p.name.clone()).collect::<Vec<_>>() {
        return None;
    }
    Some(out)
}

/// the oracle's own reading of "the name does not lead outside": lexical walk of the components
fn norm(name: &str) -> Option<Vec<String>> {
    if name.contains('\0') {
        return None;
    }
    let mut loc: Vec<String> = vec![];
    for c in Path::new(name).components() {
        match c {
            Component::Prefix(_) | Component::RootDir => return None,
            Component::CurDir => {}
            Component::ParentDir => {
                loc.pop()?;
            }
            Component::Normal(s) => loc.push(s.to_str()?.to_string()),
        }
    }
    Some(loc)
}

#[derive(Clone, Debug, PartialEq)]
enum Node {
    Dir,
    File(Vec<u8>),
    Other,
}
type Tree = BTreeMap<Vec<String>, Node>;

fn walk(dir: &Path, rel: &mut Vec<String>, out: &mut Tree) {
    if let Ok(rd) = std::fs::read_dir(dir) {
        for e in rd.flatten() {
            let p = e.path();
            let name = e.file_name().to_string_lossy().to_string();
            rel.push(name);
            let md = std::fs::symlink_metadata(&p).unwrap();
            if md.file_type().is_symlink() {
                out.insert(rel.clone(), Node::Other);
            } else if md.is_dir() {
                out.insert(rel.clone(), Node::Dir);
                walk(&p, rel, out);
            } else {
                out.insert(rel.clone(), Node::File(std::fs::read(&p).unwrap_or_default()));
            }
            rel.pop();
        }
    }
}
fn copy_tree(from: &Path, to: &Path) {
    std::fs::create_dir_all(to).unwrap();
    for e in std::fs::read_dir(from).unwrap().flatten() {
        let p = e.path();
        if p.is_dir() {
            copy_tree(&p, &to.join(e.file_name()));
        } else {
            std::fs::copy(&p, to.join(e.file_name())).unwrap();
        }
    }
}
fn tree_of(dir: &Path) -> Tree {
    let mut t = Tree::new();
    walk(dir, &mut vec![], &mut t);
    t
}

fn cstr(s: &str) -> String {
    cnums(s.as_bytes())
}
fn cmembers(ps: &[Presented]) -> String {
    clist(
        &ps.iter()
            .map(|p| {
                if p.data.len() > 64 && p.data.iter().all(|b| *b == p.data[0]) {
                    format!("mmr {} {} {} {}", cstr(&p.name), cbool(p.is_symlink), p.data[0], p.data.len())
                } else {
                    format!("mm {} {} {}", cstr(&p.name), cbool(p.is_symlink), cnums(&p.data))
                }
            })
            .collect::<Vec<_>>(),
    )
}
fn o_tree(t: &Tree) -> O {
    O::T(t
        .iter()
        .map(|(k, n)| {
            let key = O::T(k.iter().map(|s| O::bytes(s.as_bytes())).collect());
            match n {
                Node::Dir => O::T(vec![key, O::L(0), O::T(vec![])]),
                Node::File(c) => O::T(vec![key, O::L(1), O::bytes(c)]),
                Node::Other => O::T(vec![key, O::L(2), O::T(vec![])]),
            }
        })
        .collect())
}

/// Everything happens below a fresh `outer` directory:
///   outer/{sentinel, decoy/old.txt, arch/}                       arch/: where archive files are put
///   outer/l1/l2/l3/{sentinel, decoy/old.txt, t/}                 t/: the target dir of extract_to_dir
/// and TMPDIR points to outer/l1/l2/l3 while extract_archives runs, so that its temp dir is a sibling of t/.
/// Hostile names with up to three `..` (and absolute names, which are rewritten to point into `outer`)
/// therefore stay inside `outer`, where a write is seen by `untouched`.
struct Sandbox {
    _outer: tempfile::TempDir,
    outer: PathBuf,
    l3: PathBuf,
    t: PathBuf,
    before: Tree, // the outer directory without the target dir
}
const SENTINEL: &[u8] = b"do not touch";
static ORIG_TMPDIR: std::sync::LazyLock<Option<std::ffi::OsString>> = std::sync::LazyLock::new(|| std::env::var_os("TMPDIR"));
fn sandbox() -> Sandbox {
    let outer_td = tempfile::tempdir().expect("tempdir");
    let outer = outer_td.path().canonicalize().unwrap();
    let l3 = outer.join("l1").join("l2").join("l3");
    std::fs::create_dir_all(&l3).unwrap();
    for d in [&outer, &l3] {
        std::fs::write(d.join("sentinel"), SENTINEL).unwrap();
        std::fs::create_dir(d.join("decoy")).unwrap();
        std::fs::write(d.join("decoy").join("old.txt"), SENTINEL).unwrap();
    }
    std::fs::create_dir(outer.join("arch")).unwrap();
    let t = l3.join("t");
    std::fs::create_dir(&t).unwrap();
    let mut sb = Sandbox { _outer: outer_td, outer, l3, t, before: Tree::new() };
    sb.before = sb.snapshot(None);
    sb
}
impl Sandbox {
    /// the tree below outer without arch/, t_before/ and the target dir (t/ or the given temp dir)
    fn snapshot(&self, tdir: Option<&Path>) -> Tree {
        let mut now = tree_of(&self.outer);
        let tname = tdir.and_then(|p| p.file_name()).map(|s| s.to_string_lossy().to_string());
        now.retain(|k, _| {
            let in_l3 = k.len() >= 4 && k[0] == "l1" && k[1] == "l2" && k[2] == "l3";
            !(k[0] == "arch" || k[0] == "t_before" || (in_l3 && (k[3] == "t" || Some(&k[3]) == tname.as_ref())))
        });
        now
    }
    fn untouched(&self, tdir: Option<&Path>) -> bool {
        self.snapshot(tdir) == self.before
    }
    /// absolute hostile names are written as "/ABS/..." and point into the sandbox
    fn absolutize(&self, name: &str) -> String {
        name.replace("/ABS", &self.outer.to_string_lossy())
    }
}

struct ExtractRun {
    result: Result<Vec<String>, String>, // reported names (relative to T) or the error
    tree: Tree,
    untouched: bool,
}

/// what must hold for an extraction run, stated on names/bytes only (independent of the Coq model)
fn extract_oracle(
    ps: &[Presented],
    pre: &Tree,
    filter: &Option<Vec<String>>,
    rn: &HashMap<String, String>,
    run: &ExtractRun,
    t_before: Option<&Path>, // the target dir as it was before the run (None: it was empty)
) -> (Verdict, Vec<String>) {
    let mut classes: Vec<String> = vec![];
    let v = extract_oracle_inner(ps, pre, filter, rn, run, t_before, &mut classes);
    (v, classes)
}
const CLASS_STALE_ALIAS: &str = "stale_alias_reported_as_already_extracted";
fn extract_oracle_inner(
    ps: &[Presented],
    pre: &Tree,
    filter: &Option<Vec<String>>,
    rn: &HashMap<String, String>,
    run: &ExtractRun,
    t_before: Option<&Path>,
    classes: &mut Vec<String>,
) -> Verdict {
    let fail = |c: &str, d: String| Verdict::Fail { clause: c.into(), detail: d };
    if !run.untouched {
        return fail("extract_confined", "something outside the target directory was created or changed".into());
    }
    if let Some((k, _)) = run.tree.iter().find(|(_, n)| **n == Node::Other) {
        return fail("extract_confined", format!("a symbolic link / special file was created at {:?}", k));
    }
    let renamed = |n: &str| rn.get(n).cloned().unwrap_or_else(|| n.to_string());
    // names of the filter that are already there (as files, inside) are reported first and not extracted again
    let mut expected: Vec<String> = vec![];
    let mut found_before: Vec<(String, String)> = vec![]; // (requested member name, reported name)
    let mut remaining: Option<Vec<String>> = None;
    if let Some(fl) = filter {
        let mut keep = vec![];
        for f in fl {
            let n = renamed(f);
            // "already extracted": the name stays inside and designates an existing file (asked from the real file system)
            let there = norm(&n).is_some() && t_before.map_or(false, |t| t.join(&n).is_file());
            if there {
                found_before.push((f.clone(), n.clone()));
                expected.push(n)
            } else {
                keep.push(f.clone())
            }
        }
        remaining = Some(keep);
    }
    // the members that are to be extracted, in archive order
    let mut writers: BTreeMap<Vec<String>, Vec<Vec<u8>>> = BTreeMap::new(); // writers per location, in order
    for p in ps {
        let eligible = norm(&p.name).is_some() && !p.is_dir && !p.is_symlink && remaining.as_ref().map_or(true, |k| k.contains(&p.name));
        if eligible {
            let n = renamed(&p.name);
            expected.push(n.clone());
            if let Some(loc) = norm(&n) {
                writers.entry(loc).or_default().push(p.data.clone());
            }
        }
    }
    // faithful: every file in the target dir is a member's bytes (last writer) or was there before
    for (k, n) in run.tree.iter() {
        if let Node::File(c) = n {
            // after a complete run the last member written there; after an error any of them (or the old file)
            let ok = match writers.get(k) {
                Some(ds) if run.result.is_ok() => ds.last() == Some(c),
                Some(ds) => ds.contains(c) || pre.get(k) == Some(n),
                None => pre.get(k) == Some(n),
            };
            if !ok {
                return fail("extract_faithful", format!("{:?} holds {:?}", k, &c[..c.len().min(16)]));
            }
        }
    }
    match &run.result {
        // an I/O error is reported to the caller; it is legitimate only if some selected name denotes a
        // directory or clashes (file vs. directory) with another selected member or with what is there
        Err(e) => {
            if conflict_possible(ps, pre, &remaining, rn) {
                Verdict::Ok
            } else {
                fail("extract_unexpected_error", e.clone())
            }
        }
        Ok(rep) => {
            if *rep != expected {
                return fail("extract_exact_set", format!("reported {:?}, expected {:?}", rep, expected));
            }
            for r in rep {
                match norm(r) {
                    Some(loc) if !loc.is_empty() => {
                        if !matches!(run.tree.get(&loc), Some(Node::File(_))) {
                            return fail("extract_reported_exists", format!("{:?} is reported but no file is there", r));
                        }
                    }
                    _ => return fail("extract_reported_inside", format!("reported name {:?} leads outside", r)),
                }
            }
            // a member reported as "already extracted" must be there with ITS bytes
            for (f, n) in &found_before {
                let member = ps.iter().rev().find(|p| p.name == *f && !p.is_dir && !p.is_symlink);
                if let (Some(m), Some(loc)) = (member, norm(n)) {
                    if let Some(Node::File(c)) = run.tree.get(&loc) {
                        if *c != m.data {
                            // known finding: the file was written for another member whose name is a different
                            // string but the same path
                            let alias = ps.iter().any(|q| q.name != *f && !q.is_dir && !q.is_symlink && q.data == *c && norm(&renamed(&q.name)).as_ref() == Some(&loc));
                            if alias {
                                classes.push(CLASS_STALE_ALIAS.to_string());
                            }
                            return fail(
                                "extract_faithful_already_there",
                                format!("{:?} is reported as already extracted, but {:?} holds {:?}, the member has {:?}", n, loc, &c[..c.len().min(16)], &m.data[..m.data.len().min(16)]),
                            );
                        }
                    }
                }
            }
            Verdict::Ok
        }
    }
}

fn conflict_possible(ps: &[Presented], pre: &Tree, remaining: &Option<Vec<String>>, rn: &HashMap<String, String>) -> bool {
    use std::collections::BTreeSet;
    let mut files: BTreeSet<Vec<String>> = BTreeSet::new();
    let mut dirs: BTreeSet<Vec<String>> = BTreeSet::new();
    for (k, n) in pre {
        match n {
            Node::File(_) => files.insert(k.clone()),
            _ => dirs.insert(k.clone()),
        };
    }
    for p in ps {
        if norm(&p.name).is_none() || !remaining.as_ref().map_or(true, |k| k.contains(&p.name)) {
            continue;
        }
        if p.is_symlink && !p.is_dir {
            continue;
        }
        let name = if p.is_dir { p.name.clone() } else { rn.get(&p.name).cloned().unwrap_or_else(|| p.name.clone()) };
        let mut loc: Vec<String> = vec![];
        let mut visited: Vec<Vec<String>> = vec![];
        for c in Path::new(&name).components() {
            match c {
                Component::Normal(s) => {
                    loc.push(s.to_string_lossy().to_string());
                    visited.push(loc.clone());
                }
                Component::ParentDir => {
                    loc.pop();
                }
                _ => {}
            }
        }
        if p.is_dir {
            dirs.extend(visited);
        } else {
            let last = name.rsplit('/').next().unwrap_or("");
            if last.is_empty() || last == "." || last == ".." || loc.is_empty() {
                return true; // the name denotes a directory
            }
            // every location passed through is a directory, the final one a file
            for v in visited {
                if v != loc {
                    dirs.insert(v);
                }
            }
            files.insert(loc);
        }
    }
    files.iter().any(|f| dirs.contains(f))
}

/// flag in `vols_seed`: cut the archive where members start/end (local header starts, data starts, the
/// central directory) instead of at random offsets
const MEMBER_SPLIT: u64 = 1 << 62;
fn split_at_members(rng: &mut Rng, bytes: &[u8]) -> Vec<Vec<u8>> {
    let mut cand: Vec<usize> = vec![];
    if let Ok(mut za) = zip::ZipArchive::new(Cursor::new(bytes.to_vec())) {
        for i in 0..za.len() {
            if let Ok(f) = za.by_index_raw(i) {
                cand.push(f.header_start() as usize);
                if rng.chance(1, 4) {
                    cand.push(f.data_start() as usize);
                }
                cand.push((f.data_start() + f.compressed_size()) as usize);
            }
        }
    }
    cand.retain(|c| *c > 0 && *c < bytes.len());
    cand.sort();
    cand.dedup();
    let mut cuts: Vec<usize> = cand.iter().filter(|_| rng.chance(2, 3)).cloned().collect();
    if cuts.is_empty() && !cand.is_empty() {
        cuts.push(*rng.pick(&cand));
    }
    cuts.truncate(6);
    let mut v = vec![];
    let mut prev = 0;
    for c in cuts {
        v.push(bytes[prev..c].to_vec());
        prev = c;
    }
    v.push(bytes[prev..].to_vec());
    v
}

fn split_volumes(rng: &mut Rng, bytes: &[u8]) -> Vec<Vec<u8>> {
    match rng.below(3) {
        0 => vec![bytes.to_vec()],
        _ => {
            let k = rng.range(2, 4) as usize;
            let mut cuts: Vec<usize> = (0..k - 1).map(|_| rng.below(bytes.len() as u64 + 1) as usize).collect();
            if rng.chance(1, 3) {
                cuts[0] = *rng.pick(&[0usize, bytes.len()]);
            }
            cuts.sort();
            let mut v = vec![];
            let mut prev = 0;
            for c in cuts {
                v.push(bytes[prev..c].to_vec());
                prev = c;
            }
            v.push(bytes[prev..].to_vec());
            v
        }
    }
}

fn o_run(run: &ExtractRun) -> O {
    match &run.result {
        Ok(rep) => O::T(vec![O::L(0), O::T(rep.iter().map(|s| O::bytes(s.as_bytes())).collect()), o_tree(&run.tree), O::b(run.untouched)]),
        Err(_) => O::T(vec![O::L(1), O::T(vec![]), o_tree(&run.tree), O::b(run.untouched)]),
    }
}

fn name_tags(ps: &[Presented], tags: &mut Vec<String>) -> bool {
    let mut hostile = false;
    for p in ps {
        let n = &p.name;
        let mut t = |s: &str| tags.push(s.to_string());
        if norm(n).is_none() {
            t("name_leads_outside");
            hostile = true;
        }
        if n.starts_with('/') {
            t("name_absolute");
        }
        if n.split('/').any(|s| s == "..") {
            t("name_with_dotdot");
            hostile = true;
        }
        if n.split('/').any(|s| s == ".") || n.contains("//") {
            t("name_with_dot_or_empty_segment");
        }
        if p.is_dir {
            t("member_dir");
        }
        if p.is_symlink {
            t("member_symlink");
        }
        if !p.is_dir && p.data.is_empty() {
            t("member_empty");
        }
        if n.contains('\\') {
            t("name_with_backslash");
        }
        if !n.is_ascii() {
            t("name_non_ascii");
        }
        if n.contains('/') && norm(n).is_some() {
            t("name_nested");
        }
    }
    hostile
}

fn tree_as_pre(t: &Tree) -> Vec<(String, Option<Vec<u8>>)> {
    t.iter()
        .map(|(k, n)| (k.join("/"), match n { Node::File(c) => Some(c.clone()), _ => None }))
        .collect()
}
fn populate(dir: &Path, pre: &[(String, Option<Vec<u8>>)]) {
    for (p, c) in pre {
        let full = dir.join(p);
        match c {
            None => std::fs::create_dir_all(&full).unwrap(),
            Some(c) => {
                std::fs::create_dir_all(full.parent().unwrap()).unwrap();
                std::fs::write(&full, c).unwrap();
            }
        }
    }
}
fn ctree(t: &Tree) -> String {
    clist(
        &t.iter()
            .map(|(k, n)| {
                format!(
                    "({}, {})",
                    clist(&k.iter().map(|s| cstr(s)).collect::<Vec<_>>()),
                    match n {
                        Node::File(c) => format!("F {}", cnums(c)),
                        _ => "D".to_string(),
                    }
                )
            })
            .collect::<Vec<_>>(),
    )
}
fn refresh_copy(from: Option<&Path>, to: &Path) {
    let _ = std::fs::remove_dir_all(to);
    match from {
        Some(f) => copy_tree(f, to),
        None => std::fs::create_dir_all(to).unwrap(),
    }
}

/// One archive, one target dir, a SEQUENCE of extract_to_dir calls (one files_filter each) into that same
/// dir; every call is recorded as its own case whose input holds the state of the dir before the call.
#[allow(clippy::too_many_arguments)]
fn record_extract_seq(sink: &mut Sink, ms_in: &[MSpec], dup: &[(String, String)], pre: &[(String, Option<Vec<u8>>)], filters_in: &[Option<Vec<String>>], rn: Vec<(String, String)>, vols_seed: u64, extra_tag: &str) {
    let sb = sandbox();
    let ms: Vec<MSpec> = ms_in.iter().map(|m| MSpec { name: sb.absolutize(&m.name), ..m.clone() }).collect();
    let ms = &ms[..];
    let bytes = match write_zip(ms, dup) {
        Some(b) => b,
        None => return,
    };
    let ps = match present(&bytes) {
        Some(p) => p,
        None => return,
    };
    populate(&sb.t, pre);
    let rn_map: HashMap<String, String> = rn.iter().cloned().collect();
    for (step, filter_in) in filters_in.iter().enumerate() {
        let filter: Option<Vec<String>> = filter_in.as_ref().map(|f| f.iter().map(|n| sb.absolutize(n)).collect());
        let pre_tree = tree_of(&sb.t);
        // a copy of the target dir as it is before the run, for the oracle
        let t_copy = sb.outer.join("t_before");
        refresh_copy(Some(&sb.t), &t_copy);
        let mut vrng = Rng::new(vols_seed.wrapping_add(step as u64));
        let vols = if vols_seed == 0 {
            vec![bytes.clone()]
        } else if vols_seed & MEMBER_SPLIT != 0 {
            split_at_members(&mut vrng, &bytes)
        } else {
            split_volumes(&mut vrng, &bytes)
        };
        let nvols = vols.len();
        let cancel = Arc::new(AtomicBool::new(false));
        let t = sb.t.clone();
        let (f2, rn2) = (filter.clone(), rn_map.clone());
        let r = catch_loc(move || {
            let chain = SeekableChain::new(vols.into_iter().map(Cursor::new).collect::<Vec<_>>());
            extract_to_dir(chain, &t, f2, &rn2, &cancel)
        });
        let result = match r {
            Err(p) => Err(format!("panic: {}", p)),
            Ok(Err(e)) => Err(e.to_string()),
            Ok(Ok(v)) => Ok(v.iter().map(|p| p.to_string_lossy().to_string()).collect::<Vec<_>>()),
        };
        let panicked = matches!(&result, Err(e) if e.starts_with("panic: "));
        let run = ExtractRun { result, tree: tree_of(&sb.t), untouched: sb.untouched(None) };
        let (mut verdict, classes) = extract_oracle(&ps, &pre_tree, &filter, &rn_map, &run, Some(&t_copy));
        if panicked {
            verdict = Verdict::Fail { clause: "extract_no_panic".into(), detail: run.result.clone().unwrap_err() };
        }
        let cfilter = copt(filter.as_ref().map(|f| clist(&f.iter().map(|s| cstr(s)).collect::<Vec<_>>())));
        let crn = clist(&rn.iter().map(|(a, b)| format!("({}, {})", cstr(a), cstr(b))).collect::<Vec<_>>());
        let input_coq = format!("CExtract {} {} {} {}", ctree(&pre_tree), cfilter, crn, cmembers(&ps));
        let mut tags = vec!["extract_to_dir".to_string(), format!("archive_volumes{}", nvols.min(5))];
        if vols_seed & MEMBER_SPLIT != 0 {
            tags.push("volumes_cut_at_member_boundaries".into());
        }
        let hostile = name_tags(&ps, &mut tags);
        if filter.is_some() {
            tags.push("with_filter".into())
        }
        if !rn.is_empty() {
            tags.push("with_rename".into())
        }
        if !pre_tree.is_empty() {
            tags.push("target_dir_not_empty".into())
        }
        if step > 0 {
            tags.push("target_dir_reused_by_a_later_call".into())
        }
        if !dup.is_empty() {
            tags.push("duplicate_member_names".into())
        }
        if run.result.is_err() {
            tags.push("extract_returned_err".into())
        }
        if !extra_tag.is_empty() {
            tags.push(extra_tag.into())
        }
        tags.sort();
        tags.dedup();
        let nontrivial = (hostile || extra_tag.contains("alias")) && matches!(&run.result, Ok(v) if !v.is_empty());
        let id = sink.next_id();
        // the replay of a later call starts from the tree the earlier calls left
        let pre_json = if step == 0 { pre.to_vec() } else { tree_as_pre(&pre_tree) };
        sink.push(Case {
            id,
            key: input_coq.clone(),
            input_coq,
            input_json: json!({"part": "extract",
                "members": ms_in.iter().map(|m| json!({"name": m.name, "kind": m.kind, "data": m.data, "deflate": m.deflate})).collect::<Vec<_>>(),
                "dup": dup, "pre": pre_json, "filter": filter_in, "rename": rn, "vols_seed": vols_seed.wrapping_add(step as u64)}),
            obs: o_run(&run),
            verdict,
            classes,
            tags,
            nontrivial,
        });
    }
}
#[allow(clippy::too_many_arguments)]
fn record_extract(sink: &mut Sink, ms_in: &[MSpec], dup: &[(String, String)], pre: &[(String, Option<Vec<u8>>)], filter_in: Option<Vec<String>>, rn: Vec<(String, String)>, vols_seed: u64, extra_tag: &str) {
    record_extract_seq(sink, ms_in, dup, pre, &[filter_in], rn, vols_seed, extra_tag)
}

/// One archive on disk, a SEQUENCE of extract_archives calls (one glob pattern each) sharing the list of temp
/// dirs, so that later calls reuse the temp dir of the archive.  `start_pre`: the temp dir already exists with
/// this content before the first call (replay of a later call).
#[allow(clippy::too_many_arguments)]
fn record_archives_seq(sink: &mut Sink, ms_in: &[MSpec], dup: &[(String, String)], stem: &str, patterns_in: &[String], bang: bool, multi_vol: u64, start_pre: Option<&[(String, Option<Vec<u8>>)]>, extra_tag: &str) {
    let sb = sandbox();
    let ms: Vec<MSpec> = ms_in.iter().map(|m| MSpec { name: sb.absolutize(&m.name), ..m.clone() }).collect();
    let ms = &ms[..];
    let bytes = match write_zip(ms, dup) {
        Some(b) => b,
        None => return,
    };
    let ps = match present(&bytes) {
        Some(p) => p,
        None => return,
    };
    // the archive lives in outer/arch; the temp dirs of extract_archives are made in outer/l1/l2/l3
    let adir = sb.outer.join("arch");
    let first = if multi_vol >= 2 {
        let n = multi_vol as usize;
        let per = bytes.len() / n + 1;
        for (i, chunk) in bytes.chunks(per).enumerate() {
            std::fs::write(adir.join(format!("{}.zip.{:03}", stem, i + 1)), chunk).unwrap();
        }
        adir.join(format!("{}.zip.001", stem))
    } else {
        let p = adir.join(format!("{}.zip", stem));
        std::fs::write(&p, &bytes).unwrap();
        p
    };
    // the archive stem as extract_archives computes it (file_stem of the archive path)
    let astem = first.file_stem().unwrap().to_string_lossy().to_string();
    let log = slog::Logger::root(slog::Discard, slog::o!());
    let cancel = Arc::new(AtomicBool::new(false));
    let mut tds: Vec<(String, tempfile::TempDir)> = vec![];
    if let Some(pre) = start_pre {
        let td = tempfile::Builder::new().tempdir_in(&sb.l3).expect("tempdir_in");
        populate(td.path(), pre);
        tds.push((first.canonicalize().unwrap().to_string_lossy().to_string(), td));
    }
    let fail = |c: &str, d: String| Verdict::Fail { clause: c.into(), detail: d };
    for (step, pattern_in) in patterns_in.iter().enumerate() {
        let pattern_owned = sb.absolutize(pattern_in);
        let pattern = pattern_owned.as_str();
        let pat = match glob::Pattern::new(pattern) {
            Ok(p) => p,
            Err(_) => continue,
        };
        let file_name = format!("{}{}{}", first.to_string_lossy(), if bang { "!/" } else { "/" }, pattern);
        // the split of "archive/glob" is not part of the model: only texts that extract_archives reads as intended
        match adlt::utils::unzip::archive_get_path_and_glob(Path::new(&file_name)) {
            Some((ap, gp)) if ap == first && gp.as_str() == pattern => {}
            _ => {
                *sink.extra_stats.entry("archives_glob_text_not_parsed_as_intended(skipped)".into()).or_insert(json!(0)) =
                    json!(sink.extra_stats.get("archives_glob_text_not_parsed_as_intended(skipped)").and_then(|v| v.as_u64()).unwrap_or(0) + 1);
                continue;
            }
        }
        let reuse = !tds.is_empty();
        let tdir_before: Option<PathBuf> = tds.first().map(|t| t.1.path().to_path_buf());
        let pre_tree = tdir_before.as_ref().map(|d| tree_of(d)).unwrap_or_default();
        let t_copy = sb.outer.join("t_before");
        refresh_copy(tdir_before.as_deref(), &t_copy);
        let fname = file_name.clone();
        std::env::set_var("TMPDIR", &sb.l3);
        let r = {
            let tds_ref = std::panic::AssertUnwindSafe(&mut tds);
            let (cancel, log) = (cancel.clone(), log.clone());
            catch_loc(move || {
                let tds_ref = tds_ref;
                extract_archives(fname, tds_ref.0, &cancel, &log)
            })
        };
        match &*ORIG_TMPDIR {
            Some(v) => std::env::set_var("TMPDIR", v),
            None => std::env::remove_var("TMPDIR"),
        }
        let entries: Vec<(String, bool)> = ps.iter().map(|p| (p.name.clone(), pat.matches(&p.name))).collect();
        let stem_matches = pat.matches(&astem);
        // selection by the oracle
        let single_data = entries.len() == 1 && entries[0].0 == "data";
        let (sel, rn): (Vec<String>, HashMap<String, String>) = if single_data {
            if pattern == "data" {
                (vec!["data".into()], HashMap::new())
            } else if astem == pattern || stem_matches {
                (vec!["data".into()], [("data".to_string(), astem.clone())].into_iter().collect())
            } else {
                (vec![], HashMap::new())
            }
        } else {
            (entries.iter().filter(|(e, m)| (e == pattern || *m) && !e.ends_with('/')).map(|(e, _)| e.clone()).collect(), HashMap::new())
        };
        let tdir_now: Option<PathBuf> = tds.first().map(|t| t.1.path().to_path_buf());
        let untouched = sb.untouched(tdir_now.as_deref());
        let mut classes = vec![];
        let (obs, verdict, is_err, n_rep) = match r {
            Err(p) => (O::T(vec![O::L(3)]), fail("extract_no_panic", p), false, 0),
            Ok(v) => {
                // an empty answer: either nothing was selected (no temp dir is made / touched), or the selected
                // members were all refused; told apart by the temp dir list (new dir) resp. the selection (reused dir)
                let nothing_selected = v.is_empty() && if reuse { sel.is_empty() } else { tdir_now.is_none() };
                if nothing_selected {
                    let verdict = if !sel.is_empty() {
                        fail("extract_exact_set", "members match but nothing was extracted".into())
                    } else if !untouched || tdir_now.as_ref().map_or(false, |d| tree_of(d) != pre_tree) {
                        fail("extract_confined", "something changed although nothing matched".into())
                    } else {
                        Verdict::Ok
                    };
                    (O::T(vec![O::L(2), O::T(vec![]), O::T(vec![]), O::L(1)]), verdict, false, 0)
                } else if v == vec![file_name.clone()] {
                    // extraction failed: a new temp dir is dropped, a reused one keeps what was written
                    let tree = if reuse { tdir_now.as_ref().map(|d| tree_of(d)).unwrap_or_default() } else { Tree::new() };
                    let run = ExtractRun { result: Err("extract_archives returned the archive name".into()), tree, untouched };
                    let verdict = if !reuse && tdir_now.is_some() {
                        fail("extract_exact_set", "a failed extraction left a registered temp dir".into())
                    } else {
                        let (v, c) = extract_oracle(&ps, &pre_tree, &Some(sel.clone()), &rn, &run, Some(&t_copy));
                        classes = c;
                        v
                    };
                    (o_run(&run), verdict, true, 0)
                } else {
                    match &tdir_now {
                        None => (O::T(vec![O::L(4)]), fail("extract_reported_inside", format!("no temp dir but reported {:?}", v)), false, 0),
                        Some(tdir) => {
                            let prefix = format!("{}/", tdir.to_string_lossy());
                            let mut rel = vec![];
                            let mut outside = None;
                            for s in &v {
                                match s.strip_prefix(&prefix) {
                                    Some(r) => rel.push(r.to_string()),
                                    None => outside = Some(s.clone()),
                                }
                            }
                            let run = ExtractRun { result: Ok(rel), tree: tree_of(tdir), untouched };
                            let (mut verdict, c) = extract_oracle(&ps, &pre_tree, &Some(sel.clone()), &rn, &run, Some(&t_copy));
                            classes = c;
                            if let Some(s) = outside {
                                verdict = fail("extract_reported_inside", format!("reported path {:?} is not inside the temp dir {:?}", s, tdir));
                                classes.clear();
                            }
                            if reuse && tdir_before.as_ref() != Some(tdir) {
                                verdict = fail("extract_exact_set", "the temp dir of the archive was not reused".into());
                                classes.clear();
                            }
                            let n = run.result.as_ref().map(|v| v.len()).unwrap_or(0);
                            (o_run(&run), verdict, false, n)
                        }
                    }
                }
            }
        };
        let centries = clist(&entries.iter().map(|(e, m)| format!("({}, {})", cstr(e), cbool(*m))).collect::<Vec<_>>());
        let input_coq = format!("CArchives {} {} {} {} {} {} {}", cbool(reuse), ctree(&pre_tree), cstr(pattern), centries, cstr(&astem), cbool(stem_matches), cmembers(&ps));
        let mut tags = vec!["extract_archives".to_string(), if multi_vol >= 2 { "multi_volume_files".to_string() } else { "single_file".to_string() }];
        let hostile = name_tags(&ps, &mut tags);
        if is_err {
            tags.push("extract_returned_err".into())
        }
        if reuse {
            tags.push("temp_dir_reused_by_a_later_call".into())
        }
        if bang {
            tags.push("glob_after_bang".into())
        }
        if !dup.is_empty() {
            tags.push("duplicate_member_names".into())
        }
        if !extra_tag.is_empty() {
            tags.push(extra_tag.into())
        }
        tags.sort();
        tags.dedup();
        let id = sink.next_id();
        let mut ij = json!({"part": "archives",
            "members": ms_in.iter().map(|m| json!({"name": m.name, "kind": m.kind, "data": m.data, "deflate": m.deflate})).collect::<Vec<_>>(),
            "dup": dup, "stem": stem, "pattern": pattern_in, "bang": bang, "multi_vol": multi_vol});
        if reuse {
            ij["pre"] = json!(tree_as_pre(&pre_tree));
        }
        sink.push(Case {
            id,
            key: input_coq.clone(),
            input_coq,
            input_json: ij,
            obs,
            verdict,
            classes,
            tags,
            nontrivial: (hostile || extra_tag.contains("alias")) && n_rep > 0,
        });
        let _ = step;
    }
}
#[allow(clippy::too_many_arguments)]
fn record_archives(sink: &mut Sink, ms_in: &[MSpec], dup: &[(String, String)], stem: &str, pattern_in: &str, bang: bool, multi_vol: u64, extra_tag: &str) {
    record_archives_seq(sink, ms_in, dup, stem, &[pattern_in.to_string()], bang, multi_vol, None, extra_tag)
}

const NICE: &[&str] = &["a.dlt", "b.dlt", "dir/c.dlt", "dir/sub/d.dlt", "dir/e.txt", "x.bin", "dir2/f.dlt", "dir/", "dir/sub/", "empty/", "g h.dlt", "ü/ö.dlt"];
const HOSTILE: &[&str] = &[
    "../evil.dlt", "../../evil.dlt", "/ABS/abs.dlt", "//ABS/abs2.dlt", "/ABS/decoy/new.txt", "/ABS/sentinel", "dir/../../evil.dlt", "dir/../h.dlt", "./i.dlt", "dir//j.dlt", "dir/./k.dlt",
    "..", ".", "dir/..", "dir/.", "../", "./", "dir/../", "a.dlt/x.dlt", "dir", "..\\evil.dlt", "back\\", "n/o/../p.dlt", "n/o/../../q.dlt",
    "n/o/../../../r.dlt", "../sentinel", "../decoy/new.txt", "..dlt", "...", ".../s.dlt", "dir/sub/../../t.dlt", "x/../a.dlt", "./a.dlt", "dir/../dir/c.dlt",
];

fn gen_members(rng: &mut Rng, outer_hint: bool) -> (Vec<MSpec>, Vec<(String, String)>) {
    let n = 1 + rng.size(7) as usize;
    let mut ms: Vec<MSpec> = vec![];
    let mut dup = vec![];
    for i in 0..n {
        let name = if rng.chance(2, 5) { rng.pick(HOSTILE).to_string() } else { rng.pick(NICE).to_string() };
        if ms.iter().any(|m| m.name == name) {
            continue;
        }
        let kind = if name.ends_with('/') || name.ends_with('\\') {
            1
        } else if rng.chance(1, 15) {
            2
        } else {
            0
        };
        let len = match rng.below(10) {
            0 => 0,
            1 => 60 + rng.below(200),
            _ => rng.below(10),
        };
        let data: Vec<u8> = if kind == 2 { b"../sentinel".to_vec() } else { (0..len).map(|j| (i as u8).wrapping_mul(16).wrapping_add(j as u8)).collect() };
        ms.push(MSpec { name, kind, data, deflate: rng.chance(1, 3) });
    }
    if rng.chance(1, 8) {
        // a duplicate name: two members "dupA.dlt"
        ms.push(MSpec { name: "dupA.dlt".into(), kind: 0, data: b"first".to_vec(), deflate: false });
        ms.push(MSpec { name: "dupB.dlt".into(), kind: 0, data: b"second!".to_vec(), deflate: false });
        dup.push(("dupB.dlt".to_string(), "dupA.dlt".to_string()));
    }
    let _ = outer_hint;
    (ms, dup)
}

fn gen_extract_case(rng: &mut Rng, sink: &mut Sink) {
    let (ms, dup) = gen_members(rng, true);
    let file_names: Vec<String> = ms.iter().map(|m| m.name.clone()).collect();
    let filter = if rng.chance(2, 5) {
        None
    } else {
        let mut f: Vec<String> = file_names.iter().filter(|_| rng.chance(2, 3)).cloned().collect();
        if rng.chance(1, 3) {
            f.push(rng.pick(HOSTILE).to_string());
        }
        if rng.chance(1, 4) {
            f.push("not-there.dlt".into());
        }
        Some(f)
    };
    // the target dir may already hold some of the members (an earlier extraction of the same archive), or a directory
    let mut pre: Vec<(String, Option<Vec<u8>>)> = vec![];
    if rng.chance(1, 3) {
        // (not the byte-patched duplicates: the zip crate presents one member with the later bytes)
        for m in ms.iter().filter(|m| m.kind == 0 && !m.name.starts_with("dup")) {
            if let Some(loc) = norm(&m.name) {
                if !loc.is_empty() && rng.chance(1, 2) && !pre.iter().any(|(p, _)| p.starts_with(&loc.join("/")) || loc.join("/").starts_with(p.as_str())) {
                    pre.push((loc.join("/"), Some(m.data.clone())));
                }
            }
        }
        if rng.chance(1, 4) && !pre.iter().any(|(p, _)| p.starts_with("dir")) {
            pre.push(("dir".into(), None));
        }
    }
    let rn = if rng.chance(1, 6) && !file_names.is_empty() { vec![(rng.pick(&file_names).clone(), "renamed.bin".to_string())] } else { vec![] };
    let seed = if rng.chance(1, 3) { (rng.next() | MEMBER_SPLIT) & !(1 << 63) } else { rng.next() & !MEMBER_SPLIT & !(1 << 63) } | 1;
    record_extract(sink, &ms, &dup, &pre, filter, rn, seed, "");
}

/// plain archives (2..5 stored or deflated regular members, no filter) whose volumes are cut exactly where
/// members begin or end: reading a member then ends on a volume border and the next access seeks into a
/// volume that was read before (while the central directory / local headers were parsed)
fn gen_member_split_case(rng: &mut Rng, sink: &mut Sink) {
    let n = rng.range(2, 5) as usize;
    let mut ms = vec![];
    for i in 0..n {
        let len = rng.range(1, 40);
        ms.push(MSpec {
            name: format!("{}m{}.dlt", if rng.chance(1, 3) { "dir/" } else { "" }, i),
            kind: 0,
            data: (0..len).map(|j| (i as u8 + 1).wrapping_mul(37).wrapping_add(j as u8)).collect(),
            deflate: rng.chance(1, 4),
        });
    }
    let filter = if rng.chance(1, 4) { Some(ms.iter().skip(1).map(|m| m.name.clone()).collect()) } else { None };
    let seed = ((rng.next() | MEMBER_SPLIT) & !(1 << 63)) | 1;
    record_extract(sink, &ms, &[], &[], filter, vec![], seed, "family_member_boundary_split");
}


/// Family "alias": a group of members whose names are DIFFERENT strings but equal or overlapping as paths
/// (repeated separators, "." components, a detour through "..", a trailing separator, a leading "./"), plus
/// look-alikes that are different paths on a case-sensitive, non-normalising file system (case variants,
/// NFC / NFD spellings); every member has its own bytes.
fn alias_group(rng: &mut Rng) -> Vec<MSpec> {
    let (a, b): (&str, &str) = *rng.pick(&[("d", "x.dlt"), ("a", "b"), ("dir", "c.dlt"), ("p/q", "r.dlt"), ("d", "\u{e9}.dlt"), ("top", "m.n.dlt")]);
    let canon = format!("{}/{}", a, b);
    let mut variants: Vec<String> = vec![
        format!("{}//{}", a, b),
        format!("{}/./{}", a, b),
        format!("./{}/{}", a, b),
        format!("{}/c/../{}", a, b),
        format!("{}/././{}", a, b),
        format!(".//{}/{}", a, b),
        format!("{}/../{}/{}", a, a.rsplit('/').next().unwrap(), b),
        format!("{}/{}/", a, b),             // a directory entry with the same path
        format!("{}/{}/.", a, b),            // names the file as if it were a directory
        canon.to_uppercase(),                // a different path on Linux
        format!("{}/{}", a, b.replace('\u{e9}', "e\u{301}")), // NFD spelling (equal to canon unless b has an accent)
    ];
    variants.retain(|v| *v != canon);
    let mut names: Vec<String> = vec![];
    if rng.chance(5, 6) {
        names.push(canon.clone());
    }
    let k = rng.range(1, 4) as usize;
    for _ in 0..k {
        let v = rng.pick(&variants).clone();
        if !names.contains(&v) {
            names.push(v);
        }
    }
    // order in the archive is random
    for i in (1..names.len()).rev() {
        let j = rng.below(i as u64 + 1) as usize;
        names.swap(i, j);
    }
    names
        .into_iter()
        .map(|n| {
            let kind = if n.ends_with('/') { 1 } else { 0 };
            let data = if kind == 1 { vec![] } else { format!("<{}>", n).into_bytes() };
            MSpec { name: n, kind, data, deflate: rng.chance(1, 4) }
        })
        .collect()
}

fn gen_alias_case(rng: &mut Rng, sink: &mut Sink) {
    let group = alias_group(rng);
    let mut ms: Vec<MSpec> = vec![];
    // some ordinary members around the group
    for n in ["z.dlt", "d/y.dlt", "other/w.txt"] {
        if rng.chance(1, 2) {
            ms.push(MSpec { name: n.into(), kind: 0, data: format!("[{}]", n).into_bytes(), deflate: false });
        }
    }
    let at = rng.below(ms.len() as u64 + 1) as usize;
    for (i, g) in group.iter().enumerate() {
        ms.insert((at + i).min(ms.len()), g.clone());
    }
    let gnames: Vec<String> = group.iter().map(|m| m.name.clone()).collect();
    let all: Vec<String> = ms.iter().map(|m| m.name.clone()).collect();
    let dir_of = |n: &str| -> String {
        let t = n.trim_start_matches("./").trim_start_matches('/');
        t.split('/').next().unwrap_or("").to_string()
    };
    if rng.chance(1, 2) {
        // extract_to_dir: 1..3 calls into the same dir; each file list selects one / some / all of the group
        let calls = rng.range(1, 3) as usize;
        let mut filters: Vec<Option<Vec<String>>> = vec![];
        for _ in 0..calls {
            let f = match rng.below(6) {
                0 => None,
                1 => Some(all.clone()),
                2 | 3 => Some(vec![rng.pick(&gnames).clone()]),
                _ => {
                    let mut f: Vec<String> = gnames.iter().filter(|_| rng.chance(1, 2)).cloned().collect();
                    f.extend(all.iter().filter(|n| !gnames.contains(n) && rng.chance(1, 3)).cloned());
                    if f.is_empty() {
                        f.push(rng.pick(&gnames).clone());
                    }
                    Some(f)
                }
            };
            filters.push(f);
        }
        let seed = if rng.chance(1, 3) { 0 } else { (rng.next() & !(1 << 63) & !MEMBER_SPLIT) | 1 };
        record_extract_seq(sink, &ms, &[], &[], &filters, vec![], seed, "family_alias_names");
    } else {
        // extract_archives: 1..3 calls sharing the temp dir list; literal names of the group and globs around it
        let calls = rng.range(1, 3) as usize;
        let g0 = rng.pick(&gnames).clone();
        let d = dir_of(&g0);
        let base = g0.rsplit('/').find(|s| !s.is_empty() && *s != ".").unwrap_or("x").to_string();
        let first_char: String = base.chars().take(1).collect();
        let mut patterns: Vec<String> = vec![];
        for _ in 0..calls {
            let p = match rng.below(9) {
                0 => "**/*".to_string(),
                1 => format!("{}/*", d),
                2 => format!("{}/{}*", d, first_char),
                3 => format!("**/{}", base),
                4 => format!("*/{}", base),
                5 => format!("{}/**/*.dlt", d),
                _ => rng.pick(&gnames).clone(),
            };
            patterns.push(p);
        }
        let multi = if rng.chance(1, 5) { 2 } else { 1 };
        record_archives_seq(sink, &ms, &[], *rng.pick(&["arc", "x1"]), &patterns, rng.chance(1, 2), multi, None, "family_alias_names");
    }
}

const PATTERNS: &[&str] = &["**/*", "*", "*.dlt", "**/*.dlt", "dir/*", "dir/**/*.dlt", "a.dlt", "../*", "**/../*", "/**/*", "dir/c.dlt", "*/*", "[ab].dlt", "data", "x*", "..", "."];

fn gen_archives_case(rng: &mut Rng, sink: &mut Sink) {
    let (ms, dup) = if rng.chance(1, 10) {
        (vec![MSpec { name: "data".into(), kind: 0, data: b"payload".to_vec(), deflate: rng.chance(1, 2) }], vec![])
    } else {
        gen_members(rng, true)
    };
    let stem = *rng.pick(&["arc", "x1", "data", "a.dlt"]);
    let pattern = if rng.chance(1, 6) { ms[rng.below(ms.len() as u64) as usize].name.clone() } else { rng.pick(PATTERNS).to_string() };
    if pattern.is_empty() || pattern.contains("!/") {
        return;
    }
    let multi = if rng.chance(1, 4) { rng.range(2, 3) } else { 1 };
    record_archives(sink, &ms, &dup, stem, &pattern, rng.chance(1, 3), multi, "");
}

fn extract_corpus(sink: &mut Sink) {
    let f = |n: &str, d: &[u8]| MSpec { name: n.into(), kind: if n.ends_with('/') { 1 } else { 0 }, data: d.to_vec(), deflate: false };
    // one hostile name between two ordinary members, no filter
    for h in HOSTILE {
        record_extract(sink, &[f("first.dlt", b"1"), f(h, h.as_bytes()), f("last.dlt", b"L")], &[], &[], None, vec![], 7, "corpus_hostile_name");
    }
    // the repaired defect: a filter name that exists outside (or names a directory) must not be reported
    for h in ["../sentinel", "../decoy/old.txt", ".", "dir/..", "../t/first.dlt"] {
        record_extract(
            sink,
            &[f("first.dlt", b"1"), f("dir/", b""), f(h, b"evil"), f("last.dlt", b"L")],
            &[],
            &[],
            Some(vec!["first.dlt".into(), h.to_string(), "last.dlt".into()]),
            vec![],
            3,
            "witness_reported_outside",
        );
    }
    record_archives(sink, &[f("ok.dlt", b"ok"), f("../sentinel", b"evil"), f("../decoy/old.txt", b"evil")], &[], "arc", "**/*", false, 1, "witness_reported_outside");
    record_archives(sink, &[f("ok.dlt", b"ok"), f("../sentinel", b"evil")], &[], "arc", "../sentinel", true, 1, "witness_reported_outside");
    // a valid 2-member stored archive cut into volumes exactly at the members' boundaries
    for sd in [1u64, 2, 3, 4] {
        record_extract(sink, &[f("one.dlt", b"first member"), f("two.dlt", b"second member")], &[], &[], None, vec![], MEMBER_SPLIT | sd, "witness_member_boundary_split");
    }
    // members whose names are different strings but the same path: a list / pattern that selects one of them
    // must extract and report exactly that one, with its own bytes
    let alias = [f("d/x.dlt", b"<d/x.dlt>"), f("d/y.dlt", b"<d/y.dlt>"), f("d/./x.dlt", b"<d/./x.dlt>"), f("d//x.dlt", b"<d//x.dlt>")];
    record_extract(sink, &alias, &[], &[], Some(vec!["d/x.dlt".into()]), vec![], 1, "corpus_alias_names");
    record_extract(sink, &alias, &[], &[], Some(vec!["d//x.dlt".into(), "d/y.dlt".into()]), vec![], 0, "corpus_alias_names");
    record_archives(sink, &alias, &[], "arc", "d/x*", true, 1, "corpus_alias_names");
    record_archives(sink, &alias, &[], "arc", "d/./x.dlt", false, 1, "corpus_alias_names");
    // ... and across calls into the same directory (second call: known finding, see docs/C20.md)
    record_extract_seq(sink, &alias, &[], &[], &[Some(vec!["d/x.dlt".into()]), Some(vec!["d/./x.dlt".into()]), Some(vec!["d/y.dlt".into(), "d/x.dlt".into()])], vec![], 0, "corpus_alias_names");
    record_archives_seq(sink, &alias, &[], "arc", &["d/x.dlt".to_string(), "d/./x.dlt".to_string(), "d/*".to_string()], false, 1, None, "corpus_alias_names");
    // already extracted members are reported and kept
    record_extract(sink, &[f("a.dlt", b"A"), f("dir/c.dlt", b"C")], &[], &[("a.dlt".into(), Some(b"A".to_vec()))], Some(vec!["a.dlt".into(), "dir/c.dlt".into()]), vec![], 1, "corpus_reuse");
    // aliases of one location: the last member wins, both are reported
    record_extract(sink, &[f("a.dlt", b"one"), f("./a.dlt", b"two"), f("x/../a.dlt", b"three")], &[], &[], None, vec![], 2, "corpus_alias");
    // duplicate names
    record_extract(sink, &[f("dupA.dlt", b"first"), f("dupB.dlt", b"second!"), f("z.dlt", b"z")], &[("dupB.dlt".into(), "dupA.dlt".into())], &[], None, vec![], 5, "corpus_duplicate");
    // the .gz/.bz2 convention: a single member "data" is extracted under the archive's stem
    record_archives(sink, &[f("data", b"payload")], &[], "trace", "*", false, 1, "corpus_data_member");
    record_archives(sink, &[f("data", b"payload")], &[], "trace", "data", false, 1, "corpus_data_member");
    record_archives(sink, &[f("data", b"payload")], &[], "trace", "other", false, 1, "corpus_data_member");
    record_archives(sink, &[f("a.dlt", b"A"), f("dir/", b""), f("dir/b.dlt", b"B"), f("dir/c.txt", b"C")], &[], "arc", "**/*.dlt", false, 3, "corpus_multi_volume");
}

/// a skipped member of `s` bytes before the requested ones: the zip crate then asks the shared reader for
/// offsets that depend on `s` (repaired defect: CloneableSeekableReader lost track of its position)
fn record_size_sweep(sink: &mut Sink, s: usize, tag: &str) {
    let f = |n: &str, d: Vec<u8>| MSpec { name: n.into(), kind: 0, data: d, deflate: false };
    record_extract(
        sink,
        &[f("skip.bin", vec![7u8; s]), f("want.txt", b"WANTED".to_vec()), f("w2.txt", b"W2".to_vec())],
        &[],
        &[],
        Some(vec!["want.txt".into(), "w2.txt".into()]),
        vec![],
        0, // one volume
        tag,
    );
}
const SWEEP_WITNESSES: &[usize] = &[1768, 1950, 1954, 1984, 2014, 2174, 2212, 2248];

fn spec_from_json(v: &Value) -> Vec<MSpec> {
    v.as_array()
        .unwrap()
        .iter()
        .map(|m| MSpec {
            name: m["name"].as_str().unwrap().to_string(),
            kind: m["kind"].as_u64().unwrap() as u8,
            data: match m.get("data_repeat") {
                Some(r) => vec![r[0].as_u64().unwrap() as u8; r[1].as_u64().unwrap() as usize],
                None => serde_json::from_value(m["data"].clone()).unwrap(),
            },
            deflate: m["deflate"].as_bool().unwrap_or(false),
        })
        .collect()
}


fn main() {
    let a = parse_args();
    let _ = &*ORIG_TMPDIR; // remember TMPDIR before any case changes it
    let mut sink = Sink::new("C20", &a.out);
    sink.shard_size = 60;
    if let Some(p) = &a.replay {
        let v = read_replay(p);
        let c = &v["case"];
        match c["part"].as_str().unwrap_or("chain") {
            "chain" => replay_chain(&mut sink, c),
            "extract" => {
                let ms = spec_from_json(&c["members"]);
                let dup: Vec<(String, String)> = serde_json::from_value(c["dup"].clone()).unwrap();
                let pre: Vec<(String, Option<Vec<u8>>)> = serde_json::from_value(c["pre"].clone()).unwrap();
                let filter: Option<Vec<String>> = serde_json::from_value(c["filter"].clone()).unwrap();
                let rn: Vec<(String, String)> = serde_json::from_value(c["rename"].clone()).unwrap();
                record_extract(&mut sink, &ms, &dup, &pre, filter, rn, c["vols_seed"].as_u64().unwrap_or(1), "replay");
            }
            "archives" => {
                let ms = spec_from_json(&c["members"]);
                let dup: Vec<(String, String)> = serde_json::from_value(c["dup"].clone()).unwrap();
                let pre: Option<Vec<(String, Option<Vec<u8>>)>> = c.get("pre").map(|p| serde_json::from_value(p.clone()).unwrap());
                record_archives_seq(&mut sink, &ms, &dup, c["stem"].as_str().unwrap(), &[c["pattern"].as_str().unwrap().to_string()], c["bang"].as_bool().unwrap_or(false), c["multi_vol"].as_u64().unwrap_or(1), pre.as_deref(), "replay");
            }
            x => panic!("unknown part {}", x),
        }
        sink.finish();
        return;
    }
    let quick = a.tier == "quick";
    let search = a.tier == "search";
    if !search {
        chain_corpus(&mut sink);
        extract_corpus(&mut sink);
        for s in SWEEP_WITNESSES {
            record_size_sweep(&mut sink, *s, "witness_reader_position");
        }
        // every split of a 2-byte string into up to 3 volumes x every op pair of a small alphabet
        chain_exhaustive(&mut sink, b"xy", if quick { 3 } else { 4 }, if quick { 1 } else { 2 });
        if !quick {
            chain_exhaustive(&mut sink, b"pqr", 3, 2);
        }
    }
    let n = a.count.unwrap_or(if quick { 900 } else if search { 3000 } else { 20000 });
    let mut rng = Rng::new(a.seed);
    for i in 0..n {
        if i % 3 == 2 {
            let (vols, ops, files) = gen_border_case(&mut rng, !quick);
            record_chain(&mut sink, vols, ops, files, "family_border_then_seek_inside");
        } else {
            let (vols, ops, files) = gen_chain_case(&mut rng, !quick);
            record_chain(&mut sink, vols, ops, files, "");
        }
    }
    let n2 = a.count.map(|c| c / 4).unwrap_or(if quick { 250 } else if search { 500 } else { 3000 });
    let mut rng = Rng::new(a.seed ^ 0xC20);
    for i in 0..n2 {
        if i % 5 == 4 {
            // one in five generated archives holds a group of aliasing member names
            gen_alias_case(&mut rng, &mut sink);
        } else if i % 3 == 2 {
            gen_archives_case(&mut rng, &mut sink);
        } else {
            gen_extract_case(&mut rng, &mut sink);
        }
    }
    let n4 = if quick { 60 } else if search { 200 } else { 1500 };
    for _ in 0..n4 {
        gen_member_split_case(&mut rng, &mut sink);
    }
    // archives whose first, skipped member has a size in the range where the offsets asked by the zip crate
    // collide with the number of bytes read so far
    let n3 = if quick { 40 } else if search { 200 } else { 2500 };
    for _ in 0..n3 {
        let s = 1500 + rng.below(1100) as usize;
        record_size_sweep(&mut sink, s, "size_sweep");
    }
    sink.finish();
}
