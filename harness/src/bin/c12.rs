//! C12 — filter sets: filter_as_streams / StreamContext + match_filters + process_stream_new_msgs / ExportPlugin
//! vs Filter/Sets.v.  The truth table of the real `Filter::matches` per (filter, message) is exported with
//! every case, so the Coq model needs no single-filter matcher (that is C11).
use adlt::dlt::{DltChar4, DltMessage};
use adlt::filter::functions::filter_as_streams;
use adlt::filter::{Filter, FilterKind};
use adlt::plugins::export::ExportPlugin;
use adlt::plugins::plugin::Plugin;
use adlt::utils::remote_utils::{match_filters, process_stream_new_msgs, StreamContext};
use adlt::utils::DltMessageIterator;
use adlt::utils::remote_types::{self, BinType};
use std::cell::{Cell, RefCell};
use std::io::{BufRead, BufReader, Write};
use std::net::TcpStream;
use std::process::{Child, Command, Stdio};
use std::sync::atomic::{AtomicU64, Ordering};
use std::time::{Duration, Instant};
use tungstenite::stream::MaybeTlsStream;
use tungstenite::{Message, WebSocket};
use vharness::*;

const BINCODE_CONFIG: bincode::config::Configuration<bincode::config::LittleEndian, bincode::config::Fixint, bincode::config::NoLimit> =
    bincode::config::legacy();

// ---------------------------------------------------------------- case description
#[derive(Clone, Debug)]
struct MsgSpec {
    ecu: u8,
    ext: Option<(u8, u8)>, // apid no, ctid no
    lc: u32,
    rt: u64, // reception time us
}
#[derive(Clone, Debug)]
struct CaseIn {
    filters: Vec<Value>, // JSON objects understood by Filter::from_json
    msgs: Vec<MsgSpec>,
    budget: Option<u64>,
    offset: u64,
    chunk: u64,
    exp_enabled: bool,
    /// lifecyclesToKeep entries: (ecu no, startTime, endTime)
    to_keep: Vec<(u8, u64, u64)>,
    /// set_lifecycle_read_handle is called with a table holding lifecycles 0..2 (start = end = 1000 * (g + 1))
    handle: bool,
    from_ms: Option<u64>,
    to_ms: Option<u64>,
    /// additionally: the messages as a file opened by the real `adlt remote`, an all-pass stream, and a
    /// `stream_search` with this filter set (the search constructor of src/bin/adlt/remote.rs)
    ws: bool,
    /// max_chunk_size (>= 1) of the server-loop drive of process_stream_new_msgs
    rounds_chunk: u64,
}
const N_LCS: u32 = 3;
fn lc_time(g: u32) -> u64 {
    1000 * (g as u64 + 1)
}

fn apid(n: u8) -> [u8; 4] {
    [b'A', b'P', b'P', b'0' + n % 10]
}
fn ctid(n: u8) -> [u8; 4] {
    [b'C', b'T', b'X', b'0' + n % 10]
}
fn s4(b: [u8; 4]) -> String {
    String::from_utf8(b.to_vec()).unwrap()
}

/// real value of msg.lifecycle for the case-level lifecycle number
fn real_lc(lc: u32, ids: &Option<Vec<u32>>) -> u32 {
    match ids {
        None => lc,
        Some(ids) => {
            if lc < N_LCS {
                ids[lc as usize]
            } else {
                3_000_000_000u32.wrapping_add(lc % 1000) // not in the table
            }
        }
    }
}
/// the configured filters name lifecycles by case-level numbers
fn realize_filter(f: &Value, ids: &Option<Vec<u32>>) -> Value {
    let mut f = f.clone();
    if let Some(l) = f["lifecycles"].as_array() {
        let l2: Vec<u32> = l.iter().map(|x| real_lc(x.as_u64().unwrap() as u32, ids)).collect();
        f["lifecycles"] = json!(l2);
    }
    f
}

fn build_msg(i: usize, s: &MsgSpec) -> DltMessage {
    // timestamp_dms = position: identifies the message in the export file (the index is not written)
    let mut m = dltgen::plain_msg(i as u32, s.ecu, s.rt, i as u32);
    if let Some((a, c)) = s.ext {
        m = dltgen::with_ext(m, (4 << 4) | 1, 0, &apid(a), &ctid(c));
    }
    m.lifecycle = s.lc;
    m
}

type Sig = (u32, u64, u32, [u8; 4], Option<([u8; 4], [u8; 4], u8)>, u32, Vec<u8>);
fn sig(m: &DltMessage) -> Sig {
    let mut e = [0u8; 4];
    e.copy_from_slice(m.ecu.as_buf());
    let ext = m.extended_header.as_ref().map(|x| {
        let mut a = [0u8; 4];
        a.copy_from_slice(x.apid.as_buf());
        let mut c = [0u8; 4];
        c.copy_from_slice(x.ctid.as_buf());
        (a, c, x.verb_mstp_mtin)
    });
    (m.index, m.reception_time_us, m.timestamp_dms, e, ext, m.lifecycle, m.payload.clone())
}

fn case_json(c: &CaseIn) -> Value {
    json!({
        "filters": c.filters,
        "msgs": c.msgs.iter().map(|m| json!({"ecu": m.ecu, "ext": m.ext.map(|(a, c)| vec![a, c]), "lc": m.lc, "rt": m.rt})).collect::<Vec<_>>(),
        "budget": c.budget, "offset": c.offset, "chunk": c.chunk,
        "export": {"enabled": c.exp_enabled, "to_keep": c.to_keep.iter().map(|k| vec![k.0 as u64, k.1, k.2]).collect::<Vec<_>>(),
                   "handle": c.handle, "from_ms": c.from_ms, "to_ms": c.to_ms},
        "ws": c.ws, "rounds_chunk": c.rounds_chunk
    })
}
fn case_from_json(v: &Value) -> CaseIn {
    CaseIn {
        filters: v["filters"].as_array().unwrap().clone(),
        msgs: v["msgs"]
            .as_array()
            .unwrap()
            .iter()
            .map(|m| MsgSpec {
                ecu: m["ecu"].as_u64().unwrap() as u8,
                ext: m["ext"].as_array().map(|a| (a[0].as_u64().unwrap() as u8, a[1].as_u64().unwrap() as u8)),
                lc: m["lc"].as_u64().unwrap() as u32,
                rt: m["rt"].as_u64().unwrap(),
            })
            .collect(),
        budget: v["budget"].as_u64(),
        offset: v["offset"].as_u64().unwrap_or(0),
        chunk: v["chunk"].as_u64().unwrap_or(1 << 30),
        exp_enabled: v["export"]["enabled"].as_bool().unwrap_or(true),
        to_keep: v["export"]["to_keep"]
            .as_array()
            .map(|a| a.iter().map(|k| (k[0].as_u64().unwrap() as u8, k[1].as_u64().unwrap(), k[2].as_u64().unwrap())).collect())
            .unwrap_or_default(),
        handle: v["export"]["handle"].as_bool().unwrap_or(false),
        from_ms: v["export"]["from_ms"].as_u64(),
        to_ms: v["export"]["to_ms"].as_u64(),
        ws: v["ws"].as_bool().unwrap_or(false),
        rounds_chunk: v["rounds_chunk"].as_u64().unwrap_or(3).max(1),
    }
}

// ---------------------------------------------------------------- running the implementations
#[derive(Debug, Clone, PartialEq)]
struct StreamRun {
    fwd: Vec<u32>,
    intact: bool,
    result: Option<(usize, usize)>, // None = Err
}
fn run_stream(filters: &[Filter], msgs: &[DltMessage], budget: Option<u64>) -> StreamRun {
    let (tx, rx) = std::sync::mpsc::channel::<DltMessage>();
    for m in msgs {
        tx.send(m.clone()).unwrap();
    }
    drop(tx);
    let got: Vec<DltMessage>;
    let result;
    match budget {
        None if msgs.len() % 3 == 0 => {
            // as convert does: a bounded channel drained by another thread
            let (tx2, rx2) = std::sync::mpsc::sync_channel::<DltMessage>(1);
            let consumer = std::thread::spawn(move || rx2.iter().collect::<Vec<DltMessage>>());
            result = filter_as_streams(filters, &rx, &|m| tx2.send(m)).ok();
            drop(tx2);
            got = consumer.join().unwrap();
        }
        None => {
            // an unbounded channel as output
            let (tx2, rx2) = std::sync::mpsc::channel::<DltMessage>();
            result = filter_as_streams(filters, &rx, &|m| tx2.send(m)).ok();
            drop(tx2);
            got = rx2.iter().collect();
        }
        Some(k) => {
            // the receiving side hangs up after k messages
            let out: RefCell<Vec<DltMessage>> = RefCell::new(vec![]);
            let left = Cell::new(k);
            result = filter_as_streams(filters, &rx, &|m| {
                if left.get() == 0 {
                    Err(std::sync::mpsc::SendError(m))
                } else {
                    left.set(left.get() - 1);
                    out.borrow_mut().push(m);
                    Ok(())
                }
            })
            .ok();
            got = out.into_inner();
        }
    }
    let intact = got.iter().all(|g| (g.index as usize) < msgs.len() && sig(g) == sig(&msgs[g.index as usize]));
    StreamRun { fwd: got.iter().map(|m| m.index).collect(), intact, result }
}

struct SetRun {
    active: bool,
    decisions: Vec<bool>,
    idxs: Vec<usize>,
    last_processed: usize,
}
fn run_set(filters_json: &[Value], msgs: &[DltMessage], offset: u64, chunk: u64) -> SetRun {
    let log = slog::Logger::root(slog::Discard, slog::o!());
    let body = json!({ "filters": filters_json }).to_string();
    let mut ctx = StreamContext::from(&log, "stream", &body).expect("StreamContext::from");
    let decisions = msgs.iter().map(|m| match_filters(m, &ctx.filters)).collect();
    process_stream_new_msgs(&mut ctx, offset as usize, msgs, chunk as usize);
    SetRun { active: ctx.filters_active, decisions, idxs: ctx.filtered_msgs.clone(), last_processed: ctx.all_msgs_last_processed_len }
}

/// process_stream_new_msgs driven the way the server loop (process_file_context) does: every tick hands over ALL
/// pending messages with offset = all_msgs_last_processed_len, until nothing is pending
struct RoundsRun {
    active: bool,
    idxs: Vec<usize>,
    last_processed: usize,
    rounds: usize,
    stuck: bool,
}
impl RoundsRun {
    /// the messages the server delivers for this context (remote.rs, process_file_context): without active
    /// filters the stream's messages are all messages, else those listed in filtered_msgs
    fn delivered(&self, n: usize) -> Vec<usize> {
        if self.active {
            self.idxs.clone()
        } else {
            (0..n).collect()
        }
    }
}
fn run_rounds(command: &str, filters_json: &[Value], msgs: &[DltMessage], chunk: u64) -> RoundsRun {
    let log = slog::Logger::root(slog::Discard, slog::o!());
    let n = msgs.len();
    // the window is wide enough for everything (a query stops collecting at the window's end)
    let body = json!({ "window": [0, n + 5], "filters": filters_json }).to_string();
    let mut ctx = StreamContext::from(&log, command, &body).expect("StreamContext::from");
    let mut rounds = 0;
    let mut stuck = false;
    loop {
        let last = ctx.all_msgs_last_processed_len.min(n);
        if last >= n {
            break;
        }
        if rounds >= n + 2 {
            stuck = true;
            break;
        }
        process_stream_new_msgs(&mut ctx, last, &msgs[last..], chunk as usize);
        rounds += 1;
    }
    RoundsRun { active: ctx.filters_active, idxs: ctx.filtered_msgs.clone(), last_processed: ctx.all_msgs_last_processed_len, rounds, stuck }
}

struct ExportRun {
    panicked: Option<String>,
    written: Vec<u32>,
    intact: bool,
    nexp: u64,
    nproc: u64,
    exported: Vec<u32>, // real lifecycle ids
}
static FILE_NO: AtomicU64 = AtomicU64::new(0);
type Lcs = (adlt::lifecycle::LcsRType, Vec<u32>);
/// a lifecycle table with N_LCS plain (non-resume) lifecycles; returns the read handle and their ids
fn make_lcs() -> (Lcs, Box<dyn std::any::Any>) {
    let (lcs_r, mut lcs_w) = evmap::Options::default()
        .with_hasher(nohash_hasher::BuildNoHashHasher::<adlt::lifecycle::LifecycleId>::default())
        .construct::<adlt::lifecycle::LifecycleId, adlt::lifecycle::LifecycleItem>();
    let mut ids = vec![];
    for g in 0..N_LCS {
        let mut m0 = dltgen::plain_msg(0, g as u8, lc_time(g), 0);
        let lc = adlt::lifecycle::Lifecycle::new(&mut m0);
        ids.push(lc.id());
        lcs_w.insert(lc.id(), lc);
    }
    lcs_w.refresh();
    ((lcs_r, ids), Box::new(lcs_w))
}
fn run_export(dir: &std::path::Path, c: &CaseIn, filters_json: &[Value], msgs: &[DltMessage], lcs: Option<&Lcs>) -> ExportRun {
    let fname = dir.join(format!("exp_{}.dlt", FILE_NO.fetch_add(1, Ordering::Relaxed)));
    let fname_s = fname.to_str().unwrap().to_owned();
    let mut cfg = json!({"name": "Export", "enabled": c.exp_enabled, "exportFileName": fname_s, "filters": filters_json});
    if !c.to_keep.is_empty() {
        let l: Vec<Value> = c
            .to_keep
            .iter()
            .map(|(e, a, b)| json!({"ecu": String::from_utf8(dltgen::ecu(*e).as_buf().to_vec()).unwrap(), "startTime": a, "endTime": b}))
            .collect();
        cfg["lifecyclesToKeep"] = json!(l);
    }
    if let Some(f) = c.from_ms {
        cfg["recordedTimeFromMs"] = json!(f);
    }
    if let Some(t) = c.to_ms {
        cfg["recordedTimeToMs"] = json!(t);
    }
    let mut plugin = ExportPlugin::from_json(cfg.as_object().unwrap()).expect("ExportPlugin::from_json");
    if let Some((r, _)) = lcs {
        plugin.set_lifecycle_read_handle(r);
    }
    let plugin = std::sync::Mutex::new(plugin);
    let pr = catch_loc(std::panic::AssertUnwindSafe(|| {
        let mut plugin = plugin.lock().unwrap();
        for m in msgs {
            let mut m2 = m.clone();
            let fwd = plugin.process_msg(&mut m2);
            assert!(fwd, "export plugin never drops from the stream");
        }
        plugin.sync_all();
        let st = plugin.state();
        let st = st.read().unwrap();
        let exported: Vec<u32> = st.value["infos"]["lifecyclesExported"].as_array().map(|a| a.iter().map(|x| x.as_u64().unwrap() as u32).collect()).unwrap_or_default();
        (st.value["infos"]["nrExportedMsgs"].as_u64().unwrap_or(u64::MAX), st.value["infos"]["nrProcessedMsgs"].as_u64().unwrap_or(u64::MAX), exported)
    }));
    drop(plugin);
    let (nexp, nproc, exported, panicked) = match pr {
        Ok((a, b, e)) => (a, b, e, None),
        Err(e) => (0, 0, vec![], Some(e)),
    };
    let mut written = vec![];
    let mut intact = true;
    if let Ok(bytes) = std::fs::read(&fname) {
        let _ = std::fs::remove_file(&fname);
        let info_a = DltChar4::from_buf(b"VsDl");
        let info_c = DltChar4::from_buf(b"Info");
        for w in DltMessageIterator::new(0, std::io::Cursor::new(bytes)) {
            if w.apid() == Some(&info_a) && w.ctid() == Some(&info_c) {
                continue; // the "File created by adlt ..." header message
            }
            let pos = w.timestamp_dms;
            if (pos as usize) < msgs.len() {
                let (a, b) = (sig(&w), sig(&msgs[pos as usize]));
                // the index is not stored in a file; everything else must be unchanged (lifecycle is not stored either)
                if (a.1, a.2, a.3, &a.4, &a.6) != (b.1, b.2, b.3, &b.4, &b.6) {
                    intact = false;
                }
            } else {
                intact = false;
            }
            written.push(pos);
        }
    }
    ExportRun { panicked, written, intact, nexp, nproc, exported }
}

// ---------------------------------------------------------------- the search constructor, over the websocket
pub struct Server {
    child: Child,
    pub port: u16,
}
impl Server {
    pub fn start() -> Option<Server> {
        let bin = std::env::var("VERIF_ADLT_BIN").ok()?;
        if !std::path::Path::new(&bin).exists() {
            return None;
        }
        for _ in 0..20 {
            let port = portpicker::pick_unused_port()?;
            let mut child = Command::new(&bin).args(["remote", "-p", &format!("{}", port)]).stdin(Stdio::null()).stdout(Stdio::piped()).stderr(Stdio::null()).spawn().ok()?;
            let out = child.stdout.take().unwrap();
            let mut rd = BufReader::new(out);
            let mut line = String::new();
            let _ = rd.read_line(&mut line);
            if line.contains("remote server listening") {
                std::thread::spawn(move || {
                    let mut l = String::new();
                    while rd.read_line(&mut l).map(|n| n > 0).unwrap_or(false) {
                        l.clear();
                    }
                });
                return Some(Server { child, port });
            }
            let _ = child.kill();
            let _ = child.wait();
        }
        None
    }
}
impl Drop for Server {
    fn drop(&mut self) {
        let _ = self.child.kill();
        let _ = self.child.wait();
    }
}
enum Ev {
    Text(String),
    FileInfo(u32),
    Other,
}
struct Client {
    ws: WebSocket<MaybeTlsStream<TcpStream>>,
    file_infos: Vec<u32>,
}
impl Client {
    fn connect(port: u16) -> Result<Client, String> {
        let t0 = Instant::now();
        loop {
            match tungstenite::client::connect(format!("ws://127.0.0.1:{}", port)) {
                Ok((ws, _)) => {
                    if let MaybeTlsStream::Plain(s) = ws.get_ref() {
                        s.set_read_timeout(Some(Duration::from_millis(20_000))).unwrap();
                        s.set_nodelay(true).unwrap();
                    }
                    return Ok(Client { ws, file_infos: vec![] });
                }
                Err(e) => {
                    if t0.elapsed() > Duration::from_secs(10) {
                        return Err(format!("cannot connect: {:?}", e));
                    }
                    std::thread::sleep(Duration::from_millis(10));
                }
            }
        }
    }
    fn read(&mut self) -> Result<Ev, String> {
        match self.ws.read_message().map_err(|e| format!("read: {:?}", e))? {
            Message::Text(t) => Ok(Ev::Text(t)),
            Message::Binary(d) => match bincode::decode_from_slice::<remote_types::BinType, _>(&d, BINCODE_CONFIG) {
                Ok((BinType::FileInfo(f), _)) => {
                    self.file_infos.push(f.nr_msgs);
                    Ok(Ev::FileInfo(f.nr_msgs))
                }
                _ => Ok(Ev::Other),
            },
            _ => Ok(Ev::Other),
        }
    }
    fn cmd(&mut self, s: &str, prefixes: &[&str]) -> Result<String, String> {
        self.ws.write_message(Message::Text(s.to_string())).map_err(|e| format!("send: {:?}", e))?;
        loop {
            if let Ev::Text(t) = self.read()? {
                if prefixes.iter().any(|p| t.starts_with(p)) {
                    return Ok(t);
                }
            }
        }
    }
    fn sync(&mut self, n: usize) -> Result<(), String> {
        for _ in 0..n {
            self.cmd("resume", &["ok: resume", "err: resume"])?;
        }
        Ok(())
    }
    /// the server announces nr_msgs == n on the last batch and once more when the parser threads have finished
    fn wait_finished(&mut self, n: u32) -> Result<(), String> {
        let t0 = Instant::now();
        while self.file_infos.iter().filter(|x| **x == n).count() < 2 {
            if t0.elapsed() > Duration::from_secs(60) {
                return Err("file not completely loaded after 60 s".into());
            }
            self.sync(1)?;
        }
        Ok(())
    }
}
/// positions (in an all-pass stream over the file) that `stream_search` reports for the filter set
fn ws_search(port: u16, dir: &std::path::Path, msgs: &[DltMessage], filters_json: &[Value]) -> Result<Vec<u64>, String> {
    let path = dir.join(format!("ws_{}.dlt", FILE_NO.fetch_add(1, Ordering::Relaxed)));
    {
        let mut f = std::io::BufWriter::new(std::fs::File::create(&path).map_err(|e| e.to_string())?);
        for m in msgs {
            m.to_write(&mut f).map_err(|e| format!("{:?}", e))?;
        }
        f.flush().map_err(|e| e.to_string())?;
    }
    let n = msgs.len();
    let mut cl = Client::connect(port)?;
    let r = cl.cmd(&format!("open {{\"sort\":false,\"files\":[{}]}}", json!(path.to_str().unwrap())), &["ok: open", "err: open"])?;
    if !r.starts_with("ok: open") {
        return Err(format!("open: {}", r));
    }
    cl.wait_finished(n as u32)?;
    cl.sync(2)?;
    let js = json!({"window": [0, n + 5], "binary": true, "filters": [{"type": 0}]});
    let r = cl.cmd(&format!("stream {}", js), &["ok: stream", "err: stream"])?;
    let id = r.find("{\"id\":").and_then(|p| r[p + 6..].chars().take_while(|c| c.is_ascii_digit()).collect::<String>().parse::<u32>().ok()).ok_or(format!("stream: {}", r))?;
    cl.sync(3)?;
    let js = json!({"start_idx": 0, "max_results": n + 5, "filters": filters_json});
    let r = cl.cmd(&format!("stream_search {} {}", id, js), &["ok: stream_search", "err: stream_search"])?;
    if !r.starts_with("ok:") {
        return Err(format!("stream_search: {}", r));
    }
    let v: Value = serde_json::from_str(&r[r.find('=').ok_or("no =")? + 1..]).map_err(|e| format!("{} in {}", e, r))?;
    let idxs: Vec<u64> = v["search_idxs"].as_array().ok_or(format!("no search_idxs in {}", r))?.iter().map(|x| x.as_u64().unwrap_or(u64::MAX)).collect();
    let _ = cl.cmd(&format!("stop {}", id), &["ok: stop", "err: stop"]);
    let _ = cl.cmd("close", &["ok: 'close'", "err: close"]);
    let _ = std::fs::remove_file(&path);
    Ok(idxs)
}
static SERVER: std::sync::Mutex<Option<Option<Server>>> = std::sync::Mutex::new(None);
fn server_port() -> Option<u16> {
    let mut g = SERVER.lock().unwrap();
    if g.is_none() {
        *g = Some(Server::start());
    }
    g.as_ref().unwrap().as_ref().map(|s| s.port)
}
fn server_stop() {
    *SERVER.lock().unwrap() = None;
}

// ---------------------------------------------------------------- one case
struct FInfo {
    kind: u8,
    enabled: bool,
    row: Vec<bool>,
}

fn kind_no(k: FilterKind) -> u8 {
    match k {
        FilterKind::Positive => 0,
        FilterKind::Negative => 1,
        FilterKind::Marker => 2,
        FilterKind::Event => 3,
    }
}

/// what `Filter::matches` should answer for the literal criteria the generator uses (sanity statistics only)
fn predicted(fj: &Value, m: &MsgSpec) -> bool {
    if !fj["enabled"].as_bool().unwrap_or(true) {
        return false;
    }
    let neg = fj["not"].as_bool().unwrap_or(false);
    let mut all = true;
    if let Some(e) = fj["ecu"].as_str() {
        all &= e.as_bytes() == dltgen::ecu(m.ecu).as_buf();
    }
    if let Some(a) = fj["apid"].as_str() {
        all &= m.ext.map(|(x, _)| s4(apid(x)) == a).unwrap_or(false);
    }
    if let Some(a) = fj["ctid"].as_str() {
        all &= m.ext.map(|(_, x)| s4(ctid(x)) == a).unwrap_or(false);
    }
    if let Some(l) = fj["lifecycles"].as_array() {
        if !l.is_empty() {
            all &= l.iter().any(|x| x.as_u64() == Some(m.lc as u64));
        }
    }
    all != neg
}

fn keep_rule(fs: &[FInfo], m: usize, with_event: bool) -> bool {
    let en = |k: u8| fs.iter().filter(move |f| f.enabled && f.kind == k);
    let pos_ok = en(0).next().is_none() || en(0).any(|f| f.row[m]);
    let neg_hit = en(1).any(|f| f.row[m]);
    let ev_ok = !with_event || en(3).next().is_none() || en(3).any(|f| f.row[m]);
    pos_ok && !neg_hit && ev_ok
}

fn ws_applicable(c: &CaseIn) -> bool {
    c.ws && !c.msgs.is_empty() && !c.filters.iter().any(|f| f.get("lifecycles").is_some())
}

fn record(sink: &mut Sink, tmp: &std::path::Path, c: CaseIn, extra_tags: &[&str], search: Option<Result<Vec<u64>, String>>) {
    let n = c.msgs.len();
    // lifecycle table (only when the plugin gets a read handle): the case-level lifecycles 0..2 get real ids
    let lcs_all = if c.handle { Some(make_lcs()) } else { None };
    let lcs: Option<&Lcs> = lcs_all.as_ref().map(|x| &x.0);
    let ids: Option<Vec<u32>> = lcs.map(|l| l.1.clone());
    let msgs: Vec<DltMessage> = c
        .msgs
        .iter()
        .enumerate()
        .map(|(i, s)| {
            let mut m = build_msg(i, s);
            m.lifecycle = real_lc(s.lc, &ids);
            m
        })
        .collect();
    let filters_json: Vec<Value> = c.filters.iter().map(|f| realize_filter(f, &ids)).collect();
    let filters: Vec<Filter> = filters_json.iter().map(|j| Filter::from_json(&j.to_string()).expect("Filter::from_json")).collect();

    // truth table of the real single-filter matcher
    let infos: Vec<FInfo> =
        filters.iter().map(|f| FInfo { kind: kind_no(f.kind), enabled: f.enabled, row: msgs.iter().map(|m| f.matches(m)).collect() }).collect();
    // keep_lifecycle for the plain lifecycles of make_lcs: same ecu as the MESSAGE and start/end inside the entry's range
    let keeps = |e: &(u8, u64, u64), m: &MsgSpec| m.lc < N_LCS && e.0 == m.ecu && lc_time(m.lc) >= e.1 && lc_time(m.lc) <= e.2;
    let mut mispredicted = 0;
    for (fj, fi) in c.filters.iter().zip(infos.iter()) {
        for (i, m) in c.msgs.iter().enumerate() {
            if predicted(fj, m) != fi.row[i] {
                mispredicted += 1;
            }
        }
    }

    // ---- run the real code
    let c2 = c.clone();
    let (msgs2, filters2, filters_json2) = (msgs.clone(), filters.clone(), filters_json.clone());
    let tmp2 = tmp.to_path_buf();
    let run = catch_loc(std::panic::AssertUnwindSafe(move || {
        let st = run_stream(&filters2, &msgs2, c2.budget);
        let st_nobudget = if c2.budget.is_some() { run_stream(&filters2, &msgs2, None) } else { st.clone() };
        let set = run_set(&filters_json2, &msgs2, c2.offset, c2.chunk);
        let ex = run_export(&tmp2, &c2, &filters_json2, &msgs2, lcs);
        let rounds = run_rounds("stream", &filters_json2, &msgs2, c2.rounds_chunk);
        let rounds_q = run_rounds("query", &filters_json2, &msgs2, c2.rounds_chunk);
        // the same set without disabled and marker filters
        let rel: Vec<usize> = (0..filters2.len()).filter(|i| filters2[*i].enabled && filters2[*i].kind != FilterKind::Marker).collect();
        let rel_filters: Vec<Filter> = rel.iter().map(|i| filters2[*i].clone()).collect();
        let rel_json: Vec<Value> = rel.iter().map(|i| filters_json2[*i].clone()).collect();
        let st_rel = run_stream(&rel_filters, &msgs2, None);
        let set_rel = run_set(&rel_json, &msgs2, c2.offset, c2.chunk);
        (st, st_nobudget, set, ex, st_rel, set_rel, rounds, rounds_q)
    }));
    let fail = |cl: &str, d: String| Verdict::Fail { clause: cl.into(), detail: d };
    let mut tags: Vec<String> = extra_tags.iter().map(|s| s.to_string()).collect();
    let (obs, verdict) = match &run {
        Err(e) => (O::T(vec![O::L(99)]), fail("no_panic", e.clone())),
        Ok((st, st_nb, set, ex, st_rel, set_rel, rounds, rounds_q)) => {
            let obs = O::T(vec![
                O::T(vec![
                    O::T(st.fwd.iter().map(|i| O::n(*i)).collect()),
                    match st.result {
                        Some((p, f)) => O::T(vec![O::n(p as u64), O::n(f as u64)]),
                        None => O::T(vec![]),
                    },
                ]),
                O::T(vec![O::b(set.active), O::T(set.decisions.iter().map(|b| O::b(*b)).collect())]),
                O::T(vec![O::T(set.idxs.iter().map(|i| O::n(*i as u64)).collect()), O::n(set.last_processed as u64)]),
                if ex.panicked.is_some() {
                    O::T(vec![O::L(1)])
                } else {
                    let canon = |id: &u32| match &ids {
                        Some(v) => v.iter().position(|x| x == id).map(|p| p as u64).unwrap_or(9_999),
                        None => *id as u64,
                    };
                    O::T(vec![O::T(ex.written.iter().map(|i| O::n(*i)).collect()), O::n(ex.nexp), O::n(ex.nproc), O::T(ex.exported.iter().map(|i| O::n(canon(i))).collect())])
                },
                match &search {
                    None => O::T(vec![]),
                    Some(Ok(idxs)) => O::T(vec![O::T(idxs.iter().map(|i| O::n(*i)).collect())]),
                    Some(Err(_)) => O::T(vec![O::L(1)]),
                },
                O::T(vec![O::T(rounds.idxs.iter().map(|i| O::n(*i as u64)).collect()), O::n(rounds.last_processed as u64)]),
            ]);
            // ---- oracle: the property text evaluated directly
            let kept: Vec<u32> = (0..n).filter(|m| keep_rule(&infos, *m, false)).map(|m| m as u32).collect();
            let kept_set: Vec<bool> = (0..n).map(|m| keep_rule(&infos, m, true)).collect();
            let no_event = !infos.iter().any(|f| f.enabled && f.kind == 3);
            let v = (|| {
                // stream filter
                if !st.intact || !st_nb.intact {
                    return fail("stream_messages_unchanged", "a forwarded message differs from the one received".into());
                }
                if st_nb.fwd != kept {
                    return fail("stream_forwards_kept_in_order", format!("forwarded {:?}, rule keeps {:?}", st_nb.fwd, kept));
                }
                match st_nb.result {
                    None => return fail("stream_counts", "Err although every send succeeded".into()),
                    Some((p, f)) => {
                        if p != kept.len() || p + f != n {
                            return fail("stream_counts", format!("passed {} filtered {} for {} received, {} kept", p, f, n, kept.len()));
                        }
                    }
                }
                if let Some(k) = c.budget {
                    // whatever was delivered before the hang-up are the first kept messages, in order
                    let want: Vec<u32> = kept.iter().cloned().take(k as usize).collect();
                    if st.fwd != want {
                        return fail("stream_forwards_kept_in_order", format!("with hang-up after {}: forwarded {:?}, want {:?}", k, st.fwd, want));
                    }
                    if let Some((p, f)) = st.result {
                        if p != kept.len() || p + f != n {
                            return fail("stream_counts", format!("passed {} filtered {} for {} received", p, f, n));
                        }
                    }
                }
                // set matcher
                if set.decisions != kept_set {
                    return fail("set_match_rule", format!("match_filters {:?}, rule {:?}", set.decisions, kept_set));
                }
                if set.active {
                    let lim = n.min(c.chunk as usize);
                    let want: Vec<usize> = (0..lim).filter(|m| kept_set[*m]).map(|m| c.offset as usize + m).collect();
                    if set.idxs != want {
                        return fail("set_stream_indices", format!("filtered_msgs {:?}, want {:?}", set.idxs, want));
                    }
                }
                // the same through the server loop: ticks hand over everything pending, chunk limit 1 / small / > len;
                // in the end exactly the kept messages are in filtered_msgs, in order, and everything is accounted for
                if rounds.stuck {
                    return fail("stream_rounds_progress", format!("{} of {} processed after {} ticks", rounds.last_processed, n, rounds.rounds));
                }
                if set.active {
                    let want: Vec<usize> = (0..n).filter(|m| kept_set[*m]).collect();
                    if rounds.idxs != want {
                        return fail("stream_rounds_keep_rule", format!("chunk {}: filtered_msgs {:?} after {} ticks, rule keeps {:?}", c.rounds_chunk, rounds.idxs, rounds.rounds, want));
                    }
                    let dropped = (0..n).filter(|m| !kept_set[*m]).count();
                    if rounds.idxs.len() + dropped != n {
                        return fail("stream_rounds_counts", format!("kept {} + dropped {} != received {}", rounds.idxs.len(), dropped, n));
                    }
                }
                if rounds.last_processed != n {
                    return fail("stream_rounds_counts", format!("{} messages reported as processed, {} received", rounds.last_processed, n));
                }
                // what the server delivers for a stream / a query built by StreamContext::from (all messages when
                // filters_active is false, else filtered_msgs) is exactly what the keep rule incl. the event clause keeps
                for (what, r) in [("stream", rounds), ("query", rounds_q)] {
                    if r.stuck {
                        return fail("stream_rounds_progress", format!("{}: {} of {} processed after {} ticks", what, r.last_processed, n, r.rounds));
                    }
                    let want: Vec<usize> = (0..n).filter(|m| kept_set[*m]).collect();
                    let got = r.delivered(n);
                    if got != want {
                        return fail("delivered_set_rule", format!("{} (filters_active={}): delivers {:?}, rule keeps {:?}", what, r.active, got, want));
                    }
                }
                // both implementations agree where both apply
                if no_event {
                    let s: Vec<u32> = (0..n).filter(|m| set.decisions[*m]).map(|m| m as u32).collect();
                    if s != st_nb.fwd {
                        return fail("impls_agree", format!("stream {:?} set {:?}", st_nb.fwd, s));
                    }
                }
                // search over the websocket: same rule (positions in an all-pass stream = positions in the file)
                match &search {
                    Some(Err(e)) => return fail("search_answers", e.clone()),
                    Some(Ok(idxs)) => {
                        let want: Vec<u64> = (0..n).filter(|m| kept_set[*m]).map(|m| m as u64).collect();
                        if *idxs != want {
                            return fail("search_set_rule", format!("stream_search {:?}, rule {:?}", idxs, want));
                        }
                    }
                    None => {}
                }
                // disabled and marker filters have no effect
                if st_rel.fwd != st_nb.fwd || st_rel.result != st_nb.result {
                    return fail("disabled_and_marker_irrelevant", format!("stream: {:?} vs {:?} without them", st_nb.fwd, st_rel.fwd));
                }
                if set_rel.decisions != set.decisions {
                    return fail("disabled_and_marker_irrelevant", format!("set: {:?} vs {:?} without them", set.decisions, set_rel.decisions));
                }
                // export: configured set, only lifecycles found to be kept so far (when lifecyclesToKeep is given),
                // and the recorded-time window
                let mut to_keep = c.to_keep.clone();
                let mut checked: Vec<u32> = vec![];
                let mut exported: Vec<u32> = vec![];
                let mut want: Vec<u32> = vec![];
                let mut unknown_lifecycle = false;
                let mut cur_lcf: Option<Filter> = None;
                let mut cur_for = usize::MAX;
                if c.exp_enabled {
                    for (i, m) in c.msgs.iter().enumerate() {
                        if !to_keep.is_empty() && c.handle && !checked.contains(&m.lc) {
                            if m.lc >= N_LCS {
                                unknown_lifecycle = true; // the plugin panics: outside this property (C06: published before delivery)
                                break;
                            }
                            if let Some(p) = to_keep.iter().position(|e| keeps(e, m)) {
                                exported.push(m.lc);
                                to_keep.remove(p);
                            }
                            checked.push(m.lc);
                        }
                        // the plugin's own lifecycle filter is one more NEGATIVE filter of the set: evaluated by the real matcher
                        let lc_ok = c.to_keep.is_empty() || {
                            if cur_lcf.is_none() || cur_for != exported.len() {
                                let l: Vec<u32> = if exported.is_empty() { vec![u32::MAX] } else { exported.iter().map(|g| real_lc(*g, &ids)).collect() };
                                cur_lcf = Some(Filter::from_json(&json!({"type": 1, "not": true, "lifecycles": l}).to_string()).unwrap());
                                cur_for = exported.len();
                            }
                            !cur_lcf.as_ref().unwrap().matches(&msgs[i])
                        };
                        if keep_rule(&infos, i, true)
                            && lc_ok
                            && c.from_ms.map(|f| m.rt >= f * 1000).unwrap_or(true)
                            && c.to_ms.map(|t| m.rt <= t * 1000).unwrap_or(true)
                        {
                            want.push(i as u32);
                        }
                    }
                }
                if let Some(e) = &ex.panicked {
                    if unknown_lifecycle && e.contains("unknown lifecycle") {
                        return Verdict::Ok;
                    }
                    return fail("no_panic", e.clone());
                }
                if unknown_lifecycle {
                    return Verdict::Ok; // implementation tolerated it; nothing to compare against
                }
                if !ex.intact {
                    return fail("export_messages_unchanged", "an exported message differs from the one processed".into());
                }
                if ex.written != want {
                    return fail("export_set_rule", format!("exported {:?}, rule keeps {:?}", ex.written, want));
                }
                if c.exp_enabled && (ex.nexp != want.len() as u64 || ex.nproc != n as u64) {
                    return fail("export_counts", format!("nrExported {} nrProcessed {} for {} kept of {}", ex.nexp, ex.nproc, want.len(), n));
                }
                Verdict::Ok
            })();
            (obs, v)
        }
    };

    // ---- Coq term
    let frows: Vec<String> = infos.iter().map(|f| format!("({}, {}, {})", f.kind, cbool(f.enabled), clist(&f.row.iter().map(|b| cbool(*b)).collect::<Vec<_>>()))).collect();
    let on = |o: Option<u64>| copt(o.map(|x| x.to_string()));
    let cb = |v: Vec<bool>| clist(&v.iter().map(|b| cbool(*b)).collect::<Vec<_>>());
    let input_coq = format!(
        "(mkCase {} {} {} {} {} {} {} {} {} {} {} {} {} {} {} {})",
        clist(&frows),
        n,
        on(c.budget),
        c.offset,
        c.chunk,
        cbool(c.exp_enabled),
        on(c.from_ms.map(|x| x * 1000)),
        on(c.to_ms.map(|x| x * 1000)),
        cnums(&c.msgs.iter().map(|m| m.rt).collect::<Vec<_>>()),
        c.to_keep.len(),
        cbool(c.handle),
        cnums(&c.msgs.iter().map(|m| m.lc).collect::<Vec<_>>()),
        cb(c.msgs.iter().map(|m| m.lc < N_LCS).collect()),
        clist(&c.to_keep.iter().map(|e| cb(c.msgs.iter().map(|m| keeps(e, m)).collect())).collect::<Vec<_>>()),
        cbool(search.is_some()),
        c.rounds_chunk
    );
    // the meaning Exec/C12.v gives to the plugin's own lifecycle filters, checked against the real matcher
    let mut lc_filter_bad = false;
    if let Ok((_, _, _, ex, _, _, _, _)) = &run {
        let mut lists: Vec<Vec<u32>> = vec![vec![u32::MAX]];
        for k in 1..=ex.exported.len() {
            lists.push(ex.exported[..k].to_vec());
        }
        for l in lists {
            let f = Filter::from_json(&json!({"type": 1, "not": true, "lifecycles": l}).to_string()).unwrap();
            if f.kind != FilterKind::Negative || !f.enabled || msgs.iter().any(|m| f.matches(m) != !l.contains(&m.lifecycle)) {
                lc_filter_bad = true;
            }
        }
    }

    // ---- tags / non-triviality
    let en = |k: u8| infos.iter().filter(|f| f.enabled && f.kind == k).count();
    tags.push(format!("filters{}", infos.len().min(7)));
    for (k, name) in [(0u8, "pos"), (1, "neg"), (2, "marker"), (3, "event")] {
        if en(k) > 0 {
            tags.push(format!("has_{}", name));
        }
        if en(k) > 1 {
            tags.push(format!("multi_{}", name));
        }
    }
    if infos.iter().any(|f| !f.enabled) {
        tags.push("has_disabled".into());
    }
    if en(3) > 0 && en(0) == 0 && en(1) == 0 {
        tags.push("event_only".into());
        if infos.iter().any(|f| !f.enabled && f.kind <= 1) {
            tags.push("event_only_with_disabled_posneg".into());
        }
        if en(2) > 0 {
            tags.push("event_only_with_marker".into());
        }
    }
    if c.filters.iter().any(|f| f["not"].as_bool() == Some(true)) {
        tags.push("has_negated".into());
    }
    if c.budget.is_some() {
        tags.push("hangup".into());
    }
    if !c.to_keep.is_empty() {
        tags.push(if c.handle { "export_lifecycles_with_table" } else { "export_lifecycles_no_table" }.into());
    }
    if let Ok((_, _, _, ex, _, _, _, _)) = &run {
        if !ex.exported.is_empty() {
            tags.push(format!("export_lifecycles_found{}", ex.exported.len()));
        }
        if ex.panicked.is_some() {
            tags.push("export_unknown_lifecycle_panic".into());
        }
    }
    if search.is_some() {
        tags.push("ws_search".into());
    } else if c.ws {
        tags.push("ws_search_skipped".into());
    }
    if lc_filter_bad {
        tags.push("lc_filter_not_as_assumed".into());
    }
    if c.from_ms.is_some() || c.to_ms.is_some() {
        tags.push("export_window".into());
    }
    if !c.exp_enabled {
        tags.push("export_disabled".into());
    }
    if (c.chunk as usize) < n {
        tags.push("chunk_limited".into());
    }
    if (c.rounds_chunk as usize) < n {
        tags.push(format!("rounds_pending_gt_chunk{}", if c.rounds_chunk == 1 { "_1" } else { "_small" }));
    } else {
        tags.push("rounds_single_tick".into());
    }
    if mispredicted > 0 {
        tags.push("matches_not_as_predicted".into());
    }
    let kept_n = (0..n).filter(|m| keep_rule(&infos, *m, false)).count();
    let kept_set_n = (0..n).filter(|m| keep_rule(&infos, *m, true)).count();
    if kept_set_n != kept_n {
        tags.push("event_filter_drops".into());
    }
    // overlapping: some message matched by >= 2 enabled filters
    if (0..n).any(|m| infos.iter().filter(|f| f.enabled && f.row[m]).count() >= 2) {
        tags.push("overlapping".into());
    }
    let nontrivial = en(0) >= 1 && (en(1) + en(3)) >= 1 && kept_n > 0 && kept_n < n;
    let id = sink.next_id();
    let key = input_coq.clone();
    sink.push(Case { id, input_coq, input_json: case_json(&c), obs, verdict, classes: vec![], tags, nontrivial, key });
}

// ---------------------------------------------------------------- generator
fn gen_filter(rng: &mut Rng) -> Value {
    let kind = match rng.below(10) {
        0..=3 => 0,
        4..=6 => 1,
        7 => 2,
        _ => 3,
    };
    let mut f = json!({ "type": kind });
    if rng.chance(1, 5) {
        f["enabled"] = json!(false);
    } else if rng.chance(1, 4) {
        f["enabled"] = json!(true);
    }
    if rng.chance(1, 5) {
        f["not"] = json!(true);
    }
    // criteria: few values so that filters overlap; sometimes none (matches everything)
    if rng.chance(1, 2) {
        f["ecu"] = json!(String::from_utf8(dltgen::ecu(rng.below(3) as u8).as_buf().to_vec()).unwrap());
    }
    if rng.chance(1, 3) {
        f["apid"] = json!(s4(apid(rng.below(3) as u8)));
    }
    if rng.chance(1, 5) {
        f["ctid"] = json!(s4(ctid(rng.below(2) as u8)));
    }
    if rng.chance(1, 6) {
        let k = rng.below(3);
        let l: Vec<u64> = (0..k).map(|_| rng.below(3)).collect();
        f["lifecycles"] = json!(l);
    }
    f
}

fn gen_case(rng: &mut Rng, big: bool) -> CaseIn {
    let nf = match rng.below(12) {
        0 => 0,
        1 => 1,
        2..=4 => rng.range(0, 6),
        _ => rng.range(2, 6),
    };
    let mut filters: Vec<Value> = (0..nf).map(|_| gen_filter(rng)).collect();
    if nf >= 2 && rng.chance(3, 4) {
        // structured: make sure an enabled positive and an enabled negative/event filter with a criterion take part
        let i = rng.below(nf) as usize;
        let j = (i + 1 + rng.below(nf - 1) as usize) % nf as usize;
        {
            filters[i]["type"] = json!(0);
            filters[i]["enabled"] = json!(true);
            filters[i]["ecu"] = json!(String::from_utf8(dltgen::ecu(rng.below(3) as u8).as_buf().to_vec()).unwrap());
            filters[j]["type"] = json!(if rng.chance(1, 2) { 1 } else { 3 });
            filters[j]["enabled"] = json!(true);
            filters[j]["apid"] = json!(s4(apid(rng.below(3) as u8)));
        }
    }
    if rng.chance(1, 8) {
        // event-only sets: 1..3 enabled event filters, no enabled positive/negative one; optionally disabled
        // positive/negative filters and markers around them
        filters = (0..rng.range(1, 3))
            .map(|_| {
                let mut f = gen_filter(rng);
                f["type"] = json!(3);
                f["enabled"] = json!(true);
                if f.get("ecu").is_none() && f.get("apid").is_none() && f.get("ctid").is_none() {
                    f["ecu"] = json!(String::from_utf8(dltgen::ecu(rng.below(3) as u8).as_buf().to_vec()).unwrap());
                }
                f
            })
            .collect();
        for _ in 0..rng.below(3) {
            let mut f = gen_filter(rng);
            if rng.chance(1, 2) {
                f["type"] = json!(2);
            } else {
                f["type"] = json!(rng.below(2));
                f["enabled"] = json!(false);
            }
            let at = rng.below(filters.len() as u64 + 1) as usize;
            filters.insert(at, f);
        }
    }
    let nm = if rng.chance(1, 15) { 0 } else { rng.range(1, if big { 40 } else { 30 }) };
    // export with lifecyclesToKeep: 1..3 entries (ecu, [start, end]) around the lifecycle times 1000, 2000, 3000
    let to_keep: Vec<(u8, u64, u64)> = if rng.chance(1, 3) {
        (0..rng.range(1, 3))
            .map(|_| {
                let a = *rng.pick(&[0u64, 1000, 1001, 2000, 2500]);
                let b = a + *rng.pick(&[0u64, 999, 1000, 2000, 5000]);
                (rng.below(3) as u8, a, b)
            })
            .collect()
    } else {
        vec![]
    };
    let handle = if to_keep.is_empty() { rng.chance(1, 6) } else { rng.chance(4, 5) };
    let mut msgs: Vec<MsgSpec> = (0..nm)
        .map(|_| MsgSpec {
            ecu: rng.below(3) as u8,
            ext: if rng.chance(1, 5) { None } else { Some((rng.below(3) as u8, rng.below(2) as u8)) },
            // with a table every lifecycle must be in it (else the plugin panics); lifecycles mostly come in runs
            lc: if !handle && rng.chance(1, 25) { u32::MAX } else { rng.below(3) as u32 },
            rt: if rng.chance(1, 3) { rng.below(20) * 1000 } else { rng.below(20_000) },
        })
        .collect();
    if rng.chance(1, 2) {
        msgs.sort_by_key(|m| m.lc);
    }
    if handle && nm > 0 && rng.chance(1, 12) {
        let k = rng.below(nm) as usize;
        msgs[k].lc = 77; // a lifecycle the table does not know
    }
    let budget = if rng.chance(1, 4) { Some(rng.below(nm + 2)) } else { None };
    let offset = if rng.chance(1, 2) { 0 } else { rng.below(1000) };
    let chunk = if rng.chance(1, 4) { rng.below(nm + 2) } else { 1 << 30 };
    let exp_enabled = !rng.chance(1, 12);
    let from_ms = if rng.chance(1, 3) { Some(rng.below(20)) } else { None };
    let to_ms = if rng.chance(1, 3) { Some(rng.below(22)) } else { None };
    let ws = nm >= 1 && rng.chance(1, if big { 25 } else { 6 });
    if ws {
        for f in filters.iter_mut() {
            // lifecycle ids are assigned by the server: no lifecycle criterion in searches
            f.as_object_mut().unwrap().remove("lifecycles");
        }
    }
    let rounds_chunk = match rng.below(5) {
        0 => 1,
        1 | 2 => rng.range(2, 5),
        3 => rng.range(1, nm.max(1)),
        _ => 1 << 30,
    };
    CaseIn { filters, msgs, budget, offset, chunk, exp_enabled, to_keep, handle, from_ms, to_ms, ws, rounds_chunk }
}

fn simple_msgs() -> Vec<MsgSpec> {
    let mut v = vec![];
    for e in 0..3u8 {
        for a in 0..2u8 {
            v.push(MsgSpec { ecu: e, ext: Some((a, a)), lc: e as u32, rt: 1000 * (e as u64 * 2 + a as u64) });
        }
    }
    v.push(MsgSpec { ecu: 0, ext: None, lc: u32::MAX, rt: 7000 });
    v
}

type Plan = Vec<(CaseIn, Vec<&'static str>)>;

fn corpus(plan: &mut Plan) {
    let base = |filters: Vec<Value>| CaseIn {
        filters,
        msgs: simple_msgs(),
        budget: None,
        offset: 0,
        chunk: 1 << 30,
        exp_enabled: true,
        to_keep: vec![],
        handle: false,
        ws: false,
        rounds_chunk: 3,
        from_ms: None,
        to_ms: None,
    };
    // no filter at all
    plan.push((base(vec![]), vec!["corpus"]));
    // the table of remote_utils::tests::match_filters_1, extended
    plan.push((base(vec![json!({"type":0,"ecu":"EC00"})]), vec!["corpus"]));
    plan.push((base(vec![json!({"type":1,"ecu":"EC00"})]), vec!["corpus"]));
    plan.push((base(vec![json!({"type":0,"ecu":"EC00"}), json!({"type":0,"ecu":"EC01"})]), vec!["corpus"]));
    plan.push((base(vec![json!({"type":0,"ecu":"EC00"}), json!({"type":3,"apid":"APP1"})]), vec!["corpus"]));
    plan.push((base(vec![json!({"type":3,"apid":"APP1"}), json!({"type":1,"ecu":"EC01"})]), vec!["corpus"]));
    // only disabled positive filters: everything passes ("no enabled positive filter exists")
    plan.push((base(vec![json!({"type":0,"ecu":"EC00","enabled":false})]), vec!["corpus"]));
    // disabled negative / disabled event / marker must not veto
    plan.push((base(vec![json!({"type":1,"enabled":false}), json!({"type":3,"enabled":false,"ecu":"EC02"}), json!({"type":2,"ecu":"EC01"})]), vec!["corpus"]));
    // event-only sets: the event clause must hold although there is no positive/negative filter
    plan.push((base(vec![json!({"type":3,"ecu":"EC01"})]), vec!["corpus"]));
    plan.push((base(vec![json!({"type":3,"apid":"APP0"}), json!({"type":0,"enabled":false}), json!({"type":1,"enabled":false,"ecu":"EC00"})]), vec!["corpus"]));
    plan.push((base(vec![json!({"type":2}), json!({"type":3,"ecu":"EC02"}), json!({"type":3,"ctid":"CTX1"})]), vec!["corpus"]));
    // negated filters in all roles
    plan.push((base(vec![json!({"type":0,"not":true,"ecu":"EC00"}), json!({"type":1,"not":true,"apid":"APP0"}), json!({"type":3,"not":true,"ctid":"CTX1"})]), vec!["corpus"]));
    // criterion-free filters: positive matches all, negative vetoes all
    plan.push((base(vec![json!({"type":0})]), vec!["corpus"]));
    plan.push((base(vec![json!({"type":0,"ecu":"EC00"}), json!({"type":1})]), vec!["corpus"]));
    // hang-ups at 0, in the middle, at exactly the number of kept messages, beyond
    for k in [0u64, 1, 2, 3] {
        let mut c = base(vec![json!({"type":0,"ecu":"EC00"})]);
        c.budget = Some(k);
        plan.push((c, vec!["corpus"]));
    }
    // export: lifecyclesToKeep filter vetoes everything but lifecycle u32::MAX; time window boundaries inclusive
    let mut c = base(vec![json!({"type":0,"ecu":"EC00"})]);
    c.to_keep = vec![(0, 1, 2)];
    plan.push((c, vec!["corpus"]));
    // ... with a lifecycle table: lifecycles 0 (ecu 0) and 2 (ecu 2) are found, 1 is not; configured filters still apply
    let mut c = base(vec![json!({"type":1,"apid":"APP1"})]);
    c.to_keep = vec![(2, 3000, 3000), (1, 0, 1999), (0, 0, 1000)];
    c.handle = true;
    c.msgs.pop(); // the message without a known lifecycle
    plan.push((c, vec!["corpus"]));
    // first message of a lifecycle has a different ecu than the entry: the lifecycle is marked checked and never kept
    let mut c = base(vec![]);
    c.to_keep = vec![(0, 0, 5000)];
    c.handle = true;
    c.msgs = vec![
        MsgSpec { ecu: 1, ext: None, lc: 0, rt: 1 },
        MsgSpec { ecu: 0, ext: None, lc: 0, rt: 2 },
        MsgSpec { ecu: 0, ext: None, lc: 1, rt: 3 },
        MsgSpec { ecu: 0, ext: None, lc: 2, rt: 4 },
    ];
    plan.push((c, vec!["corpus"]));
    // unknown lifecycle with a table: the plugin panics (outside this property)
    let mut c = base(vec![]);
    c.to_keep = vec![(0, 0, 5000)];
    c.handle = true;
    plan.push((c, vec!["corpus"]));
    let mut c = base(vec![]);
    c.from_ms = Some(2);
    c.to_ms = Some(4);
    plan.push((c, vec!["corpus"]));
    let mut c = base(vec![json!({"type":1,"ecu":"EC01"})]);
    c.exp_enabled = false;
    plan.push((c, vec!["corpus"]));
    // chunk limits / offsets of process_stream_new_msgs
    let mut c = base(vec![json!({"type":0,"ecu":"EC01"}), json!({"type":0,"ecu":"EC02"})]);
    c.offset = 100;
    c.chunk = 4;
    plan.push((c, vec!["corpus"]));
    let mut c = base(vec![json!({"type":2})]);
    c.offset = 5;
    plan.push((c, vec!["corpus"]));
    // long streams: rayon really splits the work in process_stream_new_msgs; order must survive
    for (nmsg, seed) in [(2000u64, 7u64), (1500, 8)] {
        let mut rng = Rng::new(seed);
        let mut c = base(vec![json!({"type":0,"ecu":"EC00"}), json!({"type":0,"ecu":"EC01"}), json!({"type":1,"apid":"APP1"}), json!({"type":3,"ctid":"CTX0"})]);
        c.msgs = (0..nmsg)
            .map(|i| MsgSpec { ecu: rng.below(3) as u8, ext: if rng.chance(1, 6) { None } else { Some((rng.below(3) as u8, rng.below(2) as u8)) }, lc: 0, rt: i })
            .collect();
        c.offset = 17;
        c.rounds_chunk = 64;
        plan.push((c, vec!["corpus", "long_stream"]));
    }
    // empty stream
    let mut c = base(vec![json!({"type":0}), json!({"type":1})]);
    c.msgs = vec![];
    plan.push((c, vec!["corpus"]));
}

/// exhaustive: every (kind, enabled) combination for sets of up to 3 filters whose rows are chosen so that the
/// 2^k match patterns over k filters all occur among the messages
fn exhaustive(plan: &mut Plan, max: usize) {
    // filter i matches exactly the messages of ecu i or lifecycle 9 ... simpler: filter i = {"ecu": ECi}, negated variants;
    // messages: one per ecu 0..2 plus one of ecu 7 (matched by none) -> patterns 100,010,001,000; overlaps come from `not`.
    let msgs: Vec<MsgSpec> = [0u8, 1, 2, 7].iter().map(|e| MsgSpec { ecu: *e, ext: None, lc: 0, rt: 0 }).collect();
    let opts: Vec<(u8, bool, bool)> = {
        let mut v = vec![];
        for k in 0..4u8 {
            for en in [true, false] {
                for not in [false, true] {
                    v.push((k, en, not));
                }
            }
        }
        v
    };
    let mut count = 0usize;
    let mk = |i: usize, o: &(u8, bool, bool)| json!({"type": o.0, "enabled": o.1, "not": o.2, "ecu": format!("EC0{}", i)});
    for a in &opts {
        for b in &opts {
            if count >= max {
                return;
            }
            let c = CaseIn {
                filters: vec![mk(0, a), mk(1, b)],
                msgs: msgs.clone(),
                budget: None,
                offset: 0,
                chunk: 1 << 30,
                exp_enabled: true,
                to_keep: vec![],
                handle: false,
                // the search constructor must drop disabled filters of every kind
                ws: (!a.1 || !b.1) && !a.2 && !b.2,
                rounds_chunk: 1 + (count as u64 % 3),
                from_ms: None,
                to_ms: None,
            };
            plan.push((c, vec!["exhaustive2"]));
            count += 1;
        }
    }
}

fn main() {
    // the server child must not outlive the harness, whatever happens
    let r = std::panic::catch_unwind(real_main);
    server_stop();
    if r.is_err() {
        std::process::exit(101);
    }
}

/// the websocket searches of all planned cases, a few sessions at a time (each one mostly waits for server ticks)
fn prefetch_searches(plan: &Plan, tmp: &std::path::Path) -> Vec<Option<Result<Vec<u64>, String>>> {
    let mut res: Vec<Option<Result<Vec<u64>, String>>> = plan.iter().map(|_| None).collect();
    let todo: Vec<usize> = (0..plan.len()).filter(|i| ws_applicable(&plan[*i].0)).collect();
    if todo.is_empty() {
        return res;
    }
    let port = match server_port() {
        Some(p) => p,
        None => return res,
    };
    for chunk in todo.chunks(6) {
        let hs: Vec<_> = chunk
            .iter()
            .map(|i| {
                let c = plan[*i].0.clone();
                let dir = tmp.to_path_buf();
                std::thread::spawn(move || {
                    // lifecycle ids are not stored in a file and searches carry no lifecycle criterion
                    let msgs: Vec<DltMessage> = c.msgs.iter().enumerate().map(|(k, s)| build_msg(k, s)).collect();
                    ws_search(port, &dir, &msgs, &c.filters)
                })
            })
            .collect();
        for (i, h) in chunk.iter().zip(hs.into_iter()) {
            res[*i] = Some(h.join().unwrap_or_else(|_| Err("session thread panicked".into())));
        }
    }
    res
}

fn real_main() {
    let a = parse_args();
    let mut sink = Sink::new("C12", &a.out);
    let tmp = tempfile::Builder::new().prefix("c12_").tempdir().unwrap();
    let mut plan: Plan = vec![];
    if let Some(p) = &a.replay {
        let v = read_replay(p);
        plan.push((case_from_json(&v["case"]), vec!["replay"]));
    } else {
        if a.tier != "search" {
            corpus(&mut plan);
            exhaustive(&mut plan, 256);
        }
        let n = a.count.unwrap_or(match a.tier.as_str() {
            "quick" => 1000,
            "search" => 3000,
            _ => 20000,
        });
        let mut rng = Rng::new(a.seed);
        for _ in 0..n {
            plan.push((gen_case(&mut rng, a.tier != "quick"), vec![]));
        }
    }
    let searches = prefetch_searches(&plan, tmp.path());
    server_stop();
    for ((c, tags), search) in plan.into_iter().zip(searches.into_iter()) {
        record(&mut sink, tmp.path(), c, &tags, search);
    }
    sink.finish();
}
