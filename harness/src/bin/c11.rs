//! C11 — Filter::matches through its four front-ends and to_json, vs Filter/Match.v + Filter/Frontends.v
//!
//! An abstract filter (the generator's intent) is rendered to real JSON / DLF XML / dlt-convert list /
//! ECU:APID:CTID expression, loaded by the real code and asked about a universe of messages.  The oracle is the
//! property text evaluated on the abstract filter (independent of the Coq model); the correspondence shards
//! compare the model's loaded fields, decisions, written JSON and reloaded decisions with the real ones.
use adlt::dlt::{DltChar4, DltMessage};
use adlt::filter::functions::{filters_from_convert_format, filters_from_dlf};
use adlt::filter::{Char4OrRegex, Filter, FilterKind};
use serde::{Deserialize, Serialize};
use std::collections::{BTreeSet, HashMap};
use vharness::*;

// ------------------------------------------------------------------------------------------ data
#[derive(Clone, Debug, PartialEq, Serialize, Deserialize)]
struct Msg {
    ecu: [u8; 4],
    /// verb_mstp_mtin, apid, ctid
    ext: Option<(u8, [u8; 4], [u8; 4])>,
    /// payload_text of the message; None: the text is decoded from `raw` by the real payload_as_text
    text: Option<String>,
    raw: Option<Vec<u8>>,
    lc: u32,
}

#[derive(Clone, Debug, PartialEq, Serialize, Deserialize)]
struct AId {
    s: String,
    regex: bool,
}
#[derive(Clone, Debug, PartialEq, Serialize, Deserialize)]
enum AType {
    Mstp(u8),
    Vmm(u8),
}
#[derive(Clone, Debug, PartialEq, Serialize, Deserialize)]
struct APayload {
    s: String,
    regex: bool,
    ic: bool,
}
/// the abstract filter of the property text
#[derive(Clone, Debug, PartialEq, Serialize, Deserialize)]
struct AFilter {
    kind: u8,
    enabled: bool,
    negate: bool,
    ecu: Option<AId>,
    apid: Option<AId>,
    ctid: Option<AId>,
    ty: Option<AType>,
    lmin: Option<u8>,
    lmax: Option<u8>,
    payload: Option<APayload>,
    lcs: Option<Vec<u32>>,
}

#[derive(Clone, Debug, Serialize, Deserialize)]
enum FeIn {
    /// members in document order (duplicates allowed)
    Json(Vec<(String, Value)>),
    /// a text that is not a JSON object
    JsonRaw(String),
    /// per <filter>: elements in document order; bool: pretty-printed with whitespace between elements
    Dlf(Vec<Vec<(String, String)>>, bool),
    /// a DLF text written by hand (odd structure: empty elements, filters outside <dltfilter>, broken entities ...)
    DlfText(String),
    Conv(Vec<u8>),
    Eac(String),
    /// Filter::new(kind) + assignment of the public fields (library users, export plugin)
    Direct(AFilter),
}

fn pad4(b: &[u8]) -> [u8; 4] {
    let mut r = [0u8; 4];
    for i in 0..4.min(b.len()) {
        r[i] = b[i];
    }
    r
}

fn real_msg(m: &Msg, idx: u32) -> DltMessage {
    let mut d = dltgen::plain_msg(idx, 0, 1_000_000 + idx as u64 * 1000, idx);
    d.ecu = DltChar4::from_buf(&m.ecu);
    if let Some((v, a, c)) = &m.ext {
        d = dltgen::with_ext(d, *v, if m.raw.is_some() { 1 } else { 0 }, a, c);
    }
    d.lifecycle = m.lc;
    if let Some(p) = &m.raw {
        d.payload = p.clone();
        d.payload_text = None;
    } else {
        d.payload_text = m.text.clone();
    }
    d
}
/// what payload_as_text gives on the real message (None = Err)
fn eff_text(d: &DltMessage) -> Option<String> {
    d.payload_as_text().ok().map(|c| c.into_owned())
}

// ------------------------------------------------------------------------------------------ regex oracles
#[derive(Default)]
struct Engines {
    bytes: HashMap<String, Option<regex::bytes::Regex>>,
    fancy: HashMap<String, Option<fancy_regex::Regex>>,
    ci: HashMap<String, Option<regex::Regex>>,
    /// answers of fancy_regex's is_match as the engine gave them: 0 = Ok(false), 1 = Ok(true), 2 = Err(RuntimeError(..))
    fancy_answers: HashMap<(String, String), u8>,
    /// wall time spent in evaluations that ended with an engine error (they are the expensive ones)
    fancy_err_time: std::time::Duration,
    fancy_err_evals: u64,
}
impl Engines {
    fn bytes(&mut self, p: &str) -> &Option<regex::bytes::Regex> {
        self.bytes.entry(p.to_string()).or_insert_with(|| regex::bytes::Regex::new(p).ok())
    }
    fn fancy(&mut self, p: &str) -> &Option<fancy_regex::Regex> {
        self.fancy.entry(p.to_string()).or_insert_with(|| fancy_regex::Regex::new(p).ok())
    }
    fn ci(&mut self, s: &str) -> &Option<regex::Regex> {
        self.ci.entry(s.to_string()).or_insert_with(|| regex::RegexBuilder::new(&regex::escape(s)).case_insensitive(true).build().ok())
    }
    fn bytes_match(&mut self, p: &str, t: &[u8]) -> bool {
        self.bytes(p).as_ref().map(|r| r.is_match(t)).unwrap_or(false)
    }
    /// the engine's real answer: Ok(false) / Ok(true) / Err at match time (a pattern that does not compile: 0)
    fn fancy_answer(&mut self, p: &str, t: &str) -> u8 {
        let key = (p.to_string(), t.to_string());
        if let Some(a) = self.fancy_answers.get(&key) {
            return *a;
        }
        let t0 = std::time::Instant::now();
        let a = match self.fancy(p).as_ref().map(|r| r.is_match(t)) {
            Some(Ok(true)) => 1,
            Some(Ok(false)) | None => 0,
            Some(Err(_)) => 2,
        };
        if a == 2 {
            self.fancy_err_time += t0.elapsed();
            self.fancy_err_evals += 1;
        }
        self.fancy_answers.insert(key, a);
        a
    }
    /// the payload pattern criterion of the property text: it holds when the engine says "match"
    fn fancy_match(&mut self, p: &str, t: &str) -> bool {
        self.fancy_answer(p, t) == 1
    }
    fn ci_match(&mut self, s: &str, t: &str) -> bool {
        self.ci(s).as_ref().map(|r| r.is_match(t)).unwrap_or(false)
    }
}

fn contains_regex_chars(s: &str) -> bool {
    s.chars().any(|c| "^$*+?()[]{}|.-\\=!<>,".contains(c))
}

// ------------------------------------------------------------------------------------------ the property text on the abstract filter
fn aid_holds(eng: &mut Engines, c: &Option<AId>, v: Option<&[u8; 4]>) -> bool {
    match c {
        None => true,
        Some(c) => match v {
            None => false,
            Some(v) => {
                if c.regex {
                    eng.bytes_match(&c.s, v)
                } else {
                    &pad4(c.s.as_bytes()) == v
                }
            }
        },
    }
}
fn ascii_ci_contains(hay: &str, needle: &str) -> bool {
    hay.to_ascii_lowercase().contains(&needle.to_ascii_lowercase())
}
fn aspec(eng: &mut Engines, a: &AFilter, m: &Msg, text: &Option<String>) -> bool {
    if !a.enabled {
        return false;
    }
    let vmm = m.ext.as_ref().map(|e| e.0);
    let mut all = aid_holds(eng, &a.ecu, Some(&m.ecu));
    all &= aid_holds(eng, &a.apid, m.ext.as_ref().map(|e| &e.1));
    all &= aid_holds(eng, &a.ctid, m.ext.as_ref().map(|e| &e.2));
    if let Some(t) = &a.ty {
        all &= match vmm {
            None => false,
            Some(v) => match t {
                AType::Mstp(x) => (v >> 1) & 7 == *x & 7,
                // a zero mtin in the filter value means "any mtin"
                AType::Vmm(w) => {
                    if w >> 4 == 0 {
                        v & 0x0f == *w
                    } else {
                        v == *w
                    }
                }
            },
        };
    }
    if let Some(l) = a.lmin {
        all &= match vmm {
            None => false,
            Some(v) => (v >> 1) & 7 == 0 && (v >> 4) >= l,
        };
    }
    if let Some(l) = a.lmax {
        all &= match vmm {
            None => false,
            Some(v) => (v >> 1) & 7 == 0 && (v >> 4) <= l,
        };
    }
    if let Some(p) = &a.payload {
        all &= match text {
            None => false,
            Some(t) => {
                if p.regex {
                    let pat = if p.ic { format!("(?i){}", p.s) } else { p.s.clone() };
                    eng.fancy_match(&pat, t)
                } else if p.ic {
                    if p.s.is_ascii() && t.is_ascii() {
                        ascii_ci_contains(t, &p.s)
                    } else {
                        eng.ci_match(&p.s, t)
                    }
                } else {
                    t.contains(&p.s)
                }
            }
        };
    }
    if let Some(l) = &a.lcs {
        all &= l.is_empty() || l.contains(&m.lc);
    }
    a.negate ^ all
}

// ------------------------------------------------------------------------------------------ rendering
fn render_json_text(kv: &[(String, Value)]) -> String {
    let mut s = String::from("{");
    for (i, (k, v)) in kv.iter().enumerate() {
        if i > 0 {
            s.push(',');
        }
        s.push_str(&serde_json::to_string(k).unwrap());
        s.push(':');
        s.push_str(&serde_json::to_string(v).unwrap());
    }
    s.push('}');
    s
}
fn xml_escape(s: &str) -> String {
    s.replace('&', "&amp;").replace('<', "&lt;").replace('>', "&gt;").replace('"', "&quot;").replace('\'', "&apos;")
}
fn render_dlf_text(fs: &[Vec<(String, String)>], pretty: bool) -> String {
    let nl = if pretty { "\n  " } else { "" };
    let mut s = String::from("<?xml version=\"1.0\" encoding=\"UTF-8\"?>");
    s.push_str(nl);
    s.push_str("<dltfilter>");
    for f in fs {
        s.push_str(nl);
        s.push_str("<filter>");
        for (k, v) in f {
            s.push_str(nl);
            s.push_str(&format!("<{}>{}</{}>", k, xml_escape(v), k));
        }
        s.push_str(nl);
        s.push_str("</filter>");
    }
    s.push_str(nl);
    s.push_str("</dltfilter>");
    s.push_str(nl);
    s
}

/// the events quick-xml (configured as in filters_from_dlf) produces for a text, as far as the loader distinguishes them
#[derive(Clone, Debug, PartialEq)]
enum Xev {
    Start(String),
    End(String),
    Text(Option<String>),
    Eof,
    Err,
    Other,
}
fn xml_events(text: &str) -> Vec<Xev> {
    let mut reader = quick_xml::Reader::from_reader(text.as_bytes());
    reader.config_mut().trim_text(false);
    let mut buf = Vec::new();
    let mut out = vec![];
    loop {
        let ev = match reader.read_event_into(&mut buf) {
            Ok(quick_xml::events::Event::Start(ref e)) => Xev::Start(String::from_utf8_lossy(e.local_name().as_ref()).into_owned()),
            Ok(quick_xml::events::Event::End(ref e)) => Xev::End(String::from_utf8_lossy(e.local_name().as_ref()).into_owned()),
            Ok(quick_xml::events::Event::Text(t)) => Xev::Text(t.unescape().ok().map(|c| c.to_string())),
            Ok(quick_xml::events::Event::Eof) => Xev::Eof,
            Err(_) => Xev::Err,
            _ => Xev::Other,
        };
        let stop = matches!(ev, Xev::Eof | Xev::Err);
        out.push(ev);
        if stop || out.len() > 2000 {
            break;
        }
        buf.clear();
    }
    out
}
fn dlf_text(fe: &FeIn) -> Option<String> {
    match fe {
        FeIn::Dlf(fs, pretty) => Some(render_dlf_text(fs, *pretty)),
        FeIn::DlfText(t) => Some(t.clone()),
        _ => None,
    }
}

fn a_to_json(rng: &mut Rng, a: &AFilter) -> Vec<(String, Value)> {
    let mut kv: Vec<(String, Value)> = vec![("type".into(), json!(a.kind))];
    if !a.enabled || rng.chance(1, 4) {
        kv.push(("enabled".into(), json!(a.enabled)));
    }
    if a.negate || rng.chance(1, 4) {
        kv.push(("not".into(), json!(a.negate)));
    }
    for (k, c) in [("ecu", &a.ecu), ("apid", &a.apid), ("ctid", &a.ctid)] {
        if let Some(c) = c {
            kv.push((k.into(), json!(c.s)));
            if contains_regex_chars(&c.s) != c.regex || rng.chance(1, 2) {
                kv.push((format!("{}IsRegex", k), json!(c.regex)));
            }
        }
    }
    match &a.ty {
        Some(AType::Mstp(x)) => kv.push(("mstp".into(), json!(x))),
        Some(AType::Vmm(v)) => {
            kv.push(("verb_mstp_mtin".into(), json!(v)));
            if rng.chance(1, 4) {
                kv.push(("mstp".into(), json!(rng.below(8)))); // ignored: verb_mstp_mtin is preferred
            }
        }
        None => {}
    }
    if let Some(l) = a.lmin {
        kv.push(("logLevelMin".into(), json!(l)));
    }
    if let Some(l) = a.lmax {
        kv.push(("logLevelMax".into(), json!(l)));
    }
    if let Some(p) = &a.payload {
        kv.push((if p.regex { "payloadRegex" } else { "payload" }.into(), json!(p.s)));
        if p.ic || rng.chance(1, 4) {
            kv.push(("ignoreCasePayload".into(), json!(p.ic)));
        }
    }
    if let Some(l) = &a.lcs {
        kv.push(("lifecycles".into(), json!(l)));
    }
    if rng.chance(1, 5) {
        kv.push(("name".into(), json!("some name")));
    }
    // member order is irrelevant to the loader
    for i in (1..kv.len()).rev() {
        let j = rng.below(i as u64 + 1) as usize;
        kv.swap(i, j);
    }
    kv
}

/// the same with the optional `ignoreCasePayload` member forced: Some(b) = written with value b, None = left out
fn a_to_json_ic(rng: &mut Rng, a: &AFilter, ic_member: Option<bool>) -> Vec<(String, Value)> {
    let mut kv = a_to_json(rng, a);
    kv.retain(|(k, _)| k != "ignoreCasePayload");
    if let Some(b) = ic_member {
        let at = rng.below(kv.len() as u64 + 1) as usize;
        kv.insert(at, ("ignoreCasePayload".into(), json!(b)));
    }
    kv
}

fn xml_safe(s: &str) -> bool {
    !s.is_empty() && s.chars().all(|c| (c >= ' ' || c == '\t' || c == '\n') && c != '\u{7f}')
}
fn a_to_dlf(rng: &mut Rng, a: &AFilter) -> Option<Vec<(String, String)>> {
    if a.negate || a.lcs.is_some() {
        return None;
    }
    if let Some(e) = &a.ecu {
        if e.regex {
            return None;
        }
    }
    match &a.ty {
        None | Some(AType::Mstp(3)) => {}
        _ => return None,
    }
    for c in [&a.ecu, &a.apid, &a.ctid].into_iter().flatten() {
        if !xml_safe(&c.s) || !c.s.is_ascii() {
            return None;
        }
    }
    if let Some(p) = &a.payload {
        if !xml_safe(&p.s) {
            return None;
        }
    }
    let one = |b: bool| if b { "1".to_string() } else { "0".to_string() };
    let mut kv: Vec<(String, String)> = vec![];
    if a.kind != 0 || rng.chance(1, 2) {
        kv.push(("type".into(), a.kind.to_string()));
    }
    kv.push(("enablefilter".into(), one(a.enabled)));
    if rng.chance(1, 3) {
        kv.push(("name".into(), "a filter".into()));
    }
    let mut id = |kv: &mut Vec<(String, String)>, en: &str, val: &str, re: Option<&str>, c: &Option<AId>, rng: &mut Rng| match c {
        Some(c) => {
            kv.push((en.into(), "1".into()));
            kv.push((val.into(), c.s.clone()));
            if let Some(re) = re {
                if contains_regex_chars(&c.s) != c.regex || rng.chance(1, 2) {
                    kv.push((re.into(), one(c.regex)));
                }
            }
        }
        None => {
            if rng.chance(1, 3) {
                kv.push((en.into(), "0".into()));
                kv.push((val.into(), "XXXX".into())); // a disabled criterion keeps its text in dlt-viewer files
            }
        }
    };
    id(&mut kv, "enableecuid", "ecuid", None, &a.ecu, rng);
    id(&mut kv, "enableapplicationid", "applicationid", Some("enableregexp_Appid"), &a.apid, rng);
    id(&mut kv, "enablecontextid", "contextid", Some("enableregexp_Context"), &a.ctid, rng);
    if a.ty.is_some() {
        kv.push(("enablecontrolmsgs".into(), "1".into()));
    } else if rng.chance(1, 3) {
        kv.push(("enablecontrolmsgs".into(), "0".into()));
    }
    match &a.payload {
        Some(p) => {
            kv.push(("enablepayloadtext".into(), "1".into()));
            kv.push(("payloadtext".into(), p.s.clone()));
            if p.regex || rng.chance(1, 2) {
                kv.push(("enableregexp_Payload".into(), one(p.regex)));
            }
            if p.ic || rng.chance(1, 2) {
                kv.push(("ignoreCase_Payload".into(), one(p.ic)));
            }
        }
        None => {
            if rng.chance(1, 3) {
                kv.push(("enablepayloadtext".into(), "0".into()));
                kv.push(("payloadtext".into(), "foo".into()));
                kv.push(("ignoreCase_Payload".into(), one(rng.chance(1, 2))));
            }
        }
    }
    for (en, val, l) in [("enableLogLevelMin", "logLevelMin", a.lmin), ("enableLogLevelMax", "logLevelMax", a.lmax)] {
        match l {
            Some(l) => {
                kv.push((en.into(), "1".into()));
                kv.push((val.into(), l.to_string()));
            }
            None => {
                if rng.chance(1, 3) {
                    kv.push((en.into(), "0".into()));
                    kv.push((val.into(), "3".into()));
                }
            }
        }
    }
    for i in (1..kv.len()).rev() {
        let j = rng.below(i as u64 + 1) as usize;
        kv.swap(i, j);
    }
    Some(kv)
}

fn ids_only(a: &AFilter) -> bool {
    a.kind == 0 && a.enabled && !a.negate && a.ty.is_none() && a.lmin.is_none() && a.lmax.is_none() && a.payload.is_none() && a.lcs.is_none()
}
fn a_to_conv(rng: &mut Rng, a: &AFilter) -> Option<Vec<u8>> {
    if !ids_only(a) || a.ecu.is_some() {
        return None;
    }
    let (ap, ct) = (a.apid.as_ref()?, a.ctid.as_ref()?);
    let mut out = vec![];
    for c in [ap, ct] {
        if c.regex || c.s.len() > 4 || c.s.contains('-') || !c.s.is_ascii() {
            return None;
        }
        let mut b = c.s.as_bytes().to_vec();
        while b.len() < 4 {
            b.push(b'-');
        }
        out.extend_from_slice(&b);
        out.push(*rng.pick(&[b' ', b' ', b'\n']));
    }
    Some(out)
}
fn a_to_eac(a: &AFilter) -> Option<String> {
    if !ids_only(a) {
        return None;
    }
    let mut parts = vec![];
    for c in [&a.ecu, &a.apid, &a.ctid] {
        match c {
            None => parts.push(String::new()),
            Some(c) => {
                if c.s.is_empty() || c.s.contains(':') || c.s.contains(',') || c.s.contains('\0') || contains_regex_chars(&c.s) != c.regex {
                    return None;
                }
                if !c.regex && !c.s.is_ascii() {
                    return None;
                }
                parts.push(c.s.clone());
            }
        }
    }
    while parts.len() > 1 && parts.last().unwrap().is_empty() && parts.len() > 1 {
        // trailing empty parts may be left out ("ECU1" = "ECU1::")
        if parts.len() == 1 {
            break;
        }
        parts.pop();
    }
    let s = parts.join(":");
    if s.is_empty() {
        None
    } else {
        Some(s)
    }
}

// ------------------------------------------------------------------------------------------ Coq terms
fn cbytes(b: &[u8]) -> String {
    cnums(b)
}
fn cstring(s: &str) -> String {
    format!("\"{}\"%string", s.replace('"', "\"\""))
}
fn coq_jvalue(v: &Value) -> String {
    match v {
        Value::Null => "JNull".into(),
        Value::Bool(b) => format!("JBool {}", cbool(*b)),
        Value::Number(n) => match n.as_u64() {
            Some(x) => format!("JNum {}", x),
            None => "JNumOther".into(),
        },
        Value::String(s) => format!("JStr {}", cbytes(s.as_bytes())),
        Value::Array(a) => format!(
            "JArr {}",
            clist(&a.iter().map(|e| match e.as_u64() {
                Some(x) => format!("ENum {}", x),
                None => "EOther".to_string(),
            }).collect::<Vec<_>>())
        ),
        Value::Object(_) => "JObj".into(),
    }
}
fn key_ok(k: &str) -> bool {
    k.chars().all(|c| c.is_ascii_alphanumeric() || c == '_')
}
fn coq_fe(fe: &FeIn) -> String {
    match fe {
        FeIn::Json(kv) => format!("InJson (Some {})", clist(&kv.iter().map(|(k, v)| format!("({}, {})", cstring(k), coq_jvalue(v))).collect::<Vec<_>>())),
        FeIn::JsonRaw(_) => "InJson None".into(),
        FeIn::Dlf(..) | FeIn::DlfText(_) => format!(
            "InDlf {}",
            clist(
                &xml_events(&dlf_text(fe).unwrap())
                    .iter()
                    .map(|e| match e {
                        Xev::Start(n) => format!("XStart {}", cstring(n)),
                        Xev::End(n) => format!("XEnd {}", cstring(n)),
                        Xev::Text(Some(t)) => format!("XText (Some {})", cbytes(t.as_bytes())),
                        Xev::Text(None) => "XText None".to_string(),
                        Xev::Eof => "XEof".to_string(),
                        Xev::Err => "XErr".to_string(),
                        Xev::Other => "XOther".to_string(),
                    })
                    .collect::<Vec<_>>()
            )
        ),
        FeIn::Conv(b) => format!("InConv {}", cbytes(b)),
        FeIn::Eac(s) => format!("InEac {}", cbytes(s.as_bytes())),
        FeIn::Direct(a) => format!("InDirect {}", coq_afilter(a)),
    }
}
fn coq_msg(m: &Msg, text: &Option<String>) -> String {
    let ext = match &m.ext {
        None => "None".to_string(),
        Some((v, a, c)) => format!("(Some ({}, {}, {}))", v, cbytes(a), cbytes(c)),
    };
    format!("({}, {}, {}, {})", cbytes(&m.ecu), ext, copt(text.as_ref().map(|t| cbytes(t.as_bytes()))), m.lc)
}

// ------------------------------------------------------------------------------------------ observations of the real code
fn o_text(s: &[u8]) -> O {
    O::bytes(s)
}
fn o_idc(c: &Option<Char4OrRegex>) -> O {
    match c {
        None => O::T(vec![]),
        Some(Char4OrRegex::DltChar4(d)) => O::T(vec![O::L(0), o_text(d.as_buf())]),
        Some(Char4OrRegex::Regex(r)) => O::T(vec![O::L(1), o_text(r.as_str().as_bytes())]),
    }
}
fn o_fields(f: &Filter) -> O {
    O::T(vec![
        O::L(f.kind as u8 as u128),
        O::b(f.enabled),
        o_idc(&f.ecu),
        o_idc(&f.apid),
        o_idc(&f.ctid),
        O::opt(f.verb_mstp_mtin.map(|(v, m)| O::T(vec![O::n(v), O::n(m)]))),
        O::opt(f.payload.as_ref().map(|s| o_text(s.as_bytes()))),
        O::opt(f.payload_regex.as_ref().map(|r| o_text(r.as_str().as_bytes()))),
        O::b(f.ignore_case_payload),
        O::opt(f.loglevel_min.map(O::n)),
        O::opt(f.loglevel_max.map(O::n)),
        O::opt(f.lifecycles.as_ref().map(|l| O::list(l, |x| O::n(*x)))),
    ])
}
const JKEYS: [&str; 18] = [
    "type", "enabled", "not", "atLoadTime", "ecu", "ecuIsRegex", "apid", "apidIsRegex", "ctid", "ctidIsRegex", "ignoreCasePayload", "payloadRegex",
    "payload", "logLevelMin", "logLevelMax", "lifecycles", "verb_mstp_mtin", "mstp",
];
fn o_jvalue(v: &Value) -> O {
    match v {
        Value::Null => O::T(vec![O::L(0)]),
        Value::Bool(b) => O::T(vec![O::L(1), O::b(*b)]),
        Value::Number(n) if n.as_u64().is_some() => O::T(vec![O::L(2), O::n(n.as_u64().unwrap())]),
        Value::String(s) => O::T(vec![O::L(3), o_text(s.as_bytes())]),
        Value::Array(a) => O::T(vec![O::L(4), O::T(a.iter().map(|e| e.as_u64().map(O::n).unwrap_or(O::T(vec![]))).collect())]),
        _ => O::T(vec![O::L(5)]),
    }
}
fn o_json(text: &str) -> O {
    match serde_json::from_str::<Value>(text) {
        Ok(Value::Object(m)) => O::T(vec![O::n(m.len() as u64), O::T(JKEYS.iter().map(|k| O::opt(m.get(*k).map(o_jvalue))).collect())]),
        _ => O::T(vec![O::L(999)]),
    }
}
fn sweep_msgs(base: &Msg) -> Vec<Msg> {
    (0..=255u8)
        .map(|v| {
            let mut m = base.clone();
            if let Some(e) = &mut m.ext {
                e.0 = v;
            }
            m
        })
        .collect()
}
fn bits(v: &[bool]) -> O {
    let mut lo = 0u128;
    let mut hi = 0u128;
    for (i, b) in v.iter().enumerate() {
        if *b {
            if i < 128 {
                lo |= 1u128 << i
            } else {
                hi |= 1u128 << (i - 128)
            }
        }
    }
    O::T(vec![O::L(lo), O::L(hi)])
}

struct Decisions {
    msgs: Vec<bool>,
    sweep: Option<Vec<bool>>,
    /// calls of `matches` that panicked: index of the message (1000 + type byte for the sweep) and the panic message;
    /// their entry in `msgs` / `sweep` is false
    panics: Vec<(usize, String)>,
}
/// one call of Filter::matches; a panic is caught here so that the other messages are still decided
fn matches_caught(f: &Filter, m: &DltMessage) -> Result<bool, String> {
    std::panic::catch_unwind(std::panic::AssertUnwindSafe(|| f.matches(m))).map_err(|e| {
        if let Some(s) = e.downcast_ref::<String>() {
            s.clone()
        } else if let Some(s) = e.downcast_ref::<&str>() {
            s.to_string()
        } else {
            "panic".to_string()
        }
    })
}
fn decide(f: &Filter, real: &[DltMessage], real_sweep: &Option<Vec<DltMessage>>) -> Decisions {
    let mut panics = vec![];
    let mut one = |i: usize, m: &DltMessage| match matches_caught(f, m) {
        Ok(b) => b,
        Err(e) => {
            panics.push((i, e));
            false
        }
    };
    let msgs = real.iter().enumerate().map(|(i, m)| one(i, m)).collect();
    let sweep = real_sweep.as_ref().map(|s| s.iter().enumerate().map(|(i, m)| one(1000 + i, m)).collect());
    Decisions { msgs, sweep, panics }
}
fn o_decisions(d: &Decisions) -> (O, O) {
    (
        O::T(d.msgs.iter().enumerate().map(|(i, b)| if d.panics.iter().any(|(k, _)| *k == i) { O::L(2) } else { O::b(*b) }).collect()),
        d.sweep.as_ref().map(|s| bits(s)).unwrap_or(O::T(vec![])),
    )
}

struct Loaded {
    filter: Filter,
    dec: Decisions,
    json: String,
    reloaded: Option<(Filter, Decisions)>,
    /// the reloaded filter serialised and loaded once more (None: there was no reloaded filter; Some(None): its JSON does not load)
    again: Option<Option<Decisions>>,
}

fn id_printable(c: &Option<Char4OrRegex>) -> bool {
    match c {
        Some(Char4OrRegex::DltChar4(d)) => {
            let b = d.as_buf();
            let n = b.iter().position(|x| *x == 0).unwrap_or(4);
            b[..n].iter().all(|x| (0x20..=0x7e).contains(x)) && b[n..].iter().all(|x| *x == 0)
        }
        _ => true,
    }
}

// ------------------------------------------------------------------------------------------ eac through the CLI
/// runs `adlt convert -s <args> file` over the messages written to a file; None = the command line was rejected
fn run_cli(args: &[String], filter_file: Option<&[u8]>, real: &[DltMessage]) -> Result<Option<Vec<bool>>, String> {
    let bin = std::env::var("VERIF_ADLT_BIN").map_err(|_| "VERIF_ADLT_BIN not set".to_string())?;
    let dir = tempfile::tempdir().map_err(|e| e.to_string())?;
    let p = dir.path().join("u.dlt");
    let mut buf = vec![];
    for m in real {
        m.to_write(&mut buf).map_err(|e| e.to_string())?;
    }
    std::fs::write(&p, &buf).map_err(|e| e.to_string())?;
    let mut cmd = std::process::Command::new(&bin);
    cmd.arg("convert").arg("-s");
    for a in args {
        cmd.arg(a);
    }
    if let Some(ff) = filter_file {
        let fp = dir.path().join("filters.txt");
        std::fs::write(&fp, ff).map_err(|e| e.to_string())?;
        cmd.arg("-f").arg(&fp);
    }
    let out = cmd.arg(&p).output().map_err(|e| format!("spawn {}: {}", bin, e))?;
    if !out.status.success() {
        // clap rejects the value: EacFilter::from_str returned Err
        return Ok(None);
    }
    let so = String::from_utf8_lossy(&out.stdout);
    let mut sel = vec![false; real.len()];
    for line in so.lines() {
        if let Some(tok) = line.split_whitespace().next() {
            if let Ok(i) = tok.parse::<usize>() {
                if i < sel.len() {
                    sel[i] = true;
                }
            }
        }
    }
    Ok(Some(sel))
}
fn run_eac_cli(expr: &str, real: &[DltMessage]) -> Result<Option<Vec<bool>>, String> {
    run_cli(&[format!("--eac={}", expr)], None, real)
}

/// the message as it can be stored in a file: the text becomes a verbose string argument
fn file_msg(m: &Msg) -> Msg {
    let mut m = m.clone();
    if let (Some(t), None) = (&m.text, &m.raw) {
        let mut p = vec![0x00, 0x82, 0x00, 0x00]; // STRG, UTF-8
        p.extend_from_slice(&((t.len() + 1) as u16).to_le_bytes());
        p.extend_from_slice(t.as_bytes());
        p.push(0);
        m.raw = Some(p);
        m.text = None;
        if let Some(e) = &mut m.ext {
            e.0 |= 1;
        }
    }
    m
}

// ------------------------------------------------------------------------------------------ one case
struct Ctx {
    eng: Engines,
    /// decisions per abstract filter group (for the front-ends-agree clause): group id -> (front-end, decisions)
    groups: HashMap<u64, (String, Vec<bool>)>,
    /// how many `adlt convert -f` runs are still allowed in this run
    cli_budget: u64,
}

fn fail(c: &str, d: String) -> Verdict {
    Verdict::Fail { clause: c.into(), detail: d }
}

#[allow(clippy::too_many_arguments)]
fn record(sink: &mut Sink, ctx: &mut Ctx, fe: FeIn, a: Option<AFilter>, msgs: Vec<Msg>, sweep: Option<Msg>, group: Option<u64>, extra_tags: &[&str]) {
    record_multi(sink, ctx, fe, a, vec![], msgs, sweep, group, extra_tags)
}

/// `alist` (if not empty): the abstract filters of a file with several filters, in file order
#[allow(clippy::too_many_arguments)]
fn record_multi(sink: &mut Sink, ctx: &mut Ctx, fe: FeIn, a: Option<AFilter>, alist: Vec<AFilter>, msgs: Vec<Msg>, sweep: Option<Msg>, group: Option<u64>, extra_tags: &[&str]) {
    let real: Vec<DltMessage> = msgs.iter().enumerate().map(|(i, m)| real_msg(m, i as u32)).collect();
    let texts: Vec<Option<String>> = real.iter().map(eff_text).collect();
    let sweep_list = sweep.as_ref().map(sweep_msgs);
    let real_sweep: Option<Vec<DltMessage>> = sweep_list.as_ref().map(|l| l.iter().enumerate().map(|(i, m)| real_msg(m, 1000 + i as u32)).collect());
    let sweep_text: Option<Option<String>> = real_sweep.as_ref().map(|l| eff_text(&l[0]));

    let fe_name = match &fe {
        FeIn::Json(_) | FeIn::JsonRaw(_) => "json",
        FeIn::Dlf(..) | FeIn::DlfText(_) => "dlf",
        FeIn::Conv(_) => "conv",
        FeIn::Eac(_) => "eac",
        FeIn::Direct(_) => "direct",
    };
    let mut tags: Vec<String> = vec![format!("fe_{}", fe_name)];
    tags.extend(extra_tags.iter().map(|s| s.to_string()));
    let mut verdict = Verdict::Ok;
    let mut set_fail = |v: Verdict, verdict: &mut Verdict| {
        if matches!(verdict, Verdict::Ok) {
            *verdict = v;
        }
    };

    // ---- run the real code
    let mut eac_sel: Option<Option<Vec<bool>>> = None;
    let loaded: Result<Option<Vec<Loaded>>, String> = match &fe {
        FeIn::Eac(expr) => match run_eac_cli(expr, &real) {
            Ok(r) => {
                eac_sel = Some(r);
                Ok(None)
            }
            Err(e) => Err(e),
        },
        _ => {
            let fe2 = fe.clone();
            let real2 = real.clone();
            let rs2 = real_sweep.clone();
            catch_loc(move || {
                let fs: Option<Vec<Filter>> = match &fe2 {
                    FeIn::Json(kv) => Filter::from_json(&render_json_text(kv)).ok().map(|f| vec![f]),
                    FeIn::JsonRaw(t) => Filter::from_json(t).ok().map(|f| vec![f]),
                    FeIn::Dlf(..) | FeIn::DlfText(_) => filters_from_dlf(dlf_text(&fe2).unwrap().as_bytes()).ok(),
                    FeIn::Conv(b) => filters_from_convert_format(&b[..]).ok(),
                    FeIn::Direct(a) => direct_filter(a).map(|f| vec![f]),
                    FeIn::Eac(_) => unreachable!(),
                };
                fs.map(|fs| {
                    fs.into_iter()
                        .map(|f| {
                            let dec = decide(&f, &real2, &rs2);
                            let json = f.to_json();
                            let reloaded = Filter::from_json(&json).ok().map(|g| {
                                let d = decide(&g, &real2, &rs2);
                                (g, d)
                            });
                            let again = reloaded.as_ref().map(|(g, _)| Filter::from_json(&g.to_json()).ok().map(|h| decide(&h, &real2, &rs2)));
                            Loaded { filter: f, dec, json, reloaded, again }
                        })
                        .collect()
                })
            })
        }
    };

    // ---- observation
    let obs = match (&loaded, &eac_sel) {
        (Err(_), _) => O::T(vec![O::L(2)]),
        (_, Some(None)) => O::T(vec![O::L(1)]),
        (_, Some(Some(sel))) => O::T(vec![O::L(0), O::T(sel.iter().map(|b| O::b(*b)).collect())]),
        (Ok(None), None) => O::T(vec![O::L(1)]),
        (Ok(Some(ls)), None) => O::T(vec![
            O::L(0),
            O::T(ls
                .iter()
                .map(|l| {
                    let (dm, ds) = o_decisions(&l.dec);
                    let rt = match &l.reloaded {
                        None => O::T(vec![O::L(1)]),
                        Some((g, d)) => {
                            let (gm, gs) = o_decisions(d);
                            O::T(vec![O::L(0), o_fields(g), gm, gs])
                        }
                    };
                    O::T(vec![o_fields(&l.filter), dm, ds, o_json(&l.json), rt])
                })
                .collect()),
        ]),
    };

    // ---- regex tables: validity of every string of the input, answers for every loaded pattern on every id / text
    let mut strings: BTreeSet<String> = BTreeSet::new();
    match &fe {
        FeIn::Json(kv) => {
            for (_, v) in kv {
                if let Some(s) = v.as_str() {
                    strings.insert(s.to_string());
                }
            }
        }
        FeIn::Dlf(..) | FeIn::DlfText(_) => {
            for e in xml_events(&dlf_text(&fe).unwrap()) {
                if let Xev::Text(Some(t)) = e {
                    strings.insert(t);
                }
            }
        }
        FeIn::Eac(s) => {
            for p in s.split(':') {
                strings.insert(p.to_string());
            }
        }
        FeIn::Direct(a) => {
            for c in [&a.ecu, &a.apid, &a.ctid].into_iter().flatten() {
                strings.insert(c.s.clone());
            }
            if let Some(p) = &a.payload {
                strings.insert(p.s.clone());
            }
        }
        _ => {}
    }
    let mut vt: Vec<String> = vec![];
    for s in &strings {
        vt.push(format!("(0, {}, {})", cbytes(s.as_bytes()), cbool(ctx.eng.bytes(s).is_some())));
        vt.push(format!("(1, {}, {})", cbytes(s.as_bytes()), cbool(ctx.eng.fancy(s).is_some())));
        let ci = format!("(?i){}", s);
        vt.push(format!("(1, {}, {})", cbytes(ci.as_bytes()), cbool(ctx.eng.fancy(&ci).is_some())));
    }
    let mut ids: BTreeSet<[u8; 4]> = BTreeSet::new();
    let mut txts: BTreeSet<String> = BTreeSet::new();
    for (m, t) in msgs.iter().zip(texts.iter()) {
        ids.insert(m.ecu);
        if let Some(e) = &m.ext {
            ids.insert(e.1);
            ids.insert(e.2);
        }
        if let Some(t) = t {
            txts.insert(t.clone());
        }
    }
    if let Some(s) = &sweep {
        ids.insert(s.ecu);
        if let Some(e) = &s.ext {
            ids.insert(e.1);
            ids.insert(e.2);
        }
        if let Some(Some(t)) = &sweep_text {
            txts.insert(t.clone());
        }
    }
    let mut id_pats: BTreeSet<String> = BTreeSet::new();
    let mut fancy_pats: BTreeSet<String> = BTreeSet::new();
    let mut ci_lits: BTreeSet<String> = BTreeSet::new();
    let mut note_filter = |f: &Filter| {
        for c in [&f.ecu, &f.apid, &f.ctid] {
            if let Some(Char4OrRegex::Regex(r)) = c {
                id_pats.insert(r.as_str().to_string());
            }
        }
        if let Some(r) = &f.payload_regex {
            fancy_pats.insert(r.as_str().to_string());
        }
        if let Some(s) = &f.payload {
            ci_lits.insert(s.clone());
        }
    };
    if let Ok(Some(ls)) = &loaded {
        for l in ls {
            note_filter(&l.filter);
            if let Some((g, _)) = &l.reloaded {
                note_filter(g);
            }
        }
    }
    if let FeIn::Eac(s) = &fe {
        // the loaded filter is not visible through the CLI: every part may be a pattern
        for p in s.split(':') {
            if ctx.eng.bytes(p).is_some() {
                id_pats.insert(p.to_string());
            }
        }
    }
    let mut rt: Vec<String> = vec![];
    let mut ci_assumption_broken: Option<String> = None;
    let mut engine_errors = 0u64;
    for p in &id_pats {
        for i in &ids {
            rt.push(format!("(0, {}, {}, {})", cbytes(p.as_bytes()), cbytes(i), ctx.eng.bytes_match(p, i) as u8));
        }
    }
    for p in &fancy_pats {
        for t in &txts {
            let ans = ctx.eng.fancy_answer(p, t);
            if ans == 2 {
                engine_errors += 1;
            }
            rt.push(format!("(1, {}, {}, {})", cbytes(p.as_bytes()), cbytes(t.as_bytes()), ans));
        }
    }
    for s in &ci_lits {
        for t in &txts {
            let ans = ctx.eng.ci_match(s, t);
            rt.push(format!("(2, {}, {}, {})", cbytes(s.as_bytes()), cbytes(t.as_bytes()), ans as u8));
            if s.is_ascii() && t.is_ascii() && ans != ascii_ci_contains(t, s) {
                ci_assumption_broken = Some(format!("literal {:?} text {:?}: engine {}", s, t, ans));
            }
        }
    }
    if let Some(d) = ci_assumption_broken {
        set_fail(fail("assumption_case_insensitive_literal", d), &mut verdict);
    }

    // ---- oracle: the property text
    let mut classes: Vec<String> = vec![];
    match &loaded {
        Err(e) => set_fail(fail("no_panic", e.clone()), &mut verdict),
        Ok(_) => {}
    }
    // `matches` is total: whatever the message's payload makes a regex engine do, no call panics
    if let Ok(Some(ls)) = &loaded {
        for (k, l) in ls.iter().enumerate() {
            let all = [("loaded", Some(&l.dec)), ("reloaded", l.reloaded.as_ref().map(|(_, d)| d)), ("twice reloaded", l.again.as_ref().and_then(|d| d.as_ref()))];
            for (which, d) in all {
                if let Some((i, e)) = d.and_then(|d| d.panics.first()) {
                    let (m, t) = if *i < 1000 { (&msgs[*i], &texts[*i]) } else { (sweep.as_ref().unwrap(), sweep_text.as_ref().unwrap()) };
                    let t = t.as_ref().map(|t| if t.len() > 60 { format!("{}.. ({} bytes)", &t[..t.char_indices().map(|(i, _)| i).take_while(|i| *i <= 40).last().unwrap_or(0)], t.len()) } else { t.clone() });
                    set_fail(
                        fail("matches_total", format!("front-end {}: {} filter {} ({}): matches PANICKED on message {} {:?} text {:?}: {}", fe_name, which, k, l.json, i, m.ecu, t, e)),
                        &mut verdict,
                    );
                }
            }
        }
    }
    let n_filters = match &loaded {
        Ok(Some(ls)) => ls.len(),
        _ => 0,
    };
    if let Some(a) = &a {
        let want: Vec<bool> = msgs.iter().zip(texts.iter()).map(|(m, t)| aspec(&mut ctx.eng, a, m, t)).collect();
        let want_sweep: Option<Vec<bool>> = sweep_list.as_ref().map(|l| l.iter().map(|m| aspec(&mut ctx.eng, a, m, sweep_text.as_ref().unwrap())).collect());
        let got: Option<(Vec<bool>, Option<Vec<bool>>)> = match (&loaded, &eac_sel) {
            (_, Some(Some(sel))) => Some((sel.clone(), None)),
            (Ok(Some(ls)), None) if ls.len() == 1 => Some((ls[0].dec.msgs.clone(), ls[0].dec.sweep.clone())),
            _ => None,
        };
        match got {
            None => set_fail(fail(&format!("frontend_{}_loads", fe_name), "an expressible filter was not loaded as one filter".into()), &mut verdict),
            Some((g, gs)) => {
                if g != want {
                    let i = g.iter().zip(want.iter()).position(|(x, y)| x != y).unwrap();
                    let no_ext = msgs[i].ext.is_none();
                    set_fail(
                        fail(
                            if no_ext { "no_ext_header_fails_id_type_level" } else { "matches_spec" },
                            format!("front-end {}: message {} {:?} text {:?}: matches = {}, specification = {}", fe_name, i, msgs[i], texts[i], g[i], want[i]),
                        ),
                        &mut verdict,
                    );
                }
                if let (Some(gs), Some(ws)) = (&gs, &want_sweep) {
                    if gs != ws {
                        let i = gs.iter().zip(ws.iter()).position(|(x, y)| x != y).unwrap();
                        set_fail(fail("matches_spec", format!("front-end {}: type byte {:#04x}: matches = {}, specification = {}", fe_name, i, gs[i], ws[i])), &mut verdict);
                    }
                }
                if let Some(gid) = group {
                    match ctx.groups.get(&gid) {
                        None => {
                            ctx.groups.insert(gid, (fe_name.to_string(), g.clone()));
                        }
                        Some((other, d)) => {
                            if d != &g {
                                set_fail(fail("frontends_agree", format!("{} and {} decide differently on the same abstract filter", other, fe_name)), &mut verdict);
                            }
                        }
                    }
                }
            }
        }
    }
    // a file with several filters: one loaded filter per abstract filter, in order, each deciding as its abstract filter
    if !alist.is_empty() {
        tags.push(format!("multi{}", alist.len()));
        match &loaded {
            Ok(Some(ls)) if ls.len() == alist.len() => {
                for (k, (l, a)) in ls.iter().zip(alist.iter()).enumerate() {
                    let want: Vec<bool> = msgs.iter().zip(texts.iter()).map(|(m, t)| aspec(&mut ctx.eng, a, m, t)).collect();
                    if l.dec.msgs != want {
                        let i = want.iter().zip(l.dec.msgs.iter()).position(|(x, y)| x != y).unwrap();
                        set_fail(
                            fail("matches_spec", format!("front-end {}: filter {} of the file, message {} {:?}: matches = {}, specification = {}", fe_name, k, i, msgs[i], l.dec.msgs[i], want[i])),
                            &mut verdict,
                        );
                    }
                }
            }
            Ok(Some(ls)) => set_fail(fail(&format!("frontend_{}_loads", fe_name), format!("{} filters loaded from a file with {}", ls.len(), alist.len())), &mut verdict),
            _ => set_fail(fail(&format!("frontend_{}_loads", fe_name), "file not loaded".into()), &mut verdict),
        }
    }
    // the selection made by `adlt convert -f <file>` with this one positive, enabled filter
    if let (Some(a), true) = (&a, ctx.cli_budget > 0) {
        let file: Option<Vec<u8>> = match &fe {
            FeIn::Dlf(fs, pretty) if fs.len() == 1 => Some(render_dlf_text(fs, *pretty).into_bytes()),
            FeIn::Conv(b) => Some(b.clone()),
            _ => None,
        };
        if let (Some(file), true, true) = (file, a.kind == 0 && a.enabled && a.lcs.is_none(), !matches!(a.ty, Some(AType::Vmm(_)))) {
            ctx.cli_budget -= 1;
            let fmsgs: Vec<Msg> = msgs.iter().map(file_msg).collect();
            let freal: Vec<DltMessage> = fmsgs.iter().enumerate().map(|(i, m)| real_msg(m, i as u32)).collect();
            let ftexts: Vec<Option<String>> = freal.iter().map(eff_text).collect();
            let want: Vec<bool> = fmsgs.iter().zip(ftexts.iter()).map(|(m, t)| aspec(&mut ctx.eng, a, m, t)).collect();
            tags.push("cli_filter_file".into());
            match run_cli(&[], Some(&file), &freal) {
                Ok(Some(sel)) => {
                    if sel != want {
                        let i = sel.iter().zip(want.iter()).position(|(x, y)| x != y).unwrap();
                        set_fail(
                            fail("cli_selection", format!("adlt convert -f ({}): message {} {:?} text {:?}: selected = {}, specification = {}", fe_name, i, fmsgs[i], ftexts[i], sel[i], want[i])),
                            &mut verdict,
                        );
                    }
                }
                Ok(None) => set_fail(fail("cli_selection", "adlt convert -f failed".into()), &mut verdict),
                Err(e) => set_fail(fail("cli_selection", e), &mut verdict),
            }
        }
    }
    // a filter serialised to JSON and loaded again decides identically (ids of printable ASCII)
    if let Ok(Some(ls)) = &loaded {
        for l in ls {
            let f = &l.filter;
            if !(id_printable(&f.ecu) && id_printable(&f.apid) && id_printable(&f.ctid)) {
                tags.push("ids_not_printable".into());
                continue;
            }
            match &l.reloaded {
                None => set_fail(fail("json_roundtrip", format!("to_json output {} does not load", l.json)), &mut verdict),
                Some((_, d)) => {
                    if d.msgs != l.dec.msgs || d.sweep != l.dec.sweep {
                        let detail = match d.msgs.iter().zip(l.dec.msgs.iter()).position(|(x, y)| x != y) {
                            Some(i) => format!("message {} {:?}: original {} reloaded {} (json {})", i, msgs[i], l.dec.msgs[i], d.msgs[i], l.json),
                            None => format!("type-byte sweep differs (json {})", l.json),
                        };
                        set_fail(fail("json_roundtrip", detail), &mut verdict);
                    }
                }
            }
            // ... and so does the reloaded filter when it is serialised and loaded once more
            match &l.again {
                Some(None) => set_fail(fail("json_roundtrip", format!("to_json output of the filter reloaded from {} does not load", l.json)), &mut verdict),
                Some(Some(d)) => {
                    if d.msgs != l.dec.msgs || d.sweep != l.dec.sweep {
                        set_fail(fail("json_roundtrip", format!("second to_json/from_json cycle decides differently (first json {})", l.json)), &mut verdict);
                    }
                }
                None => {}
            }
        }
    }

    // ---- tags
    if let Some(a) = &a {
        tags.push("abstract".into());
        let n = [a.ecu.is_some(), a.apid.is_some(), a.ctid.is_some(), a.ty.is_some(), a.lmin.is_some(), a.lmax.is_some(), a.payload.is_some(), a.lcs.is_some()]
            .iter()
            .filter(|b| **b)
            .count();
        tags.push(format!("criteria{}", n));
        if a.negate {
            tags.push("negated".into());
        }
        if let Some(l) = &a.lcs {
            let sorted = l.windows(2).all(|w| w[0] <= w[1]);
            tags.push(format!("lifecycles_{}{}", if l.len() <= 1 { "short" } else if sorted { "ascending" } else { "unordered" }, if a.negate { "_not" } else { "" }));
        }
        let texts_of = [a.ecu.as_ref().map(|c| &c.s), a.apid.as_ref().map(|c| &c.s), a.ctid.as_ref().map(|c| &c.s), a.payload.as_ref().map(|p| &p.s)];
        if texts_of.iter().flatten().any(|t| t.trim() != t.as_str()) {
            tags.push(format!("edge_whitespace_{}", fe_name));
        }
        if texts_of.iter().flatten().any(|t| t.contains(['&', '<', '>', '"', '\''])) {
            tags.push(format!("xml_special_{}", fe_name));
        }
        if !a.enabled {
            tags.push("disabled".into());
        }
        if [&a.ecu, &a.apid, &a.ctid].into_iter().flatten().any(|c| c.regex) {
            tags.push("id_regex".into());
        }
        if let Some(p) = &a.payload {
            tags.push(format!("payload_{}{}", if p.regex { "regex" } else { "literal" }, if p.ic { "_ic" } else { "" }));
            if p.regex && has_inline_flags(&p.s) {
                tags.push(format!("payload_regex_inline_flag{}_{}", if p.ic { "_ic" } else { "" }, fe_name));
            }
        }
        if [&a.ecu, &a.apid, &a.ctid].into_iter().flatten().any(|c| c.regex && has_inline_flags(&c.s)) {
            tags.push(format!("id_regex_inline_flag_{}", fe_name));
        }
    } else {
        tags.push("raw".into());
    }
    match &obs {
        O::T(v) if v.len() == 1 => tags.push("load_error".into()),
        _ => {}
    }
    if sweep.is_some() {
        tags.push("type_sweep".into());
    }
    if engine_errors > 0 {
        // the real engine failed at match time on a (pattern, text) pair of this case
        tags.push(format!("engine_error_{}", fe_name));
        if a.as_ref().map(|a| a.negate).unwrap_or(false) {
            tags.push("engine_error_negated".into());
        }
    }
    let any_true = match (&loaded, &eac_sel) {
        (Ok(Some(ls)), _) => ls.iter().any(|l| l.dec.msgs.iter().any(|b| *b)),
        (_, Some(Some(s))) => s.iter().any(|b| *b),
        _ => false,
    };
    let any_false = match (&loaded, &eac_sel) {
        (Ok(Some(ls)), _) => ls.iter().any(|l| l.dec.msgs.iter().any(|b| !*b)),
        (_, Some(Some(s))) => s.iter().any(|b| !*b),
        _ => false,
    };
    let nontrivial = any_true && any_false;
    let _ = n_filters;
    let _ = &mut classes;

    let input_coq = format!(
        "({}, {}, {}, {}, {})",
        coq_fe(&fe),
        clist(&vt),
        clist(&rt),
        clist(&msgs.iter().zip(texts.iter()).map(|(m, t)| coq_msg(m, t)).collect::<Vec<_>>()),
        copt(sweep.as_ref().map(|s| coq_msg(s, sweep_text.as_ref().unwrap())))
    );
    let input_json = json!({"fe": fe, "afilter": a, "afilters": alist, "msgs": msgs, "sweep": sweep, "group": group});
    let key = format!("{}|{}", serde_json::to_string(&fe).unwrap(), serde_json::to_string(&msgs).unwrap());
    let id = sink.next_id();
    sink.push(Case { id, input_coq, input_json, obs, verdict, classes, tags, nontrivial, key });
}

// ------------------------------------------------------------------------------------------ generators
const LIT_IDS: &[&str] = &["ECU1", "ECU2", "EC", "E", "ABCDE", "APID", "AP", "APIDX", "CTID", "CT", "TC", "A B", "ecu1", "", "XY", "ECU", "A.B", "C+", "A.B", "AB ", " AB", "A  ", " ", " A ", "A&B", "<A>"];
const RE_IDS: &[&str] = &[
    "ECU1|ECU2", "^EC", "E.U", "AP|CT", "[AC]", "\\x00$", "(?i)ecu1", "^.{2}\\x00", "^ECU\\d$", "A.*D", "CT$", "^(AP|TC)", "X+", "D$", "^AB $", "^ ", "A&B|<A>",
    // patterns that carry their own inline flag groups
    "(?i)ap", "(?i:ct)id", "^(?i)tc", "(?i)^apid$", "(?s)^.CU1", "(?-i)ecu1", "ap(?i)id", "(?i)(?i)xy",
];
/// regular expressions without any of the auto-detection characters (only reachable with an explicit IsRegex)
const RE_PLAIN_IDS: [&str; 4] = ["APID", "EC", "C", "T"];
const MSG_IDS: &[&[u8; 4]] = &[
    b"ECU1", b"ECU2", b"EC\0\0", b"E\0\0\0", b"ABCD", b"APID", b"AP\0\0", b"CTID", b"CT\0\0", b"TC\0\0", b"ecu1", b"\0\0\0\0", b"A B\0", b"XXXX", b"XY\0\0",
    b"ECU\0", b"\xff\x01- ", b"APIX", b"A.B\0", b"AxB\0", b"C+\0\0", b"CC\0\0",
    b"AB \0", b"AB\0\0", b" AB\0", b"A  \0", b"A\0\0\0", b" \0\0\0", b" A \0", b"A \0\0", b"A&B\0", b"<A>\0",
];
const LIT_PAYLOADS: &[&str] = &["foo", "Foo", "FOO bar", "o", "", "stra\u{df}e", "a.b", "k", "(?i)", "bar", "12", "F", "error ", " error", " ", "  ", "a\tb", "\tx", "line\n", " \n", "a & b", "a &amp; b", "x < y", "<tag>", "\"q\" 'r'", "]]>", "<![CDATA[x]]>", " two  blanks ", "(?i)foo", "(?i:x)", "(?s)"];
const RE_PAYLOADS: &[&str] = &["^foo", "fo+", "foo.*bar", "(?<n>\\d+)", "(?!x)foo", "\\d{2,}", "Foo", "^$", "(?i)x", "bar$", "a.b", "[fF]oo (?=b)", "^state ", "error $", " end$", "^ ", "\\t", " +x", "a &amp; b", "<b>|\"q\"", "^\\s+$", "a  b",
    // patterns that carry their own inline flag groups (whatever ignoreCasePayload says)
    "(a|b|ab)*(?=c)", "(?<=x )(\\d+,?)*;", "(e|r|er|o|ro)*(?=!)",
    "(?i)error", "(?i:foo) bar", "^(?i)state", "(?i)^foo", "(?s)a.b", "(?is)^a.b$", "(?i)(?i)x", "foo(?i) bar", "(?-i)Foo", "(?m)^bar$", "(?i)", "((?i)fo)o",
];
const TEXTS: &[&str] = &[
    "foo", "Foo", "FOO BAR", "a foo bar", "xfoo 12", "", "stra\u{df}e", "STRASSE", "a.b", "aXb", "\u{212a}elvin", "kelvin", "(?i)x", "foo bar", "FOO", "x 7 y",
    "error", "errors: none", "error code", "state 1", "statement", " ", "a\tb", "a b", "a & b", "a &amp; b", "x < y", "<tag>", "the end", "\"q\" 'r'", "]]>",
    "ababababc", "x 12,13,14,;", "errorerror!",
];

/// pattern bodies for the inline-flag family (payload / ids); mixed case so that every case variant is a different text
const FLAG_BODIES: &[&str] = &["error", "Foo", "state 1", "a.b", "warn", "Kelvin", "bar$", "fo+ b", "x < y", "the end", "STRASSE", "code 12"];
const FLAG_ID_BODIES: &[&str] = &["ecu1", "ap", "CT", "apid", "Ab", "tc", "E.U1", "xy", "ECU", "ctid"];
const N_FLAG_FORMS: u64 = 16;
/// the ways an inline flag group can be attached to a pattern body
fn flagged(form: u64, body: &str) -> String {
    let splittable = body.len() >= 2 && body.chars().all(|c| c.is_ascii_alphanumeric() || c == ' ');
    let (head, tail) = body.split_at(if splittable { body.len() / 2 } else { 0 });
    match form {
        0 => format!("(?i){}", body),
        1 => format!("(?i:{})", body),
        2 => format!("^(?i){}", body),
        3 => format!("(?i)^{}", body),
        4 => format!("(?s){}", body),
        5 => format!("(?is){}", body),
        6 => format!("(?i)(?i){}", body),
        7 if splittable => format!("{}(?i){}", head, tail),
        8 if splittable => format!("(?i:{}){}", head, tail),
        9 => format!("(?-i){}", body),
        10 => format!("(?m)^{}", body),
        11 => format!("(?i)(?s){}", body),
        12 => format!("(?s)(?i){}", body),
        13 => format!("((?i){})", body),
        14 => format!("(?i)(?-i){}", body),
        15 => format!(" (?i){}", body),
        _ => format!("(?i){}", body),
    }
}
fn flag_form_name(form: u64) -> &'static str {
    match form {
        0 | 3 | 6 | 11 | 14 => "flag_ci_at_start",
        1 | 8 | 13 => "flag_ci_scoped",
        2 | 7 | 12 | 15 => "flag_ci_inside",
        _ => "flag_other",
    }
}


// ------------------------------------------------------------------------------------------ engine limits (wave 7)
/// ambiguous repetitions: (pattern core, the unit the payload repeats, what the pattern wants behind the repetitions).
/// On `unit` x n WITHOUT the terminator a backtracking engine tries every way of cutting the text before it gives up.
const AMBIG_CORES: &[(&str, &str, &str)] = &[
    ("(a|b|ab)*", "ab", "c"),
    ("(a|ab|b)+", "ab", "c"),
    ("(a+)+", "a", "c"),
    ("(x+x+)+", "x", "y"),
    ("(\\w+\\s?)+", "ab ", "!"),
    ("(e|r|er|o|ro)*", "error", "!"),
    ("(\\d+,?)*", "12,", ";"),
    ("(.*?,)+", "k=v,", ";"),
];
const N_ENGINE_FORMS: u64 = 9;
/// the constructs that make fancy_regex run a pattern on its own backtracking VM (a pattern without any of them is
/// handed to the linear-time `regex` crate as a whole and cannot fail at match time); form 8 = none (control)
fn backtracking_form(form: u64, core: &str, term: &str) -> String {
    match form {
        0 => format!("{}(?={})", core, term),               // look-ahead
        1 => format!("(?!zz){}{}", core, term),             // negative look-ahead
        2 => format!("{}(?<=.){}", core, term),             // look-behind
        3 => format!("(q?){}\\1{}", core, term),            // backreference
        4 => format!("(?>z?){}{}", core, term),             // atomic group
        5 => format!("(?<n>q?){}\\k<n>{}", core, term),     // named backreference
        6 => format!("z?+{}{}", core, term),                // possessive quantifier
        7 => format!("^{}{}(?!.)", core, term),             // anchored, negative look-ahead at the end
        _ => format!("{}{}", core, term),                   // plain: delegated to `regex`
    }
}
fn engine_form_name(form: u64) -> &'static str {
    ["lookahead", "neg_lookahead", "lookbehind", "backref", "atomic", "named_backref", "possessive", "anchored_neg_lookahead", "plain"][form.min(8) as usize]
}
fn engine_probe() {
    let mut eng = Engines::default();
    for (core, unit, term) in AMBIG_CORES {
        for form in 0..N_ENGINE_FORMS {
            for ic in [false, true] {
                let pat = format!("{}{}", if ic { "(?i)" } else { "" }, backtracking_form(form, core, term));
                if eng.fancy(&pat).is_none() {
                    println!("{:40} does not compile", pat);
                    continue;
                }
                let mut line = format!("{:40}", pat);
                for n in [6usize, 10, 14, 18, 22, 30, 40, 60] {
                    for with_term in [false, true] {
                        let t = format!("{}{}", unit.repeat(n), if with_term { term } else { "" });
                        let t0 = std::time::Instant::now();
                        let a = eng.fancy_answer(&pat, &t);
                        line.push_str(&format!(" {}{}:{}({}ms)", n, if with_term { "+" } else { "" }, a, t0.elapsed().as_millis()));
                    }
                }
                println!("{}", line);
            }
        }
    }
}

/// the engine-limit family: payload patterns that run on fancy_regex's backtracking VM x payloads that drive it over
/// its limit (the ambiguous unit repeated 18..60 times without the terminating character), stay below it (6..14
/// repetitions), match at once (with the terminator) and ordinary payloads; alone and together with other criteria,
/// negated or not, through every front-end that accepts a payload pattern
fn engine_family(sink: &mut Sink, ctx: &mut Ctx, rng: &mut Rng, group: &mut u64, rounds: u64) {
    for round in 0..rounds {
        for form in 0..N_ENGINE_FORMS {
            let (core, unit, term) = AMBIG_CORES[((form + round * 5 + rng.below(2)) % AMBIG_CORES.len() as u64) as usize];
            let pat = backtracking_form(form, core, term);
            let ic = (form + round) % 3 == 0;
            if ctx.eng.fancy(&pat).is_none() || ctx.eng.fancy(&format!("(?i){}", pat)).is_none() {
                continue;
            }
            let with_others = (round + form) % 3 == 1;
            let mut af = gen_afilter(rng, if with_others { 2 } else { 0 }, 5);
            af.kind = if rng.chance(1, 6) { 1 } else { 0 };
            af.enabled = true;
            af.negate = (form + round) % 2 == 1;
            af.payload = Some(APayload { s: pat.clone(), regex: true, ic });
            let (mut msgs, base) = universe(rng, &mut ctx.eng, &af, 1);
            let n_over = *rng.pick(&[18usize, 22, 26, 30, 40, 50, 60]);
            let n_under = *rng.pick(&[6usize, 8, 10, 12, 14]);
            let up = |t: String, on: bool| if on { t.to_uppercase() } else { t };
            let upper = ic && rng.chance(1, 2);
            let mut evil: Vec<String> = vec![
                up(unit.repeat(n_over), upper),                         // over the limit
                unit.repeat(n_under),                                   // ambiguous, but below the limit
                format!("{}{}", unit.repeat(n_over), term),             // the same text with the terminator: matches at once
                format!("{}{}", unit.repeat(n_under), term),
            ];
            if rng.chance(1, 3) {
                evil.push(format!("state {}{} end", unit.repeat(n_over), term));
            }
            if rng.chance(1, 4) {
                evil.push(format!("x{}", unit.repeat(n_over + 1))); // a second text over the limit
            }
            for t in evil {
                let mut m = base.clone();
                m.text = Some(t);
                msgs.push(m);
            }
            // an earlier criterion fails: `matches` returns before the engine is asked
            let mut m = base.clone();
            m.text = Some(unit.repeat(n_over));
            if af.ecu.is_some() || af.apid.is_some() || af.ctid.is_some() || af.ty.is_some() || af.lmin.is_some() || af.lmax.is_some() {
                m.ext = None;
                m.ecu = *b"ZZZZ";
                msgs.push(m);
            }
            let sweep = if af.ty.is_some() || af.lmin.is_some() || af.lmax.is_some() { Some(base) } else { None };
            *group += 1;
            let tags = ["regex_engine", engine_form_name(form), if af.negate { "engine_negated" } else { "engine_plain" }];
            // one front-end per filter in rotation, every third filter through a second one (front-ends agree)
            let dlf = a_to_dlf(rng, &af);
            let direct = direct_filter(&af).is_some();
            let pick = (round + form) % 3;
            let mut done = 0;
            if pick == 1 || pick == 2 && !direct || pick == 0 && dlf.is_none() {
                let ic_member = if ic { Some(true) } else if rng.chance(1, 2) { Some(false) } else { None };
                let kv = a_to_json_ic(rng, &af, ic_member);
                record(sink, ctx, FeIn::Json(kv), Some(af.clone()), msgs.clone(), sweep.clone(), Some(*group), &tags);
                done += 1;
            }
            if let (Some(d), true) = (dlf, pick == 0 || (round + form) % 6 == 1) {
                record(sink, ctx, FeIn::Dlf(vec![d], rng.chance(1, 2)), Some(af.clone()), msgs.clone(), sweep.clone(), Some(*group), &tags);
                done += 1;
            }
            if direct && (pick == 2 || done == 0) {
                record(sink, ctx, FeIn::Direct(af.clone()), Some(af.clone()), msgs.clone(), sweep.clone(), Some(*group), &tags);
            }
        }
    }
}

// ------------------------------------------------------------------------------------------ ids made of regex characters (wave 7)
const META_CHARS: &str = ".-,=!<>^$*+?()[]{}|\\";
/// id texts that contain characters of `contains_regex_chars`: every character in front / inside / behind letters,
/// and texts whose reading as a regular expression differs from the literal one (or is no regular expression at all)
fn meta_ids() -> Vec<String> {
    let mut v: Vec<String> = vec![];
    for c in META_CHARS.chars() {
        v.push(format!("E{}U1", c));
        v.push(format!("A{}B", c));
        v.push(format!("{}AB", c));
        v.push(format!("AB{}", c));
        v.push(format!("E{}", c));
    }
    for s in [
        "E.U1", "EC.1", "E..1", "....", ".*", ".", "A|B", "EC|AP", "^AB", "AB$", "^EC", "A+", "AB*", "AB?", "(AB)", "[AB]", "[AB", "AB]", "A{2}", "A{2", "EC(1", "A[1", "X*+",
        "A\\d", "A\\", "\\x41", "a=b", "a!b", "<A>", "A,B", "A-B", "EC-1", "----", "E-1", "(", ")", "?", "*A", "+A", "A{,", "A|", "|", "^$", "^", "$", "C+", "[A-C]U", "E.U", "(?i)e", "A.B.C",
    ] {
        v.push(s.to_string());
    }
    let mut seen = BTreeSet::new();
    v.into_iter().filter(|x| seen.insert(x.clone())).collect()
}
/// ids on which the two readings of an id text differ or agree: (ids the text matches when read as a regular expression
/// over the 4 id bytes although they are not the literal id, ids that satisfy neither reading); the literal id itself
/// is the satisfying message of the literal reading
fn reading_probes(eng: &mut Engines, s: &str) -> (Vec<[u8; 4]>, Vec<[u8; 4]>) {
    let lit = pad4(s.as_bytes());
    let is_meta = |c: char| contains_regex_chars(&c.to_string());
    let chars: Vec<char> = s.chars().collect();
    let mut cands: Vec<String> = vec![];
    for (i, c) in chars.iter().enumerate() {
        if !is_meta(*c) {
            continue;
        }
        let head: String = chars[..i].iter().collect();
        let tail: String = chars[i + 1..].iter().collect();
        for r in ["C", "X", "1", ""] {
            cands.push(format!("{}{}{}", head, r, tail));
        }
        if i > 0 {
            // the character in front of a quantifier dropped / repeated
            let head1: String = chars[..i - 1].iter().collect();
            cands.push(format!("{}{}", head1, tail));
            cands.push(format!("{}{}{}", head, chars[i - 1], tail));
        }
    }
    let stripped: String = chars.iter().filter(|c| !is_meta(**c)).collect();
    cands.push(stripped.clone());
    cands.push(format!("X{}", stripped));
    cands.push(format!("{}X", stripped));
    cands.push(format!("X{}", s));
    cands.push(format!("{}X", s));
    for part in s.split('|') {
        cands.push(part.chars().filter(|c| !is_meta(*c)).collect());
    }
    let mut ids: Vec<[u8; 4]> = vec![];
    for c in cands.iter().filter(|c| c.is_ascii()) {
        let id = pad4(c.as_bytes());
        if id != lit && !ids.contains(&id) {
            ids.push(id);
        }
    }
    for id in MSG_IDS {
        if **id != lit && !ids.contains(*id) {
            ids.push(**id);
        }
    }
    let compiles = eng.bytes(s).is_some();
    let (re_only, neither): (Vec<[u8; 4]>, Vec<[u8; 4]>) = ids.into_iter().partition(|id| compiles && eng.bytes_match(s, id));
    (re_only, neither)
}
/// the optional "is a regular expression" member of an id criterion forced: Some(b) = written with value b, None = left out
fn force_json_id_option(rng: &mut Rng, kv: &mut Vec<(String, Value)>, key: &str, opt: Option<bool>) {
    let member = format!("{}IsRegex", key);
    kv.retain(|(k, _)| k != &member);
    if let Some(b) = opt {
        let at = rng.below(kv.len() as u64 + 1) as usize;
        kv.insert(at, (member, json!(b)));
    }
}
fn force_dlf_id_option(rng: &mut Rng, kv: &mut Vec<(String, String)>, key: &str, opt: Option<bool>) {
    // dlt-viewer has no such element for the ECU id
    let member = match key {
        "apid" => "enableregexp_Appid",
        "ctid" => "enableregexp_Context",
        _ => return,
    };
    kv.retain(|(k, _)| k != member);
    if let Some(b) = opt {
        let at = rng.below(kv.len() as u64 + 1) as usize;
        kv.insert(at, (member.into(), if b { "1" } else { "0" }.into()));
    }
}
/// ids containing characters of `contains_regex_chars` in ECU / APID / CTID position, the regex option on / off /
/// absent, through every front-end; per id text the literal and the regex reading are two abstract filters and every
/// front-end input is checked against the reading the front-end's rules give it (DLF ecuid: always literal)
#[allow(clippy::too_many_arguments)]
fn meta_id_family(sink: &mut Sink, ctx: &mut Ctx, rng: &mut Rng, group: &mut u64, seed: u64, stride: u64, have_cli: bool, eac_budget: &mut u64) {
    let ids = meta_ids();
    for (k, s) in ids.iter().enumerate() {
        let k = k as u64;
        if (k + seed) % stride != 0 && stride > 1 && (k * 7 + seed) % stride != 1 {
            continue;
        }
        // 0 ecu (half of the texts: the position for which dlt-viewer files have no regex option), 1 apid, 2 ctid
        let pos = if (k + k / 5 + seed) % 2 == 0 { 0 } else { 1 + ((k / 2 + seed) % 2) as usize };
        let key = ["ecu", "apid", "ctid"][pos];
        let opt: Option<bool> = match (k / 3 + k + seed / 3) % 3 {
            0 => None,
            1 => Some(false),
            _ => Some(true),
        };
        let compiles = ctx.eng.bytes(s).is_some();
        let with_others = k % 4 == 3;
        let mut base_a = gen_afilter(rng, 0, 1);
        base_a.kind = 0;
        base_a.enabled = true;
        base_a.negate = false;
        if with_others {
            let lit = |rng: &mut Rng| AId { s: rng.pick(&["APID", "AP", "CTID", "CT", "ECU1", "XY"]).to_string(), regex: false };
            if pos != 1 {
                base_a.apid = Some(lit(rng));
            }
            if pos != 2 && rng.chance(1, 2) {
                base_a.ctid = Some(lit(rng));
            }
        }
        let mk = |regex: bool| {
            let mut a = base_a.clone();
            let c = Some(AId { s: s.clone(), regex });
            match pos {
                0 => a.ecu = c,
                1 => a.apid = c,
                _ => a.ctid = c,
            }
            a
        };
        let a_lit = mk(false);
        let a_re = mk(true);
        // one universe for both readings: the literal id, ids only the regex reading accepts, ids neither accepts
        let (mut msgs, base) = universe(rng, &mut ctx.eng, &a_lit, 1);
        if compiles {
            msgs.push(satisfying_msg(rng, &mut ctx.eng, &a_re));
        }
        let _ = base;
        *group += 1;
        let g_lit = *group;
        *group += 1;
        let g_re = *group;
        let tag_pos = format!("meta_id_{}", key);
        let tag_opt = match opt {
            None => "id_option_absent",
            Some(false) => "id_option_off",
            Some(true) => "id_option_on",
        };
        // the reading a front-end's rules give the text: (abstract filter, group); None = the regex reading of a text
        // that is no regular expression (JSON / --eac: error, DLF: the criterion is dropped) - correspondence only
        let reading = |regex: bool| -> (Option<AFilter>, Option<u64>, &'static str) {
            if !regex {
                (Some(a_lit.clone()), Some(g_lit), "reading_literal")
            } else if compiles {
                (Some(a_re.clone()), Some(g_re), "reading_regex")
            } else {
                (None, None, "reading_invalid_regex")
            }
        };
        // JSON: the option decides, absent = auto-detection
        {
            let (a, g, rtag) = reading(opt.unwrap_or(true));
            let mut kv = a_to_json(rng, if opt == Some(false) { &a_lit } else { &a_re });
            force_json_id_option(rng, &mut kv, key, opt);
            record(sink, ctx, FeIn::Json(kv), a, msgs.clone(), None, g, &["meta_id", tag_pos.as_str(), tag_opt, rtag]);
        }
        // DLF: no option for the ECU id (always the literal id); apid / ctid as JSON
        if xml_safe(s) {
            let regex = if pos == 0 { false } else { opt.unwrap_or(true) };
            let (a, g, rtag) = reading(regex);
            // render from the literal filter (a_to_dlf refuses a regex ECU) and force the option
            if let Some(mut d) = a_to_dlf(rng, &a_lit) {
                force_dlf_id_option(rng, &mut d, key, opt);
                record(sink, ctx, FeIn::Dlf(vec![d], rng.chance(1, 2)), a, msgs.clone(), None, g, &["meta_id", tag_pos.as_str(), if pos == 0 { "id_option_none_exists" } else { tag_opt }, rtag]);
            }
        }
        // a third front-end in rotation: direct assignment (the flag decides), dlt-convert list (always literal),
        // ECU:APID:CTID expression (auto-detection)
        match k % 3 {
            0 => {
                let regex = opt.unwrap_or(k % 2 == 0);
                if let (Some(a), g, rtag) = reading(regex) {
                    if direct_filter(&a).is_some() {
                        record(sink, ctx, FeIn::Direct(a.clone()), Some(a), msgs.clone(), None, g, &["meta_id", tag_pos.as_str(), rtag]);
                    }
                }
            }
            1 => {
                let mut a = a_lit.clone();
                a.ecu = None;
                if a.apid.is_none() {
                    a.apid = Some(AId { s: "APID".into(), regex: false });
                }
                if a.ctid.is_none() {
                    a.ctid = Some(AId { s: "CTID".into(), regex: false });
                }
                if pos != 0 {
                    if let Some(b) = a_to_conv(rng, &a) {
                        // its own universe (the filter differs from a_lit by the added id)
                        let (m2, _) = universe(rng, &mut ctx.eng, &a, 1);
                        record(sink, ctx, FeIn::Conv(b), Some(a), m2, None, None, &["meta_id", tag_pos.as_str(), "reading_literal"]);
                    }
                }
            }
            _ => {
                if have_cli && *eac_budget > 0 && compiles {
                    if let Some(e) = a_to_eac(&a_re) {
                        *eac_budget -= 1;
                        let cli_msgs: Vec<Msg> = msgs.iter().filter(|m| m.raw.is_none()).cloned().collect();
                        record(sink, ctx, FeIn::Eac(e), Some(a_re.clone()), cli_msgs, None, None, &["meta_id", tag_pos.as_str(), "reading_regex"]);
                    }
                }
            }
        }
    }
}

fn gen_aid(rng: &mut Rng) -> AId {
    match rng.below(10) {
        0..=4 => AId { s: rng.pick(&LIT_IDS).to_string(), regex: false },
        5..=7 => AId { s: rng.pick(&RE_IDS).to_string(), regex: true },
        _ => AId { s: rng.pick(&RE_PLAIN_IDS).to_string(), regex: true },
    }
}
/// an arbitrary list of lifecycle ids: any order, repetitions, 0, large ids, up to 12 entries
fn gen_lcs(rng: &mut Rng) -> Vec<u32> {
    let n = match rng.below(8) {
        0 => 0,
        1 => 1,
        2 => 2,
        3 => 3,
        _ => rng.range(2, 12),
    } as usize;
    let pool: Vec<u32> = match rng.below(4) {
        0 => (0..8).collect(),
        1 => vec![0, 1, 2, 3, 5, 8, 13, 47, 11, 1000, 65535, 65536, u32::MAX - 1, u32::MAX],
        2 => (0..40).map(|x| x * 3 + 1).collect(),
        _ => vec![1, 2, 3, 4],
    };
    let mut l: Vec<u32> = (0..n).map(|_| *rng.pick(&pool)).collect();
    match rng.below(6) {
        0 => l.sort(),
        1 => {
            l.sort();
            l.reverse()
        }
        2 => {
            // ascending but for one element moved to the front / the end
            l.sort();
            if l.len() > 1 {
                if rng.chance(1, 2) {
                    l.rotate_left(1)
                } else {
                    l.rotate_right(1)
                }
            }
        }
        _ => {} // as drawn: unordered, with repetitions
    }
    l
}
/// values around a list: every element, just below the minimum, just above the maximum, between neighbours, 0
fn list_probes(l: &[u32]) -> Vec<u32> {
    let mut v: Vec<u32> = l.to_vec();
    let mut sorted = l.to_vec();
    sorted.sort();
    sorted.dedup();
    if let (Some(mn), Some(mx)) = (sorted.first(), sorted.last()) {
        v.push(mn.wrapping_sub(1));
        v.push(mx.wrapping_add(1));
    }
    for w in sorted.windows(2) {
        if w[1] - w[0] > 1 {
            v.push(w[0] + (w[1] - w[0]) / 2);
        }
    }
    v.push(0);
    v.push(1);
    let mut seen = BTreeSet::new();
    v.into_iter().filter(|x| seen.insert(*x)).collect()
}
fn atype_vm(t: &AType) -> (u8, u8) {
    match t {
        AType::Mstp(x) => ((x & 7) << 1, 0x0e),
        AType::Vmm(v) => (*v, if v >> 4 == 0 { 0x0f } else { 0xff }),
    }
}
/// what can be said by assigning the public fields: no negation, no case-insensitive literal (its cache is private)
fn direct_filter(a: &AFilter) -> Option<Filter> {
    if a.negate {
        return None;
    }
    let mut f = Filter::new(match a.kind {
        0 => FilterKind::Positive,
        1 => FilterKind::Negative,
        2 => FilterKind::Marker,
        _ => FilterKind::Event,
    });
    f.enabled = a.enabled;
    let id = |c: &Option<AId>| -> Option<Option<Char4OrRegex>> {
        match c {
            None => Some(None),
            Some(c) => Char4OrRegex::from_str(&c.s, c.regex).ok().map(Some),
        }
    };
    f.ecu = id(&a.ecu)?;
    f.apid = id(&a.apid)?;
    f.ctid = id(&a.ctid)?;
    f.verb_mstp_mtin = a.ty.as_ref().map(atype_vm);
    if let Some(p) = &a.payload {
        if p.regex {
            let pat = if p.ic { format!("(?i){}", p.s) } else { p.s.clone() };
            f.payload_regex = Some(fancy_regex::Regex::new(&pat).ok()?);
            f.ignore_case_payload = p.ic;
        } else {
            if p.ic {
                return None;
            }
            f.payload = Some(p.s.clone());
        }
    }
    f.loglevel_min = a.lmin;
    f.loglevel_max = a.lmax;
    f.lifecycles = a.lcs.clone();
    Some(f)
}
fn coq_afilter(a: &AFilter) -> String {
    let id = |c: &Option<AId>| copt(c.as_ref().map(|c| format!("{{| ai_s := {}; ai_regex := {} |}}", cbytes(c.s.as_bytes()), cbool(c.regex))));
    format!(
        "{{| a_kind := {}; a_enabled := {}; a_negate := {}; a_ecu := {}; a_apid := {}; a_ctid := {}; a_type := {}; a_lmin := {}; a_lmax := {}; a_payload := {}; a_lcs := {} |}}",
        a.kind,
        cbool(a.enabled),
        cbool(a.negate),
        id(&a.ecu),
        id(&a.apid),
        id(&a.ctid),
        copt(a.ty.as_ref().map(|t| match t {
            AType::Mstp(x) => format!("(AMstp {})", x),
            AType::Vmm(v) => format!("(AVmm {})", v),
        })),
        copt(a.lmin.map(|l| l.to_string())),
        copt(a.lmax.map(|l| l.to_string())),
        copt(a.payload.as_ref().map(|p| format!("{{| ap_s := {}; ap_regex := {}; ap_ic := {} |}}", cbytes(p.s.as_bytes()), cbool(p.regex), cbool(p.ic)))),
        copt(a.lcs.as_ref().map(|l| cnums(l)))
    )
}

fn gen_afilter(rng: &mut Rng, p_num: u64, p_den: u64) -> AFilter {
    let mut on = |rng: &mut Rng| rng.chance(p_num, p_den);
    AFilter {
        kind: *rng.pick(&[0u8, 0, 0, 1, 2, 3]),
        enabled: !rng.chance(1, 10),
        negate: rng.chance(1, 4),
        ecu: if on(rng) { Some(gen_aid(rng)) } else { None },
        apid: if on(rng) { Some(gen_aid(rng)) } else { None },
        ctid: if on(rng) { Some(gen_aid(rng)) } else { None },
        ty: if on(rng) {
            Some(match rng.below(4) {
                0 => AType::Mstp(3),
                1 => AType::Mstp(rng.below(8) as u8),
                2 => AType::Vmm((rng.below(16)) as u8),
                _ => AType::Vmm(rng.below(256) as u8),
            })
        } else {
            None
        },
        lmin: if on(rng) { Some(rng.below(7) as u8) } else { None },
        lmax: if on(rng) { Some(rng.below(7) as u8) } else { None },
        payload: if on(rng) {
            let regex = rng.chance(2, 5);
            Some(APayload { s: if regex { rng.pick(&RE_PAYLOADS) } else { rng.pick(&LIT_PAYLOADS) }.to_string(), regex, ic: rng.chance(1, 2) })
        } else {
            None
        },
        lcs: if on(rng) {
            Some(gen_lcs(rng))
        } else {
            None
        },
    }
}

fn rand_msg(rng: &mut Rng) -> Msg {
    Msg {
        ecu: **rng.pick(&MSG_IDS),
        ext: if rng.chance(1, 5) { None } else { Some((rng.below(256) as u8, **rng.pick(&MSG_IDS), **rng.pick(&MSG_IDS))) },
        text: Some(rng.pick(&TEXTS).to_string()),
        raw: None,
        lc: rng.below(4) as u32,
    }
}

/// a message that satisfies as many criteria of `a` as the pools allow
fn satisfying_msg(rng: &mut Rng, eng: &mut Engines, a: &AFilter) -> Msg {
    let mut pick_id = |c: &Option<AId>, rng: &mut Rng, eng: &mut Engines| -> [u8; 4] {
        match c {
            None => **rng.pick(&MSG_IDS),
            Some(c) if !c.regex => pad4(c.s.as_bytes()),
            Some(c) => {
                let start = rng.below(MSG_IDS.len() as u64) as usize;
                for k in 0..MSG_IDS.len() {
                    let cand = MSG_IDS[(start + k) % MSG_IDS.len()];
                    if eng.bytes_match(&c.s, cand) {
                        return *cand;
                    }
                }
                **rng.pick(&MSG_IDS)
            }
        }
    };
    let ecu = pick_id(&a.ecu, rng, eng);
    let apid = pick_id(&a.apid, rng, eng);
    let ctid = pick_id(&a.ctid, rng, eng);
    let start = rng.below(256) as u8;
    let mut vmm = start;
    for k in 0..=255u8 {
        let v = start.wrapping_add(k);
        let probe = Msg { ecu, ext: Some((v, apid, ctid)), text: None, raw: None, lc: 0 };
        let only_type = AFilter { kind: 0, enabled: true, negate: false, ecu: None, apid: None, ctid: None, ty: a.ty.clone(), lmin: a.lmin, lmax: a.lmax, payload: None, lcs: None };
        if aspec(eng, &only_type, &probe, &None) {
            vmm = v;
            break;
        }
    }
    let mut text = rng.pick(&TEXTS).to_string();
    if let Some(p) = &a.payload {
        let only_p = AFilter { kind: 0, enabled: true, negate: false, ecu: None, apid: None, ctid: None, ty: None, lmin: None, lmax: None, payload: Some(p.clone()), lcs: None };
        let s0 = rng.below(TEXTS.len() as u64) as usize;
        let own = near_variants(&criterion_seed(&p.s, p.regex));
        let mut cands: Vec<String> = vec![format!("pre {} post", own[0]), own[0].clone()];
        cands.extend((0..TEXTS.len()).map(|k| TEXTS[(s0 + k) % TEXTS.len()].to_string()));
        if rng.chance(1, 2) {
            cands.rotate_left(2); // pool texts first
        }
        for cand in cands {
            let probe = Msg { ecu, ext: None, text: Some(cand.clone()), raw: None, lc: 0 };
            if aspec(eng, &only_p, &probe, &Some(cand.clone())) {
                text = cand;
                break;
            }
        }
    }
    let lc = match &a.lcs {
        Some(l) if !l.is_empty() => *rng.pick(l),
        _ => rng.below(4) as u32,
    };
    Msg { ecu, ext: Some((vmm, apid, ctid)), text: Some(text), raw: None, lc }
}

/// a pattern without its inline flag groups: "(?flags)" anywhere, and the opener of "(?flags:...)" together with its
/// closing parenthesis (escaped characters are kept as they are)
fn strip_inline_flags(s: &str) -> String {
    let b: Vec<char> = s.chars().collect();
    let mut out = String::new();
    let mut i = 0;
    let mut drop_close = 0;
    while i < b.len() {
        if b[i] == '\\' && i + 1 < b.len() {
            out.push(b[i]);
            out.push(b[i + 1]);
            i += 2;
            continue;
        }
        if b[i] == '(' && i + 1 < b.len() && b[i + 1] == '?' {
            let mut j = i + 2;
            while j < b.len() && (b[j].is_ascii_alphabetic() || b[j] == '-') {
                j += 1;
            }
            if j > i + 2 && j < b.len() && b[j] == ')' {
                i = j + 1;
                continue;
            }
            if j > i + 2 && j < b.len() && b[j] == ':' {
                i = j + 1;
                drop_close += 1;
                continue;
            }
        }
        if b[i] == ')' && drop_close > 0 {
            drop_close -= 1;
            i += 1;
            continue;
        }
        out.push(b[i]);
        i += 1;
    }
    out
}
fn has_inline_flags(s: &str) -> bool {
    strip_inline_flags(s) != s
}
/// the text a criterion is about: the literal itself; for a pattern its literal skeleton (inline flag groups,
/// anchors and escapes removed)
fn criterion_seed(s: &str, regex: bool) -> String {
    if !regex {
        return s.to_string();
    }
    let t = strip_inline_flags(s);
    // plain groups left over (no alternation, no look-around): their parentheses are not part of the text
    let t = if !t.contains("(?") && !t.contains('|') { t.replace(['(', ')'], "") } else { t };
    let t = t.as_str();
    let t = t.strip_prefix('^').unwrap_or(t);
    let t = t.strip_suffix('$').unwrap_or(t);
    t.replace("\\t", "\t").replace("\\s", " ").replace('\\', "")
}
/// the same text in other letter cases: all flipped, upper, lower, only the first / only the last letter flipped
fn case_variants(seed: &str) -> Vec<String> {
    let mut v = vec![flip_case(seed), seed.to_ascii_uppercase(), seed.to_ascii_lowercase()];
    let chars: Vec<char> = seed.chars().collect();
    if let Some(i) = chars.iter().position(|c| c.is_ascii_alphabetic()) {
        let mut c2 = chars.clone();
        c2[i] = flip_case(&c2[i].to_string()).chars().next().unwrap();
        v.push(c2.iter().collect());
    }
    if let Some(i) = chars.iter().rposition(|c| c.is_ascii_alphabetic()) {
        let mut c2 = chars.clone();
        c2[i] = flip_case(&c2[i].to_string()).chars().next().unwrap();
        v.push(c2.iter().collect());
    }
    let mut seen = BTreeSet::new();
    seen.insert(seed.to_string());
    v.into_iter().filter(|x| seen.insert(x.clone())).collect()
}
fn flip_case(s: &str) -> String {
    s.chars().map(|c| if c.is_ascii_lowercase() { c.to_ascii_uppercase() } else { c.to_ascii_lowercase() }).collect()
}
/// near variants of a criterion text: a loader that alters the criterion (trims it, drops or adds an edge character,
/// changes white space or letter case) decides differently on at least one of them
fn near_variants(seed: &str) -> Vec<String> {
    let chars: Vec<char> = seed.chars().collect();
    let mut v: Vec<String> = vec![seed.to_string(), seed.trim().to_string(), seed.trim_start().to_string(), seed.trim_end().to_string()];
    if !chars.is_empty() {
        v.push(chars[1..].iter().collect());
        v.push(chars[..chars.len() - 1].iter().collect());
    }
    for edge in ["x", " ", "\t"] {
        v.push(format!("{}{}", edge, seed));
        v.push(format!("{}{}", seed, edge));
    }
    // the trimmed text between non-blank characters: contains the trimmed criterion but not its edge blanks
    v.push(format!("x{}x", seed.trim()));
    v.push(format!("x{}x", seed));
    // white space changed
    v.push(seed.replacen(' ', "\t", 1));
    v.push(seed.replace(' ', "  "));
    v.push(seed.split_whitespace().collect::<Vec<_>>().join(" "));
    v.push(seed.chars().filter(|c| !c.is_whitespace()).collect());
    v.push(flip_case(seed));
    let mut seen = BTreeSet::new();
    v.into_iter().filter(|x| seen.insert(x.clone())).collect()
}

fn universe(rng: &mut Rng, eng: &mut Engines, a: &AFilter, n_random: u64) -> (Vec<Msg>, Msg) {
    let base = satisfying_msg(rng, eng, a);
    let mut ms = vec![base.clone()];
    // probes derived from the textual criteria themselves
    if let Some(p) = &a.payload {
        let seed = criterion_seed(&p.s, p.regex);
        // the criterion's text in other letter cases is always probed (case-insensitivity may come from the option or
        // from the pattern itself; a loader or serialiser that adds or loses it decides differently on these)
        let mut cases = case_variants(&seed);
        if let Some(c) = cases.first().cloned() {
            cases.push(format!("pre {} post", c));
        }
        while cases.len() > 4 {
            let k = 1 + rng.below(cases.len() as u64 - 1) as usize;
            cases.remove(k);
        }
        let mut vs: Vec<String> = near_variants(&seed).into_iter().filter(|t| !cases.contains(t)).collect();
        // keep the universe small: the structural variants first, a random subset of the rest
        while vs.len() > 10 {
            let k = 4 + rng.below(vs.len() as u64 - 4) as usize;
            vs.remove(k);
        }
        vs.extend(cases);
        for t in vs {
            let mut m = base.clone();
            m.text = Some(t);
            ms.push(m);
        }
    }
    // list-valued criterion: a message for every listed id (first .. last), the values around the list, 0
    if let Some(l) = &a.lcs {
        let mut ps = list_probes(l);
        while ps.len() > 18 {
            let k = rng.below(ps.len() as u64) as usize;
            ps.remove(k);
        }
        for lc in ps {
            let mut m = base.clone();
            m.lc = lc;
            ms.push(m);
        }
    }
    // numeric criteria: the type byte of the satisfying message with the level at / just below / just above each
    // bound, another message type, the verbose flag flipped, the filter's own value and its one-bit neighbours
    if let Some((bv, _, _)) = base.ext {
        let mut vs: BTreeSet<u8> = BTreeSet::new();
        for l in [a.lmin, a.lmax].into_iter().flatten() {
            for mtin in [l.wrapping_sub(1) & 0x0f, l, (l + 1) & 0x0f] {
                vs.insert((bv & 0x0f) | (mtin << 4));
                vs.insert((bv & 0x01) | (mtin << 4)); // a log message
                vs.insert((bv & 0x01) | (1 << 1) | (mtin << 4)); // the same level on a trace message
            }
        }
        if let Some(t) = &a.ty {
            let (v, mask) = atype_vm(t);
            vs.insert(v);
            for bit in 0..8 {
                vs.insert(v ^ (1 << bit));
            }
            vs.insert(v | !mask);
            vs.insert(bv ^ 0x01);
        }
        let mut vs: Vec<u8> = vs.into_iter().collect();
        while vs.len() > 12 {
            let k = rng.below(vs.len() as u64) as usize;
            vs.remove(k);
        }
        for v in vs {
            let mut m = base.clone();
            if let Some(e) = &mut m.ext {
                e.0 = v;
            }
            ms.push(m);
        }
    }
    for (which, c) in [&a.ecu, &a.apid, &a.ctid].into_iter().enumerate() {
        if let Some(c) = c {
            let seed = criterion_seed(&c.s, c.regex);
            // the id in other letter cases is always probed
            let mut cases: Vec<[u8; 4]> = vec![];
            for t in case_variants(&seed) {
                if t.is_ascii() && !cases.contains(&pad4(t.as_bytes())) && pad4(t.as_bytes()) != pad4(seed.as_bytes()) {
                    cases.push(pad4(t.as_bytes()));
                }
            }
            while cases.len() > 2 {
                let k = 1 + rng.below(cases.len() as u64 - 1) as usize;
                cases.remove(k);
            }
            let mut ids: BTreeSet<[u8; 4]> = BTreeSet::new();
            for t in near_variants(&seed) {
                if t.is_ascii() && !cases.contains(&pad4(t.as_bytes())) {
                    ids.insert(pad4(t.as_bytes()));
                }
            }
            let mut ids: Vec<[u8; 4]> = ids.into_iter().collect();
            while ids.len() > 5 {
                let k = rng.below(ids.len() as u64) as usize;
                ids.remove(k);
            }
            ids.extend(cases);
            // a text with characters of `contains_regex_chars` has two readings (literal id / regular expression):
            // ids only the regex reading accepts, the literal id itself, an id neither accepts - a front-end that
            // takes the wrong reading (or loses a criterion that is no valid expression) decides differently
            if contains_regex_chars(&c.s) {
                let (re_only, neither) = reading_probes(eng, &c.s);
                let mut extra: Vec<[u8; 4]> = vec![];
                if let Some(f) = re_only.first() {
                    extra.push(*f);
                }
                if re_only.len() > 1 {
                    extra.push(re_only[1 + rng.below(re_only.len() as u64 - 1) as usize]);
                }
                if !neither.is_empty() {
                    extra.push(neither[rng.below(neither.len().min(8) as u64) as usize]);
                }
                if c.regex && c.s.is_ascii() {
                    extra.push(pad4(c.s.as_bytes()));
                }
                for e in extra {
                    if !ids.contains(&e) {
                        ids.push(e);
                    }
                }
            }
            for id in ids {
                let mut m = base.clone();
                match which {
                    0 => m.ecu = id,
                    1 => {
                        if let Some(e) = &mut m.ext {
                            e.1 = id
                        }
                    }
                    _ => {
                        if let Some(e) = &mut m.ext {
                            e.2 = id
                        }
                    }
                }
                ms.push(m);
            }
        }
    }
    // one field changed at a time
    let mut m = base.clone();
    m.ecu = **rng.pick(&MSG_IDS);
    ms.push(m);
    for which in 0..3 {
        let mut m = base.clone();
        if let Some(e) = &mut m.ext {
            match which {
                0 => e.1 = **rng.pick(&MSG_IDS),
                1 => e.2 = **rng.pick(&MSG_IDS),
                _ => e.0 = rng.below(256) as u8,
            }
        }
        ms.push(m);
    }
    let mut m = base.clone();
    m.text = Some(rng.pick(&TEXTS).to_string());
    ms.push(m);
    // the same text in another case
    let mut m = base.clone();
    m.text = base.text.as_ref().map(|t| if rng.chance(1, 2) { t.to_uppercase() } else { t.to_lowercase() });
    ms.push(m);
    let mut m = base.clone();
    m.lc = rng.below(5) as u32;
    ms.push(m);
    // without extended header
    let mut m = base.clone();
    m.ext = None;
    ms.push(m);
    // payload decoded by the real code: one verbose string argument
    if rng.chance(1, 3) {
        let mut m = base.clone();
        let s = base.text.clone().unwrap_or_default();
        let mut p = vec![0x00, 0x02, 0x00, 0x00];
        p.extend_from_slice(&((s.len() + 1) as u16).to_le_bytes());
        p.extend_from_slice(s.as_bytes());
        p.push(0);
        if let Some(e) = &mut m.ext {
            e.0 |= 1;
        }
        m.text = None;
        m.raw = Some(p);
        ms.push(m);
    }
    for _ in 0..n_random {
        ms.push(rand_msg(rng));
    }
    (ms, base)
}

fn rand_json_value(rng: &mut Rng, key: &str) -> Value {
    let right = rng.chance(7, 10);
    let strs: Vec<&str> = LIT_IDS.iter().chain(RE_IDS.iter()).chain(["(", "[a", "a\u{142}", "\u{142}|x", "A\u{1}"].iter()).cloned().collect();
    let pstrs: Vec<&str> = LIT_PAYLOADS.iter().chain(RE_PAYLOADS.iter()).chain(["a(", "[", "(?<n"].iter()).cloned().collect();
    if right {
        match key {
            "type" => json!(*rng.pick(&[0u64, 0, 1, 2, 3, 3, 4, 255])),
            "enabled" | "not" | "atLoadTime" | "ecuIsRegex" | "apidIsRegex" | "ctidIsRegex" | "ignoreCasePayload" => json!(rng.chance(1, 2)),
            "ecu" | "apid" | "ctid" => json!(*rng.pick(&strs)),
            "payload" | "payloadRegex" => json!(*rng.pick(&pstrs)),
            "logLevelMin" | "logLevelMax" => json!(*rng.pick(&[0u64, 1, 2, 3, 4, 5, 6, 6, 7, 255])),
            "lifecycles" => match rng.below(5) {
                0 => json!([]),
                1 => json!([1]),
                2 => json!([1, 2, 4294967297u64]),
                3 => json!([0, -1, "x", 2.5, null, 2]),
                _ => json!([3]),
            },
            "verb_mstp_mtin" => json!(*rng.pick(&[0u64, 1, 6, 7, 0x0e, 0x10, 0x41, 0x26, 0xff, 0x100, 0x141, 18446744073709551615])),
            "mstp" => json!(*rng.pick(&[0u64, 1, 2, 3, 4, 7, 8, 11, 1u64 << 40])),
            _ => json!("x"),
        }
    } else {
        match rng.below(8) {
            0 => Value::Null,
            1 => json!(rng.chance(1, 2)),
            2 => json!(rng.below(8)),
            3 => json!(-1),
            4 => json!(1.5),
            5 => json!(*rng.pick(&strs)),
            6 => json!([1, 2]),
            _ => json!({"a": 1}),
        }
    }
}
fn gen_raw_json(rng: &mut Rng) -> FeIn {
    if rng.chance(1, 25) {
        return FeIn::JsonRaw(rng.pick(&["[]", "3", "\"type\"", "null", "{\"type\":0", "", "[{\"type\":0}]", "{\"type\":0}x"]).to_string());
    }
    let mut kv = vec![];
    if !rng.chance(1, 15) {
        kv.push(("type".to_string(), rand_json_value(rng, "type")));
    }
    for k in JKEYS.iter().skip(1) {
        if rng.chance(1, 4) {
            kv.push((k.to_string(), rand_json_value(rng, k)));
        }
    }
    if rng.chance(1, 6) {
        // duplicate member: the later one counts
        let k = *rng.pick(&JKEYS);
        kv.push((k.to_string(), rand_json_value(rng, k)));
    }
    if rng.chance(1, 6) {
        kv.push(("comment".into(), json!("x")));
    }
    for i in (1..kv.len()).rev() {
        let j = rng.below(i as u64 + 1) as usize;
        kv.swap(i, j);
    }
    FeIn::Json(kv)
}
const DKEYS: [&str; 19] = [
    "type", "enablefilter", "enableecuid", "ecuid", "enableapplicationid", "applicationid", "enableregexp_Appid", "enablecontextid", "contextid",
    "enableregexp_Context", "enablecontrolmsgs", "enablepayloadtext", "ignoreCase_Payload", "payloadtext", "enableregexp_Payload", "enableLogLevelMax",
    "logLevelMax", "enableLogLevelMin", "logLevelMin",
];
fn gen_raw_dlf(rng: &mut Rng) -> FeIn {
    let nf = rng.range(1, 3);
    let mut fs = vec![];
    for _ in 0..nf {
        let mut kv: Vec<(String, String)> = vec![];
        for k in DKEYS.iter() {
            if !rng.chance(3, 5) {
                continue;
            }
            let v: String = match *k {
                "ecuid" | "applicationid" | "contextid" => rng.pick(&["ECU1", "APID", "AP", "CT", "AP|CT", "^EC", "(", "[a", "a\u{142}", "ABCDE", "C"]).to_string(),
                "payloadtext" => rng.pick(&["foo", "Foo", "^foo", "fo+", "a(", "(?<n>\\d+)", "&<>\"'", "o"]).to_string(),
                "type" => rng.pick(&["0", "1", "2", "3", "4", "x", "+1", "256", "03"]).to_string(),
                "logLevelMax" | "logLevelMin" => rng.pick(&["0", "1", "3", "5", "6", "7", "x", "+2", "300", "-1", "006"]).to_string(),
                _ => rng.pick(&["1", "1", "1", "0", "true", "01", " 1"]).to_string(),
            };
            kv.push((k.to_string(), v));
        }
        if rng.chance(1, 6) && !kv.is_empty() {
            let (k, _) = kv[rng.below(kv.len() as u64) as usize].clone();
            kv.push((k, "1".into()));
        }
        if rng.chance(1, 4) {
            kv.push(("headertext".into(), "h".into()));
        }
        for i in (1..kv.len()).rev() {
            let j = rng.below(i as u64 + 1) as usize;
            kv.swap(i, j);
        }
        fs.push(kv);
    }
    FeIn::Dlf(fs, rng.chance(1, 2))
}
/// DLF texts whose structure is not the plain one: the loops of filters_from_dlf / from_quick_xml_reader decide
fn gen_odd_dlf(rng: &mut Rng) -> FeIn {
    odd_dlf(rng.below(16))
}
fn odd_dlf(k: u64) -> FeIn {
    let el = |k: &str, v: &str| format!("<{}>{}</{}>", k, xml_escape(v), k);
    let f1 = format!("{}{}{}", el("enablefilter", "1"), el("enableapplicationid", "1"), el("applicationid", "APID"));
    let f2 = format!("{}{}{}{}", el("enablefilter", "1"), el("enablecontextid", "1"), el("contextid", "CT"), el("enableregexp_Context", "0"));
    let t = match k {
        // an empty element produces no text event: the next text (here white space) is taken as its value
        0 => format!("<dltfilter><filter>{}<enableecuid>1</enableecuid><ecuid></ecuid>\n  {}</filter></dltfilter>", f1, el("enablecontrolmsgs", "1")),
        1 => format!("<dltfilter><filter>{}<enableecuid>1</enableecuid><ecuid></ecuid>{}</filter></dltfilter>", f1, el("enablecontrolmsgs", "1")),
        // filters before / after / outside the dltfilter element are ignored
        2 => format!("<filter>{}</filter><dltfilter><filter>{}</filter></dltfilter><filter>{}</filter>", f2, f1, f2),
        3 => format!("<dltfilter></dltfilter><filter>{}</filter>", f1),
        // a second dltfilter element
        4 => format!("<dltfilter><filter>{}</filter></dltfilter><dltfilter><filter>{}</filter></dltfilter>", f1, f2),
        5 => format!("<dltfilter><filter>{}</filter></dltfilter><dltfilter><filter>{}</filter>", f1, f2),
        // a nested filter start is ignored, its end ends the outer one
        6 => format!("<dltfilter><filter>{}<filter>{}</filter>{}</filter></dltfilter>", f1, f2, el("enablecontrolmsgs", "1")),
        // missing end tags
        7 => format!("<dltfilter><filter>{}", f1),
        8 => format!("<dltfilter><filter>{}</filter>", f1),
        // comments, empty-element tags, CDATA, processing instructions
        9 => format!("<?xml version=\"1.0\"?><!-- c --><dltfilter><filter><!-- c -->{}<enablecontrolmsgs/><payloadtext><![CDATA[foo]]></payloadtext></filter></dltfilter>", f1),
        // a broken entity in a text
        10 => format!("<dltfilter><filter>{}<enablepayloadtext>1</enablepayloadtext><payloadtext>a &bogus; b</payloadtext></filter></dltfilter>", f1),
        11 => format!("<dltfilter>&bogus;<filter>{}</filter></dltfilter>", f1),
        // text before any element, mismatched end tag
        12 => format!("<dltfilter><filter>stray{}</filter></dltfilter>", f1),
        13 => format!("<dltfilter><filter>{}</wrong></filter></dltfilter>", f1),
        // namespace prefix: local names count
        14 => format!("<x:dltfilter xmlns:x=\"u\"><x:filter><x:enablefilter>1</x:enablefilter><x:enablecontrolmsgs>1</x:enablecontrolmsgs></x:filter></x:dltfilter>"),
        // child elements inside an element
        _ => format!("<dltfilter><filter>{}<enablepayloadtext>1</enablepayloadtext><payloadtext><b>fo</b>o</payloadtext></filter></dltfilter>", f1),
    };
    FeIn::DlfText(t)
}
fn gen_raw_conv(rng: &mut Rng) -> FeIn {
    let n = rng.size(45) as usize;
    let mut b = vec![];
    for _ in 0..n {
        b.push(match rng.below(8) {
            0 => b'-',
            1 => b' ',
            2 => 0,
            3 => rng.below(256) as u8,
            _ => *rng.pick(b"ACDEIPTU12"),
        });
    }
    FeIn::Conv(b)
}
fn gen_raw_eac(rng: &mut Rng) -> FeIn {
    let parts = ["ECU1", "ECU2", "EC", "APID", "AP", "CTID", "CT", "TC", "", "ECU1|ECU2", "^EC", "AP|CT", "(", "[a", "a\u{142}", "\u{142}|x", "ABCDE", "X+", "XY"];
    let n = rng.range(1, 4);
    let mut v = vec![];
    for _ in 0..n {
        v.push(rng.pick(&parts).to_string());
    }
    FeIn::Eac(v.join(":"))
}

/// filters that only constrain ids: expressible in every front-end
fn gen_ids_only(rng: &mut Rng, for_conv: bool) -> AFilter {
    let mut a = gen_afilter(rng, 0, 1);
    a.kind = 0;
    a.enabled = true;
    a.negate = false;
    let lit = |rng: &mut Rng| AId { s: rng.pick(&["APID", "AP", "CTID", "CT", "TC", "A B", "XY", "E", "ecu1", "ECU1", "", "AB ", " AB", " ", "A  ", "A&B"]).to_string(), regex: false };
    if for_conv {
        a.apid = Some(lit(rng));
        a.ctid = Some(lit(rng));
    } else {
        let mut any = |rng: &mut Rng| -> Option<AId> {
            if rng.chance(1, 3) {
                None
            } else if rng.chance(2, 3) {
                let mut l = lit(rng);
                if l.s.is_empty() {
                    l.s = "ECU2".into();
                }
                Some(l)
            } else {
                Some(AId { s: rng.pick(&RE_IDS).to_string(), regex: true })
            }
        };
        a.ecu = any(rng);
        a.apid = any(rng);
        a.ctid = any(rng);
    }
    a
}

fn exhaustive_filter(bits: u32, negate: bool, enabled: bool, variant: u32) -> AFilter {
    let b = |i: u32| bits & (1 << i) != 0;
    let lit = variant % 2 == 0;
    AFilter {
        kind: 0,
        enabled,
        negate,
        ecu: if b(0) { Some(if lit { AId { s: "ECU1".into(), regex: false } } else { AId { s: "^ECU\\d$".into(), regex: true } }) } else { None },
        apid: if b(1) { Some(if lit { AId { s: if variant == 2 { "AP ".into() } else { "AP".into() }, regex: false } } else { AId { s: "AP|CT".into(), regex: true } }) } else { None },
        ctid: if b(2) { Some(if lit { AId { s: "CTIDX".into(), regex: false } } else { AId { s: "CT$".into(), regex: true } }) } else { None },
        ty: if b(3) { Some(if lit { AType::Mstp(0) } else { AType::Vmm(0x41) }) } else { None },
        lmin: if b(4) { Some(2) } else { None },
        lmax: if b(5) { Some(4) } else { None },
        payload: if b(6) { Some(APayload { s: (match variant % 4 { 0 => "foo", 2 => "foo ", 1 => "fo+ b", _ => "^fo+ " }).into(), regex: !lit, ic: variant % 4 >= 2 }) } else { None },
        lcs: if b(7) {
            Some(match variant % 4 {
                0 => vec![1, 2],
                1 => vec![9, 4, 6, 4, 2],
                2 => vec![3, 2, 1],
                _ => vec![],
            })
        } else {
            None
        },
    }
}

fn replay(sink: &mut Sink, ctx: &mut Ctx, c: &Value) {
    let fe: FeIn = serde_json::from_value(c["fe"].clone()).expect("fe");
    let a: Option<AFilter> = serde_json::from_value(c["afilter"].clone()).expect("afilter");
    let msgs: Vec<Msg> = serde_json::from_value(c["msgs"].clone()).expect("msgs");
    let sweep: Option<Msg> = serde_json::from_value(c["sweep"].clone()).expect("sweep");
    let alist: Vec<AFilter> = if c["afilters"].is_array() { serde_json::from_value(c["afilters"].clone()).expect("afilters") } else { vec![] };
    record_multi(sink, ctx, fe, a, alist, msgs, sweep, None, &["replay"]);
}

fn corpus(sink: &mut Sink, ctx: &mut Ctx) {
    let m = |ecu: &[u8; 4], ext: Option<(u8, &[u8; 4], &[u8; 4])>, text: &str, lc: u32| Msg { ecu: *ecu, ext: ext.map(|(v, a, c)| (v, *a, *c)), text: Some(text.into()), raw: None, lc };
    let base = m(b"ECU1", Some((0x41, b"APID", b"CTID")), "foo", 1);
    // C11-1 (DESIGN Appendix A): {"type":0,"mstp":3} serialised and loaded again must still select control messages only
    let a = AFilter { kind: 0, enabled: true, negate: false, ecu: None, apid: None, ctid: None, ty: Some(AType::Mstp(3)), lmin: None, lmax: None, payload: None, lcs: None };
    let msgs = vec![base.clone(), m(b"ECU1", Some((0x26, b"APID", b"CTID")), "foo", 1), m(b"ECU1", None, "foo", 1)];
    record(sink, ctx, FeIn::Json(vec![("type".into(), json!(0)), ("mstp".into(), json!(3))]), Some(a.clone()), msgs.clone(), Some(base.clone()), None, &["corpus", "C11-1"]);
    for v in [0x41u8, 0x01, 0x26, 0x06] {
        let mut a2 = a.clone();
        a2.ty = Some(AType::Vmm(v));
        record(sink, ctx, FeIn::Json(vec![("type".into(), json!(0)), ("verb_mstp_mtin".into(), json!(v))]), Some(a2), msgs.clone(), Some(base.clone()), None, &["corpus", "C11-1"]);
    }
    // the same criterion from a DLF file
    record(
        sink,
        ctx,
        FeIn::Dlf(vec![vec![("enablefilter".into(), "1".into()), ("enablecontrolmsgs".into(), "1".into())]], false),
        Some(a.clone()),
        msgs.clone(),
        Some(base.clone()),
        None,
        &["corpus", "C11-1"],
    );
    // C11-2: DLF literal payload without ignoreCase_Payload is case-sensitive
    for ic in [false, true] {
        let a = AFilter {
            kind: 0,
            enabled: true,
            negate: false,
            ecu: None,
            apid: None,
            ctid: None,
            ty: None,
            lmin: None,
            lmax: None,
            payload: Some(APayload { s: "foo".into(), regex: false, ic }),
            lcs: None,
        };
        let msgs = vec![base.clone(), m(b"ECU1", Some((0x41, b"APID", b"CTID")), "a FOO b", 1), m(b"ECU1", None, "Foo", 0), m(b"ECU1", None, "bar", 0)];
        let mut kv: Vec<(String, String)> = vec![("enablefilter".into(), "1".into()), ("enablepayloadtext".into(), "1".into()), ("payloadtext".into(), "foo".into())];
        if ic {
            kv.push(("ignoreCase_Payload".into(), "1".into()));
        } else {
            kv.push(("ignoreCase_Payload".into(), "0".into()));
        }
        record(sink, ctx, FeIn::Dlf(vec![kv], false), Some(a.clone()), msgs.clone(), None, Some(1_000_000 + ic as u64), &["corpus", "C11-2"]);
        let mut jkv = vec![("type".to_string(), json!(0)), ("payload".to_string(), json!("foo"))];
        if ic {
            jkv.push(("ignoreCasePayload".into(), json!(true)));
        }
        record(sink, ctx, FeIn::Json(jkv), Some(a), msgs, None, Some(1_000_000 + ic as u64), &["corpus", "C11-2"]);
    }
    // over-long and short ids, all four front-ends
    let a = AFilter {
        kind: 0,
        enabled: true,
        negate: false,
        ecu: None,
        apid: Some(AId { s: "AP".into(), regex: false }),
        ctid: Some(AId { s: "CTID".into(), regex: false }),
        ty: None,
        lmin: None,
        lmax: None,
        payload: None,
        lcs: None,
    };
    let msgs = vec![
        m(b"ECU1", Some((0x41, b"AP\0\0", b"CTID")), "", 0),
        m(b"ECU1", Some((0x41, b"APID", b"CTID")), "", 0),
        m(b"ECU1", Some((0x41, b"AP\0\0", b"CT\0\0")), "", 0),
        m(b"ECU1", None, "", 0),
    ];
    record(sink, ctx, FeIn::Conv(b"AP-- CTID\n".to_vec()), Some(a.clone()), msgs.clone(), None, Some(1_000_010), &["corpus"]);
    record(sink, ctx, FeIn::Eac(":AP:CTID".into()), Some(a.clone()), msgs.clone(), None, Some(1_000_010), &["corpus"]);
    record(sink, ctx, FeIn::Json(vec![("type".into(), json!(0)), ("apid".into(), json!("AP")), ("ctid".into(), json!("CTID"))]), Some(a.clone()), msgs.clone(), None, Some(1_000_010), &["corpus"]);
    record(
        sink,
        ctx,
        FeIn::Dlf(
            vec![vec![
                ("enablefilter".into(), "1".into()),
                ("enableapplicationid".into(), "1".into()),
                ("applicationid".into(), "AP".into()),
                ("enablecontextid".into(), "1".into()),
                ("contextid".into(), "CTID".into()),
            ]],
            true,
        ),
        Some(a),
        msgs,
        None,
        Some(1_000_010),
        &["corpus"],
    );
    // wave 7: the engine of the payload pattern fails at match time (backtrack limit) on the second and the last
    // message; `matches` answers "criterion does not hold" (a negated filter matches them), no call panics
    let evil = "ab".repeat(40);
    for negate in [false, true] {
        let a = AFilter {
            kind: 0,
            enabled: true,
            negate,
            ecu: None,
            apid: None,
            ctid: None,
            ty: None,
            lmin: None,
            lmax: None,
            payload: Some(APayload { s: "(a|b|ab)*(?=c)".into(), regex: true, ic: true }),
            lcs: None,
        };
        let msgs = vec![
            m(b"ECU1", Some((0x41, b"APID", b"CTID")), "abababc", 1),
            m(b"ECU1", Some((0x41, b"APID", b"CTID")), &evil, 1),
            m(b"ECU1", Some((0x41, b"APID", b"CTID")), "ab ab", 1),
            m(b"ECU1", Some((0x41, b"APID", b"CTID")), &format!("{}C", evil.to_uppercase()), 1),
            m(b"ECU2", None, &evil, 0),
        ];
        let mut jkv = vec![("type".to_string(), json!(0)), ("payloadRegex".to_string(), json!("(a|b|ab)*(?=c)")), ("ignoreCasePayload".to_string(), json!(true))];
        if negate {
            jkv.push(("not".into(), json!(true)));
        }
        record(sink, ctx, FeIn::Json(jkv), Some(a.clone()), msgs.clone(), None, Some(1_000_020 + negate as u64), &["corpus", "C03-7", "regex_engine"]);
        if !negate {
            let kv: Vec<(String, String)> = vec![
                ("enablefilter".into(), "1".into()),
                ("enablepayloadtext".into(), "1".into()),
                ("payloadtext".into(), "(a|b|ab)*(?=c)".into()),
                ("enableregexp_Payload".into(), "1".into()),
                ("ignoreCase_Payload".into(), "1".into()),
            ];
            record(sink, ctx, FeIn::Dlf(vec![kv], true), Some(a.clone()), msgs.clone(), None, Some(1_000_020), &["corpus", "C03-7", "regex_engine"]);
            record(sink, ctx, FeIn::Direct(a.clone()), Some(a), msgs, None, Some(1_000_020), &["corpus", "C03-7", "regex_engine"]);
        }
    }
    // wave 7 (seeded C11-7): a DLF ECU id is the literal id whatever characters it is made of
    for id in ["E.U1", "A-B", "EC(1"] {
        let a = AFilter { kind: 0, enabled: true, negate: false, ecu: Some(AId { s: id.into(), regex: false }), apid: None, ctid: None, ty: None, lmin: None, lmax: None, payload: None, lcs: None };
        let msgs = vec![
            m(&pad4(id.as_bytes()), Some((0x41, b"APID", b"CTID")), "", 0),
            m(b"ECU1", Some((0x41, b"APID", b"CTID")), "", 0),
            m(b"EXU1", None, "", 0),
            m(b"XA-B", Some((0x41, b"APID", b"CTID")), "", 0),
            m(b"A-BX", None, "", 0),
            m(b"EC1\0", None, "", 0),
        ];
        let kv: Vec<(String, String)> = vec![("enablefilter".into(), "1".into()), ("enableecuid".into(), "1".into()), ("ecuid".into(), id.into())];
        record(sink, ctx, FeIn::Dlf(vec![kv], false), Some(a.clone()), msgs.clone(), None, Some(1_000_030 + id.len() as u64 * 7 + id.as_bytes()[1] as u64), &["corpus", "C11-7", "meta_id"]);
        record(
            sink,
            ctx,
            FeIn::Json(vec![("type".into(), json!(0)), ("ecu".into(), json!(id)), ("ecuIsRegex".into(), json!(false))]),
            Some(a),
            msgs,
            None,
            Some(1_000_030 + id.len() as u64 * 7 + id.as_bytes()[1] as u64),
            &["corpus", "C11-7", "meta_id"],
        );
    }
    // DLF texts of unusual structure (the event loops of the loader)
    for k in 0..16 {
        let msgs = vec![
            m(b"ECU1", Some((0x26, b"APID", b"CT\0\0")), "foo", 0),
            m(b"ECU1", Some((0x41, b"APID", b"CTID")), "a foo b", 0),
            m(b"\n  \0", Some((0x26, b"APID", b"CT\0\0")), "a  b", 0),
            m(b"ECU1", Some((0x27, b"AP\0\0", b"CT\0\0")), "FOO", 0),
            m(b"ECU1", None, "foo", 0),
        ];
        record(sink, ctx, odd_dlf(k), None, msgs, None, None, &["corpus", "odd_dlf"]);
    }
}

fn main() {
    if std::env::var("C11_ENGINE_PROBE").is_ok() {
        engine_probe();
        return;
    }
    let a = parse_args();
    let mut sink = Sink::new("C11", &a.out);
    sink.shard_size = 60;
    let mut ctx = Ctx { eng: Engines::default(), groups: HashMap::new(), cli_budget: 0 };
    if let Some(p) = &a.replay {
        let v = read_replay(p);
        replay(&mut sink, &mut ctx, &v["case"]);
        sink.finish();
        return;
    }
    let have_cli = std::env::var("VERIF_ADLT_BIN").map(|p| std::path::Path::new(&p).exists()).unwrap_or(false);
    if !have_cli {
        eprintln!("c11: VERIF_ADLT_BIN missing: the ECU:APID:CTID front-end is skipped");
        sink.extra_stats.insert("eac_cli_skipped".into(), json!(true));
    }
    let quick = a.tier == "quick";
    if have_cli {
        ctx.cli_budget = if quick { 60 } else if a.tier == "search" { 0 } else { 600 };
    }
    let mut rng = Rng::new(a.seed);
    // wall time per generator section (stats.extra.section_ms)
    let mut sections: Vec<(&str, u128, usize)> = vec![];
    let mut t_sec = std::time::Instant::now();
    let mut n_sec = 0usize;
    macro_rules! section_done {
        ($name:expr) => {
            sections.push(($name, t_sec.elapsed().as_millis(), sink.next_id() as usize - n_sec));
            t_sec = std::time::Instant::now();
            n_sec = sink.next_id() as usize;
        };
    }
    corpus(&mut sink, &mut ctx);
    section_done!("corpus");
    let mut group: u64 = 0;

    // exhaustive: criteria subsets x negation (x enabled), literal and regex variants, through JSON
    let thorough = a.tier == "thorough";
    let variants: u32 = if thorough { 4 } else { 1 };
    for variant in 0..variants {
        let v = if thorough { variant } else { (a.seed % 4) as u32 };
        for bits in 0..256u32 {
            for negate in [false, true] {
                for enabled in [true, false] {
                    if !enabled && !thorough && bits % 16 != 5 {
                        continue;
                    }
                    let af = exhaustive_filter(bits, negate, enabled, v);
                    let (msgs, base) = universe(&mut rng, &mut ctx.eng, &af, 1);
                    let kv = a_to_json(&mut rng, &af);
                    let sweep = if bits & 0x38 != 0 { Some(base) } else { None };
                    group += 1;
                    record(&mut sink, &mut ctx, FeIn::Json(kv), Some(af.clone()), msgs.clone(), sweep.clone(), Some(group), &["exhaustive"]);
                    if (thorough || bits % 4 == 3) && direct_filter(&af).is_some() {
                        record(&mut sink, &mut ctx, FeIn::Direct(af.clone()), Some(af.clone()), msgs.clone(), sweep.clone(), Some(group), &["exhaustive"]);
                    }
                    if thorough || bits % 4 == 1 {
                        if let Some(d) = a_to_dlf(&mut rng, &af) {
                            record(&mut sink, &mut ctx, FeIn::Dlf(vec![d], false), Some(af), msgs, sweep, Some(group), &["exhaustive"]);
                        }
                    }
                }
            }
        }
    }

    section_done!("exhaustive");
    // regular expressions that carry their own inline flag groups ("(?i)..", "(?i:..)..", "^(?i)..", "(?s)..", ...):
    // every way of attaching the group x the ignoreCasePayload option absent / false / true, through every front-end
    // that can express the filter and through to_json -> from_json; the universes hold the criterion's text in
    // other letter cases, so a loader / serialiser that adds or loses case-insensitivity decides differently
    let flag_rounds = a.count.map(|c| (c / 20).max(1)).unwrap_or(if quick { 2 } else if a.tier == "search" { 3 } else { 16 });
    let mut eac_flag_budget = if quick { 12 } else { 200 };
    for round in 0..flag_rounds {
        for form in 0..N_FLAG_FORMS {
            // payload
            for ic_state in 0..3u64 {
                let mut pat = None;
                for _ in 0..8 {
                    let cand = flagged(form, *rng.pick(FLAG_BODIES));
                    if ctx.eng.fancy(&cand).is_some() && ctx.eng.fancy(&format!("(?i){}", cand)).is_some() {
                        pat = Some(cand);
                        break;
                    }
                }
                let Some(pat) = pat else { continue };
                // alone, or together with other criteria
                let mut af = gen_afilter(&mut rng, if (round + ic_state) % 3 == 0 { 1 } else { 0 }, 5);
                af.kind = if rng.chance(1, 6) { 1 } else { 0 };
                af.enabled = true;
                af.negate = rng.chance(1, 3);
                af.payload = Some(APayload { s: pat, regex: true, ic: ic_state == 2 });
                let (msgs, base) = universe(&mut rng, &mut ctx.eng, &af, 2);
                let sweep = if af.ty.is_some() || af.lmin.is_some() || af.lmax.is_some() { Some(base) } else { None };
                group += 1;
                let ic_member = match ic_state {
                    0 => None,
                    1 => Some(false),
                    _ => Some(true),
                };
                let tag_ic = ["ic_member_absent", "ic_member_false", "ic_member_true"][ic_state as usize];
                let tags = ["regex_flags", flag_form_name(form), tag_ic];
                let kv = a_to_json_ic(&mut rng, &af, ic_member);
                record(&mut sink, &mut ctx, FeIn::Json(kv), Some(af.clone()), msgs.clone(), sweep.clone(), Some(group), &tags);
                if let Some(mut d) = a_to_dlf(&mut rng, &af) {
                    d.retain(|(k, _)| k != "ignoreCase_Payload");
                    if let Some(b) = ic_member {
                        let at = rng.below(d.len() as u64 + 1) as usize;
                        d.insert(at, ("ignoreCase_Payload".into(), if b { "1" } else { "0" }.into()));
                    }
                    record(&mut sink, &mut ctx, FeIn::Dlf(vec![d], rng.chance(1, 2)), Some(af.clone()), msgs.clone(), sweep.clone(), Some(group), &tags);
                }
                if ic_state != 1 && direct_filter(&af).is_some() && (thorough || (form + round + ic_state) % 2 == 0) {
                    record(&mut sink, &mut ctx, FeIn::Direct(af.clone()), Some(af.clone()), msgs.clone(), sweep.clone(), Some(group), &tags);
                }
            }
            // ids
            let mut pat = None;
            for _ in 0..8 {
                let cand = flagged(form, *rng.pick(FLAG_ID_BODIES));
                if ctx.eng.bytes(&cand).is_some() {
                    pat = Some(cand);
                    break;
                }
            }
            let Some(pat) = pat else { continue };
            let mut af = gen_afilter(&mut rng, 0, 1);
            af.kind = 0;
            af.enabled = true;
            let which = (form + round) % 3;
            let others = round % 2 == 1;
            af.negate = others && rng.chance(1, 3);
            let lit = |rng: &mut Rng| AId { s: rng.pick(&["APID", "AP", "CTID", "CT", "ECU1", "XY"]).to_string(), regex: false };
            af.ecu = if which == 0 { Some(AId { s: pat.clone(), regex: true }) } else if others && rng.chance(1, 2) { Some(lit(&mut rng)) } else { None };
            af.apid = if which == 1 { Some(AId { s: pat.clone(), regex: true }) } else if others && rng.chance(1, 2) { Some(lit(&mut rng)) } else { None };
            af.ctid = if which == 2 { Some(AId { s: pat.clone(), regex: true }) } else if others && rng.chance(1, 2) { Some(lit(&mut rng)) } else { None };
            let (msgs, _) = universe(&mut rng, &mut ctx.eng, &af, 2);
            group += 1;
            let tags = ["regex_flags", flag_form_name(form), "id_flags"];
            let kv = a_to_json(&mut rng, &af);
            record(&mut sink, &mut ctx, FeIn::Json(kv), Some(af.clone()), msgs.clone(), None, Some(group), &tags);
            if let Some(d) = a_to_dlf(&mut rng, &af) {
                record(&mut sink, &mut ctx, FeIn::Dlf(vec![d], rng.chance(1, 2)), Some(af.clone()), msgs.clone(), None, Some(group), &tags);
            }
            if direct_filter(&af).is_some() && (thorough || form % 2 == 1) {
                record(&mut sink, &mut ctx, FeIn::Direct(af.clone()), Some(af.clone()), msgs.clone(), None, Some(group), &tags);
            }
            if have_cli && eac_flag_budget > 0 {
                if let Some(e) = a_to_eac(&af) {
                    eac_flag_budget -= 1;
                    let cli_msgs: Vec<Msg> = msgs.iter().filter(|m| m.raw.is_none()).cloned().collect();
                    record(&mut sink, &mut ctx, FeIn::Eac(e), Some(af.clone()), cli_msgs, None, None, &tags);
                }
            }
        }
    }

    section_done!("inline_flags");
    // payload patterns on fancy_regex's backtracking engine x payloads that drive it over its limit (wave 7)
    let engine_rounds = a.count.map(|c| (c / 40).max(1)).unwrap_or(if quick { 5 } else if a.tier == "search" { 6 } else { 40 });
    engine_family(&mut sink, &mut ctx, &mut rng, &mut group, engine_rounds);
    section_done!("regex_engine");

    // ids made of regex characters in ECU / APID / CTID position x regex option on / off / absent x front-ends (wave 7)
    let mut meta_eac_budget: u64 = if quick { 14 } else { 200 };
    let meta_rounds = if thorough { 6 } else { 1 };
    for r in 0..meta_rounds {
        let stride = if thorough { 1 } else if a.count.is_some() { 6 } else { 3 };
        meta_id_family(&mut sink, &mut ctx, &mut rng, &mut group, a.seed + r, stride, have_cli, &mut meta_eac_budget);
    }

    section_done!("meta_id");
    // random abstract filters through every front-end that can express them
    let n = a.count.unwrap_or(if quick { 260 } else if a.tier == "search" { 500 } else { 6000 });
    for i in 0..n {
        let af = match i % 7 {
            6 => {
                // list-valued criterion in front: arbitrary lifecycle lists, with and without negation
                let mut f = gen_afilter(&mut rng, 1, 5);
                f.lcs = Some(gen_lcs(&mut rng));
                f.negate = rng.chance(1, 2);
                f.enabled = true;
                f
            }
            0 => gen_ids_only(&mut rng, true),
            1 => gen_ids_only(&mut rng, false),
            2 => gen_afilter(&mut rng, 1, 2),
            3 => {
                // what a dlt-viewer file can say
                let mut f = gen_afilter(&mut rng, 2, 5);
                f.negate = false;
                f.lcs = None;
                if let Some(e) = &mut f.ecu {
                    e.regex = false;
                    if e.s.is_empty() || !e.s.is_ascii() {
                        e.s = "ECU1".into();
                    }
                }
                for c in [&mut f.apid, &mut f.ctid].into_iter().flatten() {
                    if c.s.is_empty() {
                        c.s = "AP".into();
                    }
                    if rng.chance(1, 3) {
                        // the regex flag decides, not the characters
                        c.regex = !c.regex;
                        if c.regex && ctx.eng.bytes(&c.s).is_none() {
                            c.regex = false;
                        }
                    }
                }
                if f.ty.is_some() {
                    f.ty = Some(AType::Mstp(3));
                }
                f
            }
            _ => gen_afilter(&mut rng, 1, 4),
        };
        let (msgs, base) = universe(&mut rng, &mut ctx.eng, &af, 4);
        let sweep = if af.ty.is_some() || af.lmin.is_some() || af.lmax.is_some() || rng.chance(1, 6) { Some(base) } else { None };
        group += 1;
        let kv = a_to_json(&mut rng, &af);
        record(&mut sink, &mut ctx, FeIn::Json(kv), Some(af.clone()), msgs.clone(), sweep.clone(), Some(group), &[]);
        if direct_filter(&af).is_some() && (af.lcs.is_some() || rng.chance(1, 2)) {
            record(&mut sink, &mut ctx, FeIn::Direct(af.clone()), Some(af.clone()), msgs.clone(), sweep.clone(), Some(group), &[]);
        }
        if let Some(d) = a_to_dlf(&mut rng, &af) {
            record(&mut sink, &mut ctx, FeIn::Dlf(vec![d], rng.chance(1, 2)), Some(af.clone()), msgs.clone(), sweep.clone(), Some(group), &[]);
        }
        if let Some(b) = a_to_conv(&mut rng, &af) {
            record(&mut sink, &mut ctx, FeIn::Conv(b), Some(af.clone()), msgs.clone(), sweep.clone(), Some(group), &[]);
        }
        if have_cli {
            if let Some(s) = a_to_eac(&af) {
                // the CLI reads the messages from a file: ecu, extended header only
                let cli_msgs: Vec<Msg> = msgs.iter().filter(|m| m.raw.is_none()).cloned().collect();
                record(&mut sink, &mut ctx, FeIn::Eac(s), Some(af.clone()), cli_msgs, None, None, &[]);
            }
        }
    }

    section_done!("random");
    // files with several filters (dlt-convert list, DLF)
    let n_multi = a.count.unwrap_or(if quick { 40 } else if a.tier == "search" { 80 } else { 600 });
    for i in 0..n_multi {
        let k = rng.range(2, 4) as usize;
        if i % 2 == 0 {
            let al: Vec<AFilter> = (0..k).map(|_| gen_ids_only(&mut rng, true)).collect();
            let mut bytes = vec![];
            for af in &al {
                bytes.extend(a_to_conv(&mut rng, af).expect("conv"));
            }
            if rng.chance(1, 3) {
                bytes.extend_from_slice(&b"APID CTI"[..rng.below(9) as usize]); // an incomplete last record is ignored
            }
            let (mut msgs, _) = universe(&mut rng, &mut ctx.eng, &al[0], 2);
            for af in &al[1..] {
                msgs.push(satisfying_msg(&mut rng, &mut ctx.eng, af));
            }
            record_multi(&mut sink, &mut ctx, FeIn::Conv(bytes), None, al, msgs, None, None, &[]);
        } else {
            let mut al = vec![];
            let mut fs = vec![];
            while al.len() < k {
                let af = gen_afilter(&mut rng, 1, 3);
                if let Some(d) = a_to_dlf(&mut rng, &af) {
                    al.push(af);
                    fs.push(d);
                }
            }
            let (mut msgs, _) = universe(&mut rng, &mut ctx.eng, &al[0], 2);
            for af in &al[1..] {
                msgs.push(satisfying_msg(&mut rng, &mut ctx.eng, af));
            }
            record_multi(&mut sink, &mut ctx, FeIn::Dlf(fs, rng.chance(1, 2)), None, al, msgs, None, None, &[]);
        }
    }

    section_done!("multi");
    // raw inputs (valid and malformed) for the correspondence of the loaders
    let n_raw = a.count.unwrap_or(if quick { 240 } else if a.tier == "search" { 300 } else { 4000 });
    for i in 0..n_raw {
        let fe = match i % 8 {
            0..=3 => gen_raw_json(&mut rng),
            4 => gen_raw_dlf(&mut rng),
            5 => {
                if i % 16 == 5 {
                    gen_odd_dlf(&mut rng)
                } else {
                    gen_raw_dlf(&mut rng)
                }
            }
            6 => gen_raw_conv(&mut rng),
            _ => {
                if have_cli && (i % 16 == 7 || !quick) {
                    gen_raw_eac(&mut rng)
                } else {
                    gen_raw_json(&mut rng)
                }
            }
        };
        let mut msgs: Vec<Msg> = (0..8).map(|_| rand_msg(&mut rng)).collect();
        if let FeIn::Eac(_) = fe {
            for m in msgs.iter_mut() {
                m.text = Some(String::new());
            }
        }
        let sweep = if matches!(fe, FeIn::Eac(_)) || !rng.chance(1, 3) { None } else { Some(rand_msg(&mut rng)) };
        let sweep = sweep.map(|mut m| {
            if m.ext.is_none() {
                m.ext = Some((0, *b"APID", *b"CTID"));
            }
            m
        });
        record(&mut sink, &mut ctx, fe, None, msgs, sweep, None, &[]);
    }
    section_done!("raw");
    let _ = (t_sec, n_sec);
    sink.extra_stats.insert("section_ms_cases".into(), json!(sections.iter().map(|(n, ms, c)| json!([n, ms, c])).collect::<Vec<_>>()));
    sink.extra_stats.insert("fancy_engine_error_evaluations".into(), json!(ctx.eng.fancy_err_evals));
    sink.extra_stats.insert("fancy_engine_error_ms".into(), json!(ctx.eng.fancy_err_time.as_millis() as u64));
    sink.finish();
}
