//! C18 — verbose payload codec: DltMessageArgIterator / payload_as_text / payload_from_args /
//! serde_verb_payload::Serializer (dlt_args!) vs Dlt/Args.v + Dlt/Text.v
use adlt::dlt::{DltArg, DltChar4, DltExtendedHeader, DltMessage, DltStandardHeader};
use adlt::serde_verb_payload::{add_to_serializer, Error as SerErr, Serializer};
use adlt::plugins::plugin::Plugin;
use adlt::utils::payload_from_args;
use serde::{Deserialize, Serialize};
use vharness::*;

// ------------------------------------------------------------------ input description
/// byte strings are described structurally: (block, repeat count)
type Segs = Vec<(Vec<u8>, u64)>;
fn expand(s: &Segs) -> Vec<u8> {
    let mut v = vec![];
    for (b, n) in s {
        for _ in 0..*n {
            v.extend_from_slice(b);
        }
    }
    v
}
fn lit(b: &[u8]) -> Segs {
    if b.is_empty() {
        vec![]
    } else {
        vec![(b.to_vec(), 1)]
    }
}

/// a value handed to the serde serializer
#[derive(Clone, Debug, Serialize, Deserialize, PartialEq)]
enum Sv {
    Bool(bool),
    Int(u8, u64),   // tyle 1..4, two's complement bits
    UInt(u8, u64),  // tyle 1..4
    Float(u8, u64), // tyle 3|4, bits
    Str(Segs),      // valid UTF-8
    Bytes(Segs),
    Ascii(Segs), // DltVerbArgTypeWrapper::DltScodAscii
    Unit,
    Char(u32),
    SomeV(Box<Sv>),
    NoneV,
    Seq, // a slice of u8 (serialize_seq)
}

/// a place INSIDE the crate that builds a message around a payload it encoded itself; the case observes the
/// message it built and decodes it with the flags that message carries
#[derive(Clone, Debug, Serialize, Deserialize)]
enum Prod {
    /// ExportPlugin (public API): `texts` = infoTexts of the config (valid UTF-8), the first exported message has the
    /// byte order `src_be`, `more` further messages of the other / same order follow; observed: the info message of texts[k]
    ExportInfo { src_be: bool, texts: Vec<Segs>, k: u64, more: Vec<bool> },
    /// blf converter: one AppText object (any bytes; ablf decodes them lossily and drops one trailing NUL)
    BlfAppText { source: u32, text: Segs, ts_ns: u64 },
    /// blf converter: one CAN frame object
    BlfCan { channel: u16, id: u32, data: Vec<u8> },
    /// AnonymizePlugin on a log message (verbose: sample string in the message's order; non-verbose: id + time)
    Anon { be: bool, verbose: bool, noar: u8, payload: Segs, rt_us: u64 },
    /// text converters, one line: kind 0 = logcat monotonic, 1 = logcat threadtime, 2 = generic .log; observed: the log message
    TextLog { kind: u8, tag: String, msg: String },
    /// the GET_LOG_INFO message announcing a new tag (kind 0..2 as above) / an asc BusMapping comment (kind 3)
    ApidInfo { kind: u8, tag: String },
    /// asc converter: one CAN (fd = false) or CANFD frame line, `ext`: extended id with the x suffix
    AscCan { fd: bool, ext: bool, id: u32, data: Vec<u8> },
}

#[derive(Clone, Debug, Serialize, Deserialize)]
enum Enc {
    Payload(Segs),
    FromArgs(Vec<(u32, bool, Segs)>),
    Serde(Vec<Sv>),
    Produced(Prod),
}

#[derive(Clone, Debug, Serialize, Deserialize)]
struct Input {
    ext: bool,     // extended header present
    verbose: bool, // verbose bit of the extended header
    be: bool,      // MSBF bit of the standard header
    noar: u8,
    enc: Enc,
    patch: Vec<(u64, u8)>,
    cut: Option<u64>,
    /// what the generator intended (only for tags)
    #[serde(default)]
    note: String,
}

// ------------------------------------------------------------------ running the implementation
struct BytesW<'a>(&'a [u8]);
impl Serialize for BytesW<'_> {
    fn serialize<S: serde::Serializer>(&self, s: S) -> Result<S::Ok, S::Error> {
        s.serialize_bytes(self.0)
    }
}
/// the same calls `#[derive(Serialize)]` generates for `DltVerbArgTypeWrapper::DltScodAscii(&serde_bytes::Bytes)`
/// (serde_bytes is not a dependency of the harness crate)
struct AsciiW<'a>(&'a [u8]);
impl Serialize for AsciiW<'_> {
    fn serialize<S: serde::Serializer>(&self, s: S) -> Result<S::Ok, S::Error> {
        s.serialize_newtype_variant("DltVerbArgTypeWrapper", 0, "DltScodAscii", &BytesW(self.0))
    }
}

fn ser_sv(ser: &mut Serializer, v: &Sv) -> Result<(), SerErr> {
    match v {
        Sv::Bool(b) => add_to_serializer(ser, b),
        Sv::Int(1, x) => add_to_serializer(ser, &(*x as u8 as i8)),
        Sv::Int(2, x) => add_to_serializer(ser, &(*x as u16 as i16)),
        Sv::Int(3, x) => add_to_serializer(ser, &(*x as u32 as i32)),
        Sv::Int(_, x) => add_to_serializer(ser, &(*x as i64)),
        Sv::UInt(1, x) => add_to_serializer(ser, &(*x as u8)),
        Sv::UInt(2, x) => add_to_serializer(ser, &(*x as u16)),
        Sv::UInt(3, x) => add_to_serializer(ser, &(*x as u32)),
        Sv::UInt(_, x) => add_to_serializer(ser, x),
        Sv::Float(3, x) => add_to_serializer(ser, &f32::from_bits(*x as u32)),
        Sv::Float(_, x) => add_to_serializer(ser, &f64::from_bits(*x)),
        Sv::Str(s) => {
            let b = expand(s);
            let st = String::from_utf8(b).expect("generator: Str must be valid UTF-8");
            add_to_serializer(ser, &st.as_str())
        }
        Sv::Bytes(s) => add_to_serializer(ser, &BytesW(&expand(s))),
        Sv::Ascii(s) => add_to_serializer(ser, &AsciiW(&expand(s))),
        Sv::Unit => add_to_serializer(ser, &()),
        Sv::Char(c) => add_to_serializer(ser, &char::from_u32(*c).unwrap_or('?')),
        Sv::SomeV(x) => match &**x {
            Sv::Bool(b) => add_to_serializer(ser, &Some(*b)),
            Sv::UInt(1, v) => add_to_serializer(ser, &Some(*v as u8)),
            Sv::UInt(4, v) => add_to_serializer(ser, &Some(*v)),
            Sv::Int(3, v) => add_to_serializer(ser, &Some(*v as u32 as i32)),
            other => ser_sv(ser, other),
        },
        Sv::NoneV => add_to_serializer(ser, &None::<u8>),
        Sv::Seq => add_to_serializer(ser, &vec![1u8, 2u8]),
    }
}
/// what `dlt_args!` expands to, for a run-time list
fn dlt_args_dyn(vals: &[Sv]) -> Result<(u8, Vec<u8>), SerErr> {
    let mut ser = Serializer { output: Vec::default() };
    let mut nr: u8 = 0;
    for v in vals {
        ser_sv(&mut ser, v)?;
        nr = nr.wrapping_add(1);
    }
    Ok((nr, ser.output))
}
fn err_kind(e: &SerErr) -> u64 {
    match e {
        SerErr::UnsupportedType => 1,
        SerErr::Nyi => 2,
        SerErr::DataTooLarge => 3,
        _ => 9,
    }
}

// ------------------------------------------------------------------ producers inside the crate
/// what running a producer gave: the observed message (None: the producer wrote none) and the violations of
/// "what was built decodes to what was encoded" found on the OTHER messages of the same run
struct Built {
    msg: Option<DltMessage>,
    issues: Vec<String>,
}

fn log_msg_like(be: bool, verbose: bool, noar: u8, payload: Vec<u8>, rt_us: u64) -> DltMessage {
    DltMessage {
        index: 0,
        reception_time_us: rt_us,
        ecu: DltChar4::from_buf(b"ECU1"),
        timestamp_dms: 0,
        standard_header: DltStandardHeader { htyp: 0x21 | if be { 2 } else { 0 }, len: 0, mcnt: 0 },
        extended_header: Some(DltExtendedHeader {
            verb_mstp_mtin: 0x40 | if verbose { 1 } else { 0 },
            noar,
            apid: DltChar4::from_buf(b"APID"),
            ctid: DltChar4::from_buf(b"CTID"),
        }),
        payload,
        payload_text: None,
        lifecycle: 0,
    }
}

/// a verbose message with (4711u16, "foo") in the requested byte order
fn trigger_msg(be: bool) -> DltMessage {
    let mut p = vec![];
    let w32 = |v: u32| if be { v.to_be_bytes() } else { v.to_le_bytes() };
    let w16 = |v: u16| if be { v.to_be_bytes() } else { v.to_le_bytes() };
    p.extend_from_slice(&w32(0x42));
    p.extend_from_slice(&w16(4711));
    p.extend_from_slice(&w32(0x8200));
    p.extend_from_slice(&w16(4));
    p.extend_from_slice(b"foo\0");
    DltMessage::get_testmsg_with_payload(be, 2, &p)
}

/// decode a verbose message with its own flags: (type_info, raw) list, all arguments must carry the message's order
fn decode_own(m: &DltMessage) -> Result<Vec<(u32, Vec<u8>)>, String> {
    let mut v = vec![];
    for a in m {
        if a.is_big_endian != m.is_big_endian() {
            return Err("argument byte order differs from the message's".into());
        }
        v.push((a.type_info, a.payload_raw.to_vec()));
    }
    Ok(v)
}
/// the message decodes to exactly one UTF-8 string argument holding `text` (+ NUL), noar = 1, canonical text
fn check_one_string(m: &DltMessage, text: &[u8], what: &str) -> Result<(), String> {
    if !m.is_verbose() {
        return Err(format!("{}: not verbose", what));
    }
    let args = decode_own(m).map_err(|e| format!("{}: {}", what, e))?;
    if m.noar() as usize != args.len() {
        return Err(format!("{}: noar {} but {} decodable argument(s) (is_big_endian={})", what, m.noar(), args.len(), m.is_big_endian()));
    }
    let mut raw = text.to_vec();
    raw.push(0);
    if args.len() != 1 || args[0].0 != 0x8200 || args[0].1 != raw {
        return Err(format!("{}: encoded 1 string argument, decoded {:?}", what, args.iter().map(|a| (a.0, a.1.len())).collect::<Vec<_>>()));
    }
    let want = canon(Kind::Utf8, m.is_big_endian(), &raw);
    match m.payload_as_text() {
        Ok(t) if *t == want => Ok(()),
        Ok(t) => Err(format!("{}: text {:?} want {:?}", what, t.chars().take(40).collect::<String>(), want.chars().take(40).collect::<String>())),
        Err(_) => Err(format!("{}: text fmt error", what)),
    }
}
/// info texts the export plugin writes a message for: not empty, and the message (standard header 4 + timestamp 4 +
/// extended header 10 + one string argument: type info 4 + length 2 + text + NUL) fits the 16-bit length field
fn export_text_written(t: &[u8]) -> bool {
    !t.is_empty() && 18 + 7 + t.len() <= 65535
}

fn run_export(src_be: bool, texts: &[Vec<u8>], k: usize, more: &[bool]) -> Built {
    let mut issues = vec![];
    let f = tempfile::Builder::new().prefix("c18_export_").suffix(".dlt").tempfile().expect("tempfile");
    let name = f.path().to_str().unwrap().to_owned();
    drop(f);
    let jt: Vec<serde_json::Value> = texts.iter().map(|t| serde_json::Value::String(String::from_utf8(t.clone()).expect("generator: info text must be UTF-8"))).collect();
    let config = serde_json::json!({"name": "Export", "enabled": true, "exportFileName": name, "filters": [], "infoTexts": jt});
    let mut sent = vec![trigger_msg(src_be)];
    for b in more {
        sent.push(trigger_msg(*b));
    }
    {
        let mut plugin = adlt::plugins::export::ExportPlugin::from_json(config.as_object().unwrap()).expect("export config");
        for m in sent.iter_mut() {
            plugin.process_msg(m);
        }
        plugin.sync_all();
    }
    let data = std::fs::read(&name).unwrap_or_default();
    let _ = std::fs::remove_file(&name);
    let mut msgs = vec![];
    let mut off = 0usize;
    while off < data.len() {
        match adlt::dlt::parse_dlt_with_storage_header(msgs.len() as u32, &data[off..]) {
            Ok((n, m)) => {
                off += n;
                msgs.push(m);
            }
            Err(e) => {
                issues.push(format!("export file does not parse at offset {}: {:?}", off, e));
                break;
            }
        }
    }
    let is_info = |m: &DltMessage| m.apid().map(|a| a.as_buf() == b"VsDl").unwrap_or(false) && m.ctid().map(|a| a.as_buf() == b"Info").unwrap_or(false);
    let infos: Vec<&DltMessage> = msgs.iter().filter(|m| is_info(m)).collect();
    let exported: Vec<&DltMessage> = msgs.iter().filter(|m| !is_info(m)).collect();
    // the exported messages themselves are untouched
    if exported.len() != sent.len() {
        issues.push(format!("{} messages exported, {} sent", exported.len(), sent.len()));
    }
    for (e, s0) in exported.iter().zip(sent.iter()) {
        if e.is_big_endian() != s0.is_big_endian() || e.payload != s0.payload || e.noar() != s0.noar() {
            issues.push("an exported message differs from the message sent".into());
        }
    }
    // head of the file: creation info, then one message per written info text (mcnt = position + 1)
    let n_written = texts.iter().filter(|t| export_text_written(t)).count();
    if infos.len() != 1 + n_written {
        issues.push(format!("{} info messages, expected {}", infos.len(), 1 + n_written));
    }
    if let Some(c) = infos.first() {
        match decode_own(c) {
            Ok(a) if a.len() == 1 && c.noar() == 1 && a[0].0 == 0x8200 && a[0].1.starts_with(b"File created by adlt v") && a[0].1.last() == Some(&0) => {
                let t = c.payload_as_text().map(|t| t.into_owned()).unwrap_or_default();
                if !t.starts_with("File created by adlt v") {
                    issues.push(format!("creation info text {:?}", t));
                }
            }
            Ok(a) => issues.push(format!("creation info: noar {} but decoded {} argument(s) (is_big_endian={})", c.noar(), a.len(), c.is_big_endian())),
            Err(e) => issues.push(format!("creation info: {}", e)),
        }
    }
    let mut observed = None;
    for (idx, t) in texts.iter().enumerate() {
        let m = infos.iter().skip(1).find(|m| m.standard_header.mcnt == ((idx + 1) % 256) as u8);
        if idx == k {
            observed = m.map(|m| (*m).clone());
            continue; // judged by the oracle of the case
        }
        match (m, export_text_written(t)) {
            (Some(m), true) => {
                if let Err(e) = check_one_string(m, t, &format!("info text {}", idx)) {
                    issues.push(e);
                }
            }
            (None, false) => {}
            (Some(_), false) => issues.push(format!("info text {} should have been skipped", idx)),
            (None, true) => issues.push(format!("info text {} missing", idx)),
        }
    }
    Built { msg: observed, issues }
}

// ---- a minimal .blf file: header + top-level objects (ablf reads objects outside containers as they are)
fn blf_file(objs: &[Vec<u8>]) -> Vec<u8> {
    let body: usize = objs.iter().map(|o| o.len()).sum();
    let mut f = vec![];
    f.extend_from_slice(b"LOGG");
    f.extend_from_slice(&144u32.to_le_bytes());
    f.extend_from_slice(&4070100u32.to_le_bytes());
    f.extend_from_slice(&[2, 1, 0, 0]);
    f.extend_from_slice(&((144 + body) as u64).to_le_bytes());
    f.extend_from_slice(&((144 + body) as u64).to_le_bytes());
    f.extend_from_slice(&(objs.len() as u32).to_le_bytes());
    f.extend_from_slice(&(objs.len() as u32).to_le_bytes());
    for _ in 0..2 {
        for v in [2024u16, 3, 5, 15, 12, 0, 0, 0] {
            f.extend_from_slice(&v.to_le_bytes());
        }
    }
    f.extend_from_slice(&[0u8; 72]);
    assert_eq!(f.len(), 144);
    for o in objs {
        f.extend_from_slice(o);
    }
    f
}
fn blf_obj_header(object_type: u32, remaining: u32, ts_ns: u64) -> Vec<u8> {
    let mut o = vec![];
    o.extend_from_slice(b"LOBJ");
    o.extend_from_slice(&32u16.to_le_bytes());
    o.extend_from_slice(&1u16.to_le_bytes());
    o.extend_from_slice(&(16 + remaining).to_le_bytes());
    o.extend_from_slice(&object_type.to_le_bytes());
    o.extend_from_slice(&2u32.to_le_bytes()); // flags: time in ns
    o.extend_from_slice(&0u16.to_le_bytes());
    o.extend_from_slice(&0u16.to_le_bytes());
    o.extend_from_slice(&ts_ns.to_le_bytes());
    o
}
fn blf_apptext(source: u32, text: &[u8], ts_ns: u64) -> Vec<u8> {
    let remaining = 16 + 16 + text.len() as u32;
    let mut o = blf_obj_header(65, remaining, ts_ns);
    o.extend_from_slice(&source.to_le_bytes());
    o.extend_from_slice(&0u32.to_le_bytes());
    o.extend_from_slice(&(text.len() as u32).to_le_bytes());
    o.extend_from_slice(&0u32.to_le_bytes());
    o.extend_from_slice(text);
    o.extend(std::iter::repeat(0u8).take((remaining % 4) as usize));
    o
}
fn blf_can(channel: u16, id: u32, data: &[u8], ts_ns: u64) -> Vec<u8> {
    let remaining = 16 + 8 + data.len() as u32 + 8;
    let mut o = blf_obj_header(86, remaining, ts_ns);
    o.extend_from_slice(&channel.to_le_bytes());
    o.push(0);
    o.push(data.len().min(15) as u8);
    o.extend_from_slice(&id.to_le_bytes());
    o.extend_from_slice(data);
    o.extend_from_slice(&0u32.to_le_bytes());
    o.extend_from_slice(&[0, 0, 0, 0]);
    o
}
fn convert(ext: &str, bytes: Vec<u8>, ns: u32) -> Vec<DltMessage> {
    adlt::utils::get_dlt_message_iterator(ext, 0, std::io::Cursor::new(bytes), ns, Some(1_700_000_000_000_000), Some(1_700_000_100_000_000), None).collect()
}
/// what ablf's AppText::to_string gives the converter
fn blf_text(text: &[u8]) -> Vec<u8> {
    String::from_utf8_lossy(strip_nul(text)).into_owned().into_bytes()
}
/// the longest prefix (whole characters) that fits a message of the converter: 65535 - 22 header bytes - 7
fn blf_fit(t: &[u8]) -> Vec<u8> {
    let s = std::str::from_utf8(t).expect("lossy text is UTF-8");
    let mut n = s.len().min(65535 - 22 - 7);
    while !s.is_char_boundary(n) {
        n -= 1;
    }
    t[..n].to_vec()
}
fn text_line(kind: u8, tag: &str, msg: &str) -> String {
    match kind {
        0 => format!("    18.062   529   530 I {}: {}\n", tag, msg),
        1 => format!("03-05 12:34:56.789  1234  5678 W {}: {}\n", tag, msg),
        _ => format!("[2024-03-09 23:01:31.627] [INF] [{}] {}\n", tag, msg),
    }
}
fn asc_head() -> String {
    "date Tue Apr 12 08:55:37 AM 2022\nbase hex timestamps absolute\nno internal events logged\n".to_string()
}
fn asc_can_line(fd: bool, ext: bool, id: u32, data: &[u8]) -> String {
    let ids = format!("{:x}{}", id, if ext { "x" } else { "" });
    let d = data.iter().map(|b| format!("{:02x}", b)).collect::<Vec<_>>().join(" ");
    if fd {
        format!("0.646664 CANFD 1 Rx {}   1 0 {:x} {} {} 0 0 3000 0 0 0 0 0\n", ids, data.len().min(15), data.len(), d)
    } else {
        format!("0.985210 1 {} Rx d {} {} Length = 0 BitCount = 0 ID = {}\n", ids, data.len(), d, id)
    }
}
/// namespace of the converters' global tag / ecu maps: a fresh one per run keeps the runs independent
fn fresh_ns() -> u32 {
    static NS: std::sync::atomic::AtomicU32 = std::sync::atomic::AtomicU32::new(0x18_0000);
    NS.fetch_add(1, std::sync::atomic::Ordering::Relaxed)
}

fn run_producer(p: &Prod) -> Built {
    match p {
        Prod::ExportInfo { src_be, texts, k, more } => {
            let t: Vec<Vec<u8>> = texts.iter().map(expand).collect();
            run_export(*src_be, &t, *k as usize, more)
        }
        Prod::BlfAppText { source, text, ts_ns } => {
            let msgs = convert("blf", blf_file(&[blf_apptext(*source, &expand(text), *ts_ns)]), fresh_ns());
            let mut issues = vec![];
            if msgs.len() != 1 {
                issues.push(format!("blf: {} messages from one AppText object", msgs.len()));
            }
            Built { msg: msgs.into_iter().find(|m| m.is_verbose()), issues }
        }
        Prod::BlfCan { channel, id, data } => {
            let msgs = convert("blf", blf_file(&[blf_can(*channel, *id, data, 1000)]), fresh_ns());
            let mut issues = vec![];
            if msgs.len() != 1 {
                issues.push(format!("blf: {} messages from one CAN object", msgs.len()));
            }
            Built { msg: msgs.into_iter().next(), issues }
        }
        Prod::Anon { be, verbose, noar, payload, rt_us } => {
            let mut m = log_msg_like(*be, *verbose, *noar, expand(payload), *rt_us);
            let mut plugin = adlt::plugins::anonymize::AnonymizePlugin::new("anon");
            plugin.process_msg(&mut m);
            Built { msg: Some(m), issues: vec![] }
        }
        Prod::TextLog { kind, tag, msg } => {
            let msgs = convert(if *kind == 2 { "log" } else { "txt" }, text_line(*kind, tag, msg).into_bytes(), fresh_ns());
            let mut issues = vec![];
            if msgs.iter().filter(|m| m.is_verbose()).count() != 1 {
                issues.push(format!("{} verbose messages from one line", msgs.iter().filter(|m| m.is_verbose()).count()));
            }
            Built { msg: msgs.into_iter().rev().find(|m| m.is_verbose()), issues }
        }
        Prod::ApidInfo { kind, tag } => {
            let msgs = if *kind == 3 {
                convert("asc", format!("{}// BusMapping: CAN 1 = {}\n", asc_head(), tag).into_bytes(), fresh_ns())
            } else {
                convert(if *kind == 2 { "log" } else { "txt" }, text_line(*kind, tag, "hello").into_bytes(), fresh_ns())
            };
            Built { msg: msgs.into_iter().find(|m| m.is_ctrl_response()), issues: vec![] }
        }
        Prod::AscCan { fd, ext, id, data } => {
            let msgs = convert("asc", format!("{}{}", asc_head(), asc_can_line(*fd, *ext, *id, data)).into_bytes(), fresh_ns());
            let mut issues = vec![];
            if msgs.len() != 1 {
                issues.push(format!("asc: {} messages from one frame line", msgs.len()));
            }
            Built { msg: msgs.into_iter().next(), issues }
        }
    }
}

fn mk_msg(i: &Input, payload: Vec<u8>) -> DltMessage {
    DltMessage {
        index: 0,
        reception_time_us: 0,
        ecu: DltChar4::from_buf(b"ECU1"),
        timestamp_dms: 0,
        standard_header: DltStandardHeader { htyp: 0x20 | if i.ext { 1 } else { 0 } | if i.be { 2 } else { 0 }, len: 0, mcnt: 0 },
        extended_header: if i.ext {
            Some(DltExtendedHeader {
                verb_mstp_mtin: 0x40 | if i.verbose { 1 } else { 0 },
                noar: i.noar,
                apid: DltChar4::from_buf(b"APID"),
                ctid: DltChar4::from_buf(b"CTID"),
            })
        } else {
            None
        },
        payload,
        payload_text: None,
        lifecycle: 0,
    }
}

#[derive(Clone, Debug, PartialEq)]
struct ArgO {
    ti: u32,
    be: bool,
    raw: Vec<u8>,
    /// offset of the slice inside the payload, None if the slice is not inside
    off: Option<usize>,
}
fn arg_o(a: &DltArg, payload: &[u8]) -> ArgO {
    let base = payload.as_ptr() as usize;
    let p = a.payload_raw.as_ptr() as usize;
    let off = if p >= base && p + a.payload_raw.len() <= base + payload.len() { Some(p - base) } else { None };
    ArgO { ti: a.type_info, be: a.is_big_endian, raw: a.payload_raw.to_vec(), off }
}

struct Decoded {
    args: Vec<ArgO>,
    for_loop_same: bool,
    extra: Vec<Option<ArgO>>,
}
struct Exec {
    enc_err: Option<u64>,
    enc_noar: Option<u8>,
    enc_panic: Option<String>,
    payload0: Option<Vec<u8>>, // as encoded
    payload: Vec<u8>,          // after mutation
    dec: Option<Result<Decoded, String>>,
    text: Option<Result<String, String>>,
    /// producers: the message the crate built (as observed), "the producer wrote no message", findings on its other messages
    built: Option<DltMessage>,
    built_none: bool,
    issues: Vec<String>,
}

fn run_impl(i: &Input) -> Exec {
    let mut ex = Exec { enc_err: None, enc_noar: None, enc_panic: None, payload0: None, payload: vec![], dec: None, text: None, built: None, built_none: false, issues: vec![] };
    if let Enc::Produced(p) = &i.enc {
        let p2 = p.clone();
        match catch_loc(move || run_producer(&p2)) {
            Err(e) => ex.enc_panic = Some(e),
            Ok(b) => {
                ex.issues = b.issues;
                match b.msg {
                    None => ex.built_none = true,
                    Some(m) => {
                        ex.built = Some(m.clone());
                        ex.payload0 = Some(m.payload.clone());
                        ex.payload = m.payload.clone();
                        // decode from the payload (the text converters cache a text in the message)
                        let mut m = m;
                        m.payload_text = None;
                        let verbose = m.is_verbose();
                        decode_msg(&mut ex, m, verbose);
                    }
                }
            }
        }
        return ex;
    }
    // encode
    let enc = i.enc.clone();
    let r = catch_loc(move || match &enc {
        Enc::Produced(_) => unreachable!(),
        Enc::Payload(s) => Ok((None, expand(s))),
        Enc::FromArgs(args) => {
            let raws: Vec<Vec<u8>> = args.iter().map(|a| expand(&a.2)).collect();
            let dargs: Vec<DltArg> = args.iter().zip(raws.iter()).map(|(a, r)| DltArg { type_info: a.0, is_big_endian: a.1, payload_raw: r }).collect();
            Ok((None, payload_from_args(&dargs)))
        }
        Enc::Serde(vals) => dlt_args_dyn(vals).map(|(n, p)| (Some(n), p)).map_err(|e| err_kind(&e)),
    });
    let p0 = match r {
        Err(e) => {
            ex.enc_panic = Some(e);
            return ex;
        }
        Ok(Err(k)) => {
            ex.enc_err = Some(k);
            return ex;
        }
        Ok(Ok((n, p))) => {
            ex.enc_noar = n;
            p
        }
    };
    ex.payload0 = Some(p0.clone());
    let mut p = p0;
    for (pos, b) in &i.patch {
        if (*pos as usize) < p.len() {
            p[*pos as usize] = *b;
        }
    }
    if let Some(k) = i.cut {
        p.truncate(k as usize);
    }
    ex.payload = p.clone();
    let m = mk_msg(i, p);
    decode_msg(&mut ex, m, i.ext && i.verbose);
    ex
}

/// the iterator (next() until None, two more calls, the for loop) and, for verbose messages, payload_as_text
fn decode_msg(ex: &mut Exec, m: DltMessage, want_text: bool) {
    // decode
    let mr = &m;
    let d = catch_loc(std::panic::AssertUnwindSafe(|| {
        let mut it = mr.into_iter();
        let mut args = vec![];
        while let Some(a) = it.next() {
            args.push(arg_o(&a, &mr.payload));
        }
        let e1 = it.next().map(|a| arg_o(&a, &mr.payload));
        let e2 = it.next().map(|a| arg_o(&a, &mr.payload));
        let mut fl = vec![];
        for a in mr {
            fl.push(arg_o(&a, &mr.payload));
        }
        let same = fl == args;
        Decoded { args, for_loop_same: same, extra: vec![e1, e2] }
    }));
    ex.dec = Some(d);
    // text (verbose messages only: the non-verbose branch is control-message decoding, not part of C18)
    if want_text {
        let t = catch_loc(std::panic::AssertUnwindSafe(|| match mr.payload_as_text() {
            Ok(s) => Ok(s.into_owned()),
            Err(_) => Err(()),
        }));
        ex.text = Some(match t {
            Ok(Ok(s)) => Ok(s),
            Ok(Err(_)) => Err("fmt::Error".into()),
            Err(e) => Err(e),
        });
    }
}

// ------------------------------------------------------------------ external text functions
const W1252_HI: [u32; 32] = [
    0x20AC, 0x0081, 0x201A, 0x0192, 0x201E, 0x2026, 0x2020, 0x2021, 0x02C6, 0x2030, 0x0160, 0x2039, 0x0152, 0x008D, 0x017D, 0x008F, 0x0090, 0x2018,
    0x2019, 0x201C, 0x201D, 0x2022, 0x2013, 0x2014, 0x02DC, 0x2122, 0x0161, 0x203A, 0x0153, 0x009D, 0x017E, 0x0178,
];
/// WHATWG windows-1252 (the table encoding_rs implements)
fn w1252(b: &[u8]) -> String {
    b.iter()
        .map(|&c| {
            let cp = if c < 0x80 || c >= 0xA0 { c as u32 } else { W1252_HI[(c - 0x80) as usize] };
            char::from_u32(cp).unwrap()
        })
        .collect()
}
fn strip_nul(raw: &[u8]) -> &[u8] {
    if let Some((&0, r)) = raw.split_last() {
        r
    } else {
        raw
    }
}
fn float_text(n: usize, bits: u64) -> String {
    if n == 4 {
        format!("{}", f32::from_bits(bits as u32))
    } else {
        format!("{}", f64::from_bits(bits))
    }
}
fn word(be: bool, raw: &[u8]) -> u128 {
    let mut v: u128 = 0;
    if be {
        for b in raw {
            v = (v << 8) | *b as u128;
        }
    } else {
        for b in raw.iter().rev() {
            v = (v << 8) | *b as u128;
        }
    }
    v
}

/// table of the external functions' answers on the arguments the implementation decoded
fn oracle_table(args: &[ArgO]) -> Vec<(u64, Vec<u128>, Vec<u8>)> {
    let mut t: Vec<(u64, Vec<u128>, Vec<u8>)> = vec![];
    for a in args {
        if a.ti & 0x80 != 0 && (a.raw.len() == 4 || a.raw.len() == 8) {
            let bits = word(a.be, &a.raw);
            let k = if a.raw.len() == 4 { 0 } else { 1 };
            let e = (k, vec![bits], float_text(a.raw.len(), bits as u64).into_bytes());
            if !t.contains(&e) {
                t.push(e);
            }
        }
    }
    t
}

// ------------------------------------------------------------------ the property, evaluated on the implementation
#[derive(Clone, Copy, PartialEq, Debug)]
enum Kind {
    Bool,
    SInt,
    UInt,
    Float,
    Utf8,
    Ascii,
    Raw,
}
/// the typed values the property quantifies over (type word + raw length)
fn clean_kind(ti: u32, raw: &[u8]) -> Option<Kind> {
    let w = |t: u32| -> usize { [0, 1, 2, 4, 8, 16][t as usize] };
    match ti {
        0x11 if raw.len() == 1 && raw[0] <= 1 => Some(Kind::Bool),
        0x21..=0x25 if raw.len() == w(ti & 0xf) => Some(Kind::SInt),
        0x41..=0x45 if raw.len() == w(ti & 0xf) => Some(Kind::UInt),
        0x83 | 0x84 if raw.len() == w(ti & 0xf) => Some(Kind::Float),
        0x8200 if raw.len() <= 0xffff => Some(Kind::Utf8),
        0x200 if raw.len() <= 0xffff => Some(Kind::Ascii),
        0x400 if raw.len() <= 0xffff => Some(Kind::Raw),
        _ => None,
    }
}
fn enc_len(k: Kind, raw: &[u8]) -> usize {
    4 + raw.len() + if matches!(k, Kind::Utf8 | Kind::Ascii | Kind::Raw) { 2 } else { 0 }
}
fn nl(s: &str) -> String {
    s.chars().map(|c| if c == '\r' || c == '\n' || c == '\t' { ' ' } else { c }).collect()
}
fn canon(k: Kind, be: bool, raw: &[u8]) -> String {
    match k {
        Kind::Bool => (if raw[0] != 0 { "true" } else { "false" }).to_string(),
        Kind::UInt => word(be, raw).to_string(),
        Kind::SInt => {
            let bits = 8 * raw.len() as u32;
            let v = word(be, raw);
            if bits == 128 {
                (v as i128).to_string()
            } else if v >> (bits - 1) != 0 {
                (v as i128 - (1i128 << bits)).to_string()
            } else {
                v.to_string()
            }
        }
        Kind::Float => float_text(raw.len(), word(be, raw) as u64),
        Kind::Raw => raw.iter().map(|b| format!("{:02x}", b)).collect::<Vec<_>>().join(" "),
        Kind::Utf8 => nl(&String::from_utf8_lossy(strip_nul(raw))),
        Kind::Ascii => nl(&w1252(strip_nul(raw))),
    }
}
fn sv_expected(v: &Sv) -> Option<(u32, Vec<u8>)> {
    // little-endian host
    let le = |n: usize, x: u64| x.to_le_bytes()[..n].to_vec();
    let w = |t: u8| -> usize { [0, 1, 2, 4, 8][t as usize] };
    Some(match v {
        Sv::Bool(b) => (0x11, vec![*b as u8]),
        Sv::Int(t, x) => (0x20 | *t as u32, le(w(*t), *x)),
        Sv::UInt(t, x) => (0x40 | *t as u32, le(w(*t), *x)),
        Sv::Float(t, x) => (0x80 | *t as u32, le(w(*t), *x)),
        Sv::Str(s) => {
            let mut b = expand(s);
            b.push(0);
            (0x8200, b)
        }
        Sv::Char(c) => {
            let mut b = char::from_u32(*c).unwrap_or('?').to_string().into_bytes();
            b.push(0);
            (0x8200, b)
        }
        Sv::Bytes(s) => (0x400, expand(s)),
        Sv::Ascii(s) => (0x200, expand(s)),
        Sv::SomeV(x) => return sv_expected(x),
        Sv::Unit | Sv::NoneV | Sv::Seq => return None,
    })
}

// ------------------------------------------------------------------ the property on the crate's own producers
enum Rest {
    Bytes(Vec<u8>),
    U64(u64),
    LogInfo(Vec<u8>),
}
/// what the producer was given to encode
enum Intent {
    NoMsg,
    /// typed arguments (type word, raw value as the producer's byte order requires is derived from the message's flag)
    Verbose { args: Vec<Val>, check_noar: bool },
    NonVerbose { id: u32, rest: Rest },
    /// any message is fine as long as it is consistent (noar = decodable arguments)
    Consistent,
}
fn intent(p: &Prod) -> Intent {
    let strv = |t: &[u8]| {
        let mut raw = t.to_vec();
        raw.push(0);
        Val::Str(true, lit(&raw))
    };
    match p {
        Prod::ExportInfo { texts, k, .. } => {
            let t = expand(&texts[*k as usize]);
            if export_text_written(&t) {
                Intent::Verbose { args: vec![strv(&t)], check_noar: true }
            } else {
                Intent::NoMsg
            }
        }
        Prod::BlfAppText { text, .. } => {
            // a text too long for one message is carried as far as it fits
            let t = blf_fit(&blf_text(&expand(text)));
            Intent::Verbose { args: vec![strv(&t)], check_noar: true }
        }
        Prod::BlfCan { id, data, .. } => Intent::NonVerbose { id: *id, rest: Rest::Bytes(data.clone()) },
        Prod::Anon { be, verbose, payload, rt_us, .. } => {
            if *verbose {
                // the header's noar is left as it was by the plugin: not part of the statement
                Intent::Verbose { args: vec![strv(format!("--anon,reception_time:{}ms", rt_us / 1000).as_bytes())], check_noar: false }
            } else {
                let pl = expand(payload);
                if pl.len() >= 4 {
                    Intent::NonVerbose { id: word(*be, &pl[0..4]) as u32, rest: Rest::U64(rt_us / 1000) }
                } else {
                    Intent::Consistent
                }
            }
        }
        Prod::TextLog { .. } => Intent::Verbose { args: vec![], check_noar: true },
        Prod::ApidInfo { kind, tag } => {
            let t = if *kind == 3 { tag.trim() } else { tag.trim_end() };
            if t.is_empty() && *kind != 3 {
                Intent::NoMsg
            } else {
                Intent::NonVerbose { id: 3, rest: Rest::LogInfo(t.as_bytes().to_vec()) }
            }
        }
        Prod::AscCan { id, data, .. } => Intent::NonVerbose { id: *id, rest: Rest::Bytes(data.clone()) },
    }
}

fn oracle_produced(p: &Prod, ex: &Exec, dec: &Decoded) -> Verdict {
    let fail = |c: &str, d: String| Verdict::Fail { clause: c.into(), detail: d };
    let m = ex.built.as_ref().unwrap();
    let flag = m.is_big_endian();
    if let Some(a) = dec.args.iter().find(|a| a.be != flag) {
        return fail("producer_flag", format!("argument {:x} carries another byte order than the message", a.ti));
    }
    let consistent = |what: &str| -> Option<Verdict> {
        if m.is_verbose() && m.noar() as usize != dec.args.len() {
            Some(fail("producer_noar", format!("{}: noar {} but {} decodable argument(s) (is_big_endian={}, payload {:?})", what, m.noar(), dec.args.len(), flag, &m.payload[..m.payload.len().min(12)])))
        } else {
            None
        }
    };
    match intent(p) {
        Intent::NoMsg => fail("producer_skip", "a message was built for an input that has nothing to encode".into()),
        Intent::Consistent => consistent("message").unwrap_or(Verdict::Ok),
        Intent::Verbose { args, check_noar } => {
            if !m.is_verbose() {
                return fail("producer_verbose", "the message built is not verbose".into());
            }
            if check_noar {
                if let Some(v) = consistent("verbose message") {
                    return v;
                }
            }
            let want: Vec<(u32, bool, Vec<u8>)> = args.iter().map(|v| val_arg(v, flag)).map(|a| (a.0, a.1, expand(&a.2))).collect();
            if dec.args.len() != want.len() {
                return fail("producer_decode_encode", format!("encoded {} argument(s), decoded {} (is_big_endian={}, payload {:?})", want.len(), dec.args.len(), flag, &m.payload[..m.payload.len().min(12)]));
            }
            for (n, (a, w)) in dec.args.iter().zip(want.iter()).enumerate() {
                if a.ti != w.0 || a.raw != w.2 {
                    return fail("producer_decode_encode", format!("argument {}: type {:x} raw {:?}, encoded {:x} {:?}", n, a.ti, &a.raw[..a.raw.len().min(16)], w.0, &w.2[..w.2.len().min(16)]));
                }
            }
            let text = want.iter().map(|a| canon(clean_kind(a.0, &a.2).unwrap(), a.1, &a.2)).collect::<Vec<_>>().join(" ");
            match &ex.text {
                Some(Ok(t)) if *t == text => Verdict::Ok,
                Some(Ok(t)) => fail("producer_text_canonical", format!("got {:?} want {:?}", t.chars().take(60).collect::<String>(), text.chars().take(60).collect::<String>())),
                _ => fail("producer_text_canonical", "no text".into()),
            }
        }
        Intent::NonVerbose { id, rest } => {
            if m.is_verbose() {
                return fail("producer_verbose", "the message built is verbose".into());
            }
            let a0 = match dec.args.first() {
                Some(a) if a.raw.len() == 4 => a,
                _ => return fail("producer_decode_encode", "no message id".into()),
            };
            if word(flag, &a0.raw) as u32 != id {
                return fail("producer_decode_encode", format!("id {:#x} was written, {:#x} is read with the message's byte order (is_big_endian={})", id, word(flag, &a0.raw), flag));
            }
            let r: &[u8] = dec.args.get(1).map(|a| &a.raw[..]).unwrap_or(&[]);
            let ok = match &rest {
                Rest::Bytes(b) => r == &b[..],
                Rest::U64(v) => r.len() == 8 && word(flag, r) as u64 == *v,
                Rest::LogInfo(desc) => {
                    r.len() == 11 + desc.len()
                        && r[0] == 7
                        && word(flag, &r[1..3]) == 1
                        && m.apid().map(|a| a.as_buf()[..] == r[3..7]).unwrap_or(false)
                        && word(flag, &r[7..9]) == 0
                        && word(flag, &r[9..11]) as usize == desc.len()
                        && r[11..] == desc[..]
                }
            };
            if !ok {
                return fail("producer_decode_encode", format!("the data after the id does not read back with the message's byte order (is_big_endian={}): {:?}", flag, &r[..r.len().min(16)]));
            }
            Verdict::Ok
        }
    }
}

fn oracle(i: &Input, ex: &Exec) -> Verdict {
    let fail = |c: &str, d: String| Verdict::Fail { clause: c.into(), detail: d };
    if let Some(e) = &ex.enc_panic {
        return fail("no_panic_encode", e.clone());
    }
    if let Enc::Produced(p) = &i.enc {
        if let Some(x) = ex.issues.first() {
            return fail("producer_run", x.clone());
        }
        if ex.built_none {
            return match intent(p) {
                Intent::NoMsg | Intent::Consistent => Verdict::Ok,
                _ => fail("producer_missing", "no message was built".into()),
            };
        }
    }
    // the original typed arguments, if the input is in the property's domain
    let mut orig: Option<Vec<(u32, bool, Vec<u8>)>> = None;
    match &i.enc {
        Enc::Payload(_) | Enc::Produced(_) => {}
        Enc::FromArgs(args) => {
            let v: Vec<(u32, bool, Vec<u8>)> = args.iter().map(|a| (a.0, a.1, expand(&a.2))).collect();
            if !v.is_empty() && v.iter().all(|a| a.1 == v[0].1 && clean_kind(a.0, &a.2).is_some()) && i.be == v[0].1 {
                orig = Some(v);
            }
        }
        Enc::Serde(vals) => {
            let exp: Vec<Option<(u32, Vec<u8>)>> = vals.iter().map(sv_expected).collect();
            let supported = exp.iter().all(|e| e.is_some());
            let fits = exp.iter().flatten().all(|e| e.1.len() <= 0xffff);
            if supported && fits && vals.len() <= 255 {
                match ex.enc_err {
                    Some(k) => return fail("serde_encode_ok", format!("supported values refused with error kind {}", k)),
                    None => {
                        if ex.enc_noar != Some(vals.len() as u8) {
                            return fail("serde_noar", format!("noar {:?} for {} values", ex.enc_noar, vals.len()));
                        }
                    }
                }
                if !i.be {
                    orig = Some(exp.into_iter().flatten().map(|e| (e.0, false, e.1)).collect());
                }
            } else if ex.enc_err.is_none() {
                return fail("serde_encode_err", "unsupported or oversized value accepted".into());
            }
        }
    }
    if ex.enc_err.is_some() {
        return Verdict::Ok;
    }
    let dec = match &ex.dec {
        Some(Ok(d)) => d,
        Some(Err(e)) => return fail("no_panic_decode", e.clone()),
        None => return Verdict::Ok,
    };
    if let Some(Err(e)) = &ex.text {
        return fail("no_panic_text", e.clone());
    }
    if !dec.for_loop_same {
        return fail("for_loop", "`for arg in &msg` differs from next() until None".into());
    }
    for (n, a) in dec.args.iter().chain(dec.extra.iter().flatten()).enumerate() {
        match a.off {
            Some(o) if o + a.raw.len() <= ex.payload.len() && ex.payload[o..o + a.raw.len()] == a.raw[..] => {}
            _ => return fail("in_bounds", format!("argument {} is not a slice of the payload", n)),
        }
    }
    if let Enc::Produced(p) = &i.enc {
        return oracle_produced(p, ex, dec);
    }
    if !(i.ext && i.verbose) {
        return Verdict::Ok;
    }
    let orig = match orig {
        Some(o) => o,
        None => return Verdict::Ok,
    };
    // number of leading arguments whose encoding is untouched by the mutation
    let mut intact = 0usize;
    let mut pos = 0usize;
    let limit = i.cut.map(|k| k as usize).unwrap_or(usize::MAX);
    let p0len = ex.payload0.as_ref().map(|p| p.len()).unwrap_or(0);
    for a in &orig {
        let k = clean_kind(a.0, &a.2).unwrap();
        let end = pos + enc_len(k, &a.2);
        let patched = i.patch.iter().any(|(pp, b)| {
            let pp = *pp as usize;
            pp >= pos && pp < end && pp < p0len && ex.payload0.as_ref().unwrap()[pp] != *b
        });
        if end > limit || patched {
            break;
        }
        intact += 1;
        pos = end;
    }
    let effective_patch = i.patch.iter().any(|(pp, b)| (*pp as usize) < p0len && ex.payload0.as_ref().unwrap()[*pp as usize] != *b && (*pp as usize) < limit);
    if dec.args.len() < intact {
        return fail("prefix", format!("{} arguments decoded, the first {} encodings are intact", dec.args.len(), intact));
    }
    for n in 0..intact {
        let (a, o) = (&dec.args[n], &orig[n]);
        if a.ti != o.0 || a.be != o.1 || a.raw != o.2 {
            return fail(if intact == orig.len() { "decode_encode" } else { "prefix" }, format!("argument {} differs: {:x} {:?}", n, a.ti, &a.raw[..a.raw.len().min(16)]));
        }
    }
    if !effective_patch && dec.args.len() != intact {
        return fail(if i.cut.is_some() { "truncation_prefix" } else { "decode_encode" }, format!("{} arguments decoded, expected {}", dec.args.len(), intact));
    }
    // canonical text of what was decoded when nothing was corrupted
    if !effective_patch {
        let want: Vec<String> = orig[..intact].iter().map(|a| canon(clean_kind(a.0, &a.2).unwrap(), a.1, &a.2)).collect();
        let want = want.join(" ");
        if let Some(Ok(t)) = &ex.text {
            if *t != want {
                let cut = |s: &str| s.chars().take(60).collect::<String>();
                return fail("text_canonical", format!("got {:?} want {:?}", cut(t), cut(&want)));
            }
        }
    }
    Verdict::Ok
}

// ------------------------------------------------------------------ Coq terms / observations
fn c_bytes(b: &[u8]) -> String {
    cnums(b)
}
fn c_segs(s: &Segs) -> String {
    clist(&s.iter().map(|(b, n)| format!("({}, {})", c_bytes(b), n)).collect::<Vec<_>>())
}
fn c_sv(v: &Sv) -> String {
    match v {
        Sv::Bool(b) => format!("IBool {}", cbool(*b)),
        Sv::Int(t, x) => format!("IInt {} {}", t, x),
        Sv::UInt(t, x) => format!("IUInt {} {}", t, x),
        Sv::Float(t, x) => format!("IFloat {} {}", t, x),
        Sv::Str(s) => format!("IStr {}", c_segs(s)),
        Sv::Bytes(s) => format!("IBytes {}", c_segs(s)),
        Sv::Ascii(s) => format!("IAscii {}", c_segs(s)),
        Sv::Char(c) => format!("IStr {}", c_segs(&lit(char::from_u32(*c).unwrap_or('?').to_string().as_bytes()))),
        Sv::SomeV(x) => c_sv(x),
        Sv::Unit | Sv::NoneV | Sv::Seq => "IUnit".to_string(),
    }
}
/// the text the blf converter hands to the serializer, keeping a structural description of big fills
fn blf_text_segs(text: &Segs) -> Segs {
    let big = text.iter().any(|x| x.1 > 1000);
    let clean = text.iter().all(|x| x.1 == 0 || (std::str::from_utf8(&x.0).is_ok() && !x.0.contains(&0)));
    if big && clean {
        text.clone()
    } else {
        lit(&blf_text(&expand(text)))
    }
}
fn c_prod(p: &Prod, built: Option<&DltMessage>) -> String {
    match p {
        Prod::ExportInfo { src_be, texts, k, .. } => format!("PExportInfo {} {}", cbool(*src_be), c_segs(&texts[*k as usize])),
        Prod::BlfAppText { text, .. } => format!("PBlfAppText {}", c_segs(&blf_text_segs(text))),
        Prod::BlfCan { id, data, .. } | Prod::AscCan { id, data, .. } => format!("PCanFrame {} {}", id, c_segs(&lit(data))),
        Prod::Anon { be, verbose, noar, payload, rt_us } => format!("PAnon {} {} {} {} {}", cbool(*be), cbool(*verbose), noar, c_segs(payload), rt_us),
        Prod::TextLog { .. } => "PTextLog".to_string(),
        Prod::ApidInfo { kind, tag } => {
            let t = if *kind == 3 { tag.trim() } else { tag.trim_end() };
            let apid: Vec<u8> = built.and_then(|m| m.apid()).map(|a| a.as_buf().to_vec()).unwrap_or_default();
            format!("PApidInfo {} {} {}", cbool(*kind != 3), c_bytes(&apid), c_segs(&lit(t.as_bytes())))
        }
    }
}
fn c_input(i: &Input, tbl: &[(u64, Vec<u128>, Vec<u8>)], built: Option<&DltMessage>) -> String {
    let enc = match &i.enc {
        Enc::Produced(p) => format!("EProduced ({})", c_prod(p, built)),
        Enc::Payload(s) => format!("EPayload {}", c_segs(s)),
        Enc::FromArgs(a) => format!("EFromArgs {}", clist(&a.iter().map(|x| format!("({}, {}, {})", x.0, cbool(x.1), c_segs(&x.2))).collect::<Vec<_>>())),
        Enc::Serde(v) => format!("ESerde {}", clist(&v.iter().map(c_sv).collect::<Vec<_>>())),
    };
    format!(
        "(mkcase {} {} {} ({}) {} {} {})",
        cbool(i.ext && i.verbose),
        cbool(i.be),
        i.noar,
        enc,
        clist(&i.patch.iter().map(|(p, b)| format!("({}, {})", p, b)).collect::<Vec<_>>()),
        copt(i.cut.map(|k| k.to_string())),
        clist(&tbl.iter().map(|(k, key, v)| format!("({}, {}, {})", k, cnums(key), c_bytes(v))).collect::<Vec<_>>())
    )
}
fn bhash(b: &[u8]) -> (u128, u128, u128) {
    let (mut h1, mut h2, mut h3) = (0u128, 0u128, 0u128);
    for x in b {
        h1 += *x as u128 + 1;
        h2 += h1;
        h3 += h2;
    }
    (h1, h2, h3)
}
fn o_bytes(b: &[u8]) -> O {
    let mut v = vec![];
    let mut k = 0;
    while k < b.len() {
        let mut n = 1;
        while k + n < b.len() && b[k + n] == b[k] {
            n += 1;
        }
        if n == 1 {
            v.push(O::n(b[k]));
        } else {
            v.push(O::T(vec![O::n(b[k]), O::n(n as u64)]));
        }
        k += n;
    }
    if v.len() > 600 {
        let h = bhash(b);
        return O::T(vec![O::L(4096), O::n(b.len() as u64), O::L(h.0), O::L(h.1), O::L(h.2)]);
    }
    O::T(v)
}
fn o_arg(a: &ArgO) -> O {
    O::T(vec![O::n(a.ti), O::b(a.be), o_bytes(&a.raw)])
}
fn observe(i: &Input, ex: &Exec) -> O {
    if ex.enc_panic.is_some() {
        return O::T(vec![O::T(vec![O::L(7)])]);
    }
    if let Some(k) = ex.enc_err {
        return O::T(vec![O::T(vec![O::L(1), O::n(k)])]);
    }
    if ex.built_none {
        return O::T(vec![O::T(vec![O::L(3)])]);
    }
    let eo = match &i.enc {
        Enc::Produced(_) => {
            let m = ex.built.as_ref().unwrap();
            O::T(vec![O::L(2), O::b(m.is_big_endian()), O::b(m.is_verbose()), O::n(m.noar()), o_bytes(&m.payload)])
        }
        Enc::Payload(_) => O::T(vec![]),
        Enc::FromArgs(_) => o_bytes(ex.payload0.as_ref().unwrap()),
        Enc::Serde(_) => O::T(vec![O::L(0), O::n(ex.enc_noar.unwrap()), o_bytes(ex.payload0.as_ref().unwrap())]),
    };
    match &ex.dec {
        Some(Ok(d)) => {
            let text = match &ex.text {
                None => O::T(vec![]),
                Some(Ok(t)) => O::T(vec![O::L(0), o_bytes(t.as_bytes())]),
                Some(Err(_)) => O::T(vec![O::L(1)]),
            };
            O::T(vec![
                eo,
                O::T(vec![O::L(0), O::T(d.args.iter().map(o_arg).collect())]),
                text,
                O::T(d.extra.iter().map(|e| O::opt(e.as_ref().map(o_arg))).collect()),
            ])
        }
        _ => O::T(vec![eo, O::T(vec![O::L(1)])]),
    }
}

fn record(sink: &mut Sink, i: Input) {
    let ex = run_impl(&i);
    let verdict = oracle(&i, &ex);
    let tbl = match &ex.dec {
        Some(Ok(d)) => oracle_table(&d.args),
        _ => vec![],
    };
    let obs = observe(&i, &ex);
    let input_coq = c_input(&i, &tbl, ex.built.as_ref());
    let mut tags: Vec<String> = vec![];
    tags.push(match &i.enc {
        Enc::Payload(_) => "enc_payload".into(),
        Enc::FromArgs(_) => "enc_from_args".into(),
        Enc::Serde(_) => "enc_serde".into(),
        Enc::Produced(p) => match p {
            Prod::ExportInfo { src_be, .. } => format!("prod_export_info_src_{}", if *src_be { "be" } else { "le" }),
            Prod::BlfAppText { .. } => "prod_blf_apptext".into(),
            Prod::BlfCan { .. } => "prod_blf_can".into(),
            Prod::Anon { be, verbose, .. } => format!("prod_anon_{}_{}", if *verbose { "verbose" } else { "nonverbose" }, if *be { "be" } else { "le" }),
            Prod::TextLog { kind, .. } => format!("prod_textlog_{}", kind),
            Prod::ApidInfo { kind, .. } => format!("prod_apid_info_{}", kind),
            Prod::AscCan { fd, .. } => format!("prod_asc_can{}", if *fd { "fd" } else { "" }),
        },
    });
    let produced = matches!(i.enc, Enc::Produced(_));
    if produced {
        tags.push("producer".into());
        if ex.built_none {
            tags.push("producer_no_msg".into());
        }
    }
    let (m_be, m_verbose) = match &ex.built {
        Some(m) => (m.is_big_endian(), m.is_verbose()),
        None => (i.be, i.ext && i.verbose),
    };
    tags.push(if m_be { "big_endian".into() } else { "little_endian".into() });
    if !m_verbose {
        tags.push("non_verbose".into());
    }
    if i.cut.is_some() {
        tags.push("cut".into());
    }
    if !i.patch.is_empty() {
        tags.push("patch".into());
    }
    if !i.note.is_empty() {
        for n in i.note.split(',') {
            tags.push(format!("gen_{}", n));
        }
    }
    let mut ndec = 0;
    if let Some(Ok(d)) = &ex.dec {
        ndec = d.args.len();
        tags.push(format!("decoded{}", ndec.min(6)));
        for a in &d.args {
            let t = if a.ti & 0x10 != 0 {
                "bool"
            } else if a.ti & 0x40 != 0 {
                "uint"
            } else if a.ti & 0x20 != 0 {
                "sint"
            } else if a.ti & 0x80 != 0 {
                "floa"
            } else if a.ti & 0x400 != 0 {
                "rawd"
            } else if a.ti & 0x200 != 0 {
                "strg"
            } else {
                "other"
            };
            let tg = format!("arg_{}", t);
            if !tags.contains(&tg) {
                tags.push(tg);
            }
            if a.raw.len() > 1000 && !tags.contains(&"big_arg".to_string()) {
                tags.push("big_arg".into());
            }
        }
        if d.extra.iter().any(|e| e.is_some()) {
            tags.push("some_after_none".into());
        }
    }
    if ex.enc_err.is_some() {
        tags.push("enc_error".into());
    }
    if !tbl.is_empty() {
        tags.push("external_text".into());
    }
    let nontrivial = ndec >= 2 || (ndec >= 1 && (i.cut.is_some() || !i.patch.is_empty() || produced)) || ex.payload.len() >= 8;
    let id = sink.next_id();
    sink.push(Case {
        id,
        key: input_coq.clone(),
        input_coq,
        input_json: serde_json::to_value(&i).unwrap(),
        obs,
        verdict,
        classes: vec![],
        tags,
        nontrivial,
    });
}

// ------------------------------------------------------------------ generators
#[derive(Clone, Debug)]
enum Val {
    Bool(bool),
    SInt(u8, u128), // tyle, two's complement bits
    UInt(u8, u128),
    Float(u8, u64),
    Str(bool, Segs), // utf8?, wire bytes
    Raw(Segs),
}
fn width(t: u8) -> usize {
    [0, 1, 2, 4, 8, 16][t as usize]
}
fn mask(t: u8) -> u128 {
    if t == 5 {
        u128::MAX
    } else {
        (1u128 << (8 * width(t))) - 1
    }
}
fn val_arg(v: &Val, be: bool) -> (u32, bool, Segs) {
    let wb = |t: u8, x: u128| -> Segs {
        let le = x.to_le_bytes()[..width(t)].to_vec();
        lit(&if be { le.into_iter().rev().collect::<Vec<u8>>() } else { le })
    };
    match v {
        Val::Bool(b) => (0x11, be, lit(&[*b as u8])),
        Val::SInt(t, x) => (0x20 | *t as u32, be, wb(*t, *x)),
        Val::UInt(t, x) => (0x40 | *t as u32, be, wb(*t, *x)),
        Val::Float(t, x) => (0x80 | *t as u32, be, wb(*t, *x as u128)),
        Val::Str(true, s) => (0x8200, be, s.clone()),
        Val::Str(false, s) => (0x200, be, s.clone()),
        Val::Raw(s) => (0x400, be, s.clone()),
    }
}
/// serde value with the same wire form (if there is one)
fn val_sv(v: &Val) -> Option<Sv> {
    Some(match v {
        Val::Bool(b) => Sv::Bool(*b),
        Val::SInt(t, x) if *t <= 4 => Sv::Int(*t, *x as u64),
        Val::UInt(t, x) if *t <= 4 => Sv::UInt(*t, *x as u64),
        Val::Float(t, x) => Sv::Float(*t, *x),
        Val::Str(true, s) => {
            // the serializer appends the NUL itself; content must be valid UTF-8
            let b = expand(s);
            let b = strip_nul(&b).to_vec();
            if std::str::from_utf8(&b).is_err() {
                return None;
            }
            if s.len() == 1 && s[0].1 > 1 {
                let mut s2 = s.clone();
                // big fill: keep the structure, drop nothing (fill bytes are not NUL)
                if s2[0].0.iter().any(|c| *c == 0) {
                    return None;
                }
                s2.truncate(1);
                Sv::Str(s2)
            } else {
                Sv::Str(lit(&b))
            }
        }
        Val::Str(false, s) => Sv::Ascii(s.clone()),
        Val::Raw(s) => Sv::Bytes(s.clone()),
        _ => return None,
    })
}

fn gen_int_bits(rng: &mut Rng, t: u8) -> u128 {
    let m = mask(t);
    let half = (m >> 1) + 1; // sign bit
    match rng.below(10) {
        0 => 0,
        1 => 1,
        2 => m,            // -1 / MAX
        3 => half,         // MIN
        4 => half - 1,     // signed MAX
        5 => m - 1,        // -2 / MAX-1
        6 => half + 1,     // MIN+1
        7 => rng.below(1000) as u128 & m,
        8 => m.wrapping_sub(rng.below(1000) as u128) & m,
        _ => (((rng.next() as u128) << 64) | rng.next() as u128) & m,
    }
}
fn gen_float_bits(rng: &mut Rng, t: u8) -> u64 {
    if t == 3 {
        let c: [u32; 14] = [0, 0x8000_0000, 0x3f80_0000, 0xbf80_0000, 0x7f80_0000, 0xff80_0000, 0x7fc0_0000, 0x7fa0_0001, 0xffc0_0000, 1, 0x007f_ffff, 0x7f7f_ffff, 0x0080_0000, 0x4049_0fdb];
        if rng.chance(2, 3) {
            *rng.pick(&c) as u64
        } else {
            rng.next() as u32 as u64
        }
    } else {
        let c: [u64; 13] = [0, 0x8000_0000_0000_0000, 0x3ff0_0000_0000_0000, 0x7ff0_0000_0000_0000, 0xfff0_0000_0000_0000, 0x7ff8_0000_0000_0000, 0x7ff4_0000_0000_0001, 1, 0x000f_ffff_ffff_ffff, 0x7fef_ffff_ffff_ffff, 0x0010_0000_0000_0000, 0x4009_21fb_5444_2d18, 0x4340_0000_0000_0000];
        if rng.chance(2, 3) {
            *rng.pick(&c)
        } else {
            rng.next()
        }
    }
}
/// string / raw content classes; returns (segments, class tag)
/// byte-order marks: a decoder that sniffs for them (`Encoding::decode` instead of
/// `decode_without_bom_handling`) strips them and switches to UTF-8 / UTF-16
const BOMS: [&[u8]; 3] = [&[0xef, 0xbb, 0xbf], &[0xff, 0xfe], &[0xfe, 0xff]];
fn gen_bom_bytes(rng: &mut Rng) -> Vec<u8> {
    let bom = *rng.pick(&BOMS[..]);
    let n = rng.range(0, 7);
    let tail: Vec<u8> = match rng.below(5) {
        0 => vec![],                                                        // the mark alone
        1 => (0..n).map(|_| rng.range(0x20, 0x7e) as u8).collect(),         // ASCII
        2 => (0..n).map(|_| rng.range(0x80, 0xff) as u8).collect(),         // high bytes
        3 => (0..(2 * rng.range(0, 3) + 1)).map(|_| *rng.pick(&[b'a', 0x00, 0xe4, 0x20, 0xd8, 0xdc])).collect(), // odd length (UTF-16)
        _ => (0..(2 * rng.range(1, 3))).map(|_| *rng.pick(&[b'a', 0x00, 0xe4, 0x0a, 0xd8, 0xdc])).collect(),     // even length
    };
    let mut v = vec![];
    if rng.chance(1, 4) {
        // the mark in the middle of the string
        let m = rng.range(1, 4);
        v.extend((0..m).map(|_| rng.range(0x41, 0x5a) as u8));
    }
    v.extend_from_slice(bom);
    v.extend_from_slice(&tail);
    if rng.chance(1, 5) {
        v.extend_from_slice(*rng.pick(&BOMS[..]));
    }
    v
}
fn gen_bytes(rng: &mut Rng, big_ok: bool, for_str: bool) -> (Segs, &'static str) {
    let mut tag = "ascii";
    if rng.chance(1, 8) {
        let mut segs = lit(&gen_bom_bytes(rng));
        if for_str {
            match rng.below(3) {
                0 => {}
                _ => segs.push((vec![0], 1)),
            }
        }
        return (segs, "bom");
    }
    let mut segs: Segs = match rng.below(if big_ok { 12 } else { 11 }) {
        0 => {
            tag = "empty";
            vec![]
        }
        1 | 2 => {
            let n = rng.range(1, 12);
            lit(&(0..n).map(|_| rng.range(0x20, 0x7e) as u8).collect::<Vec<u8>>())
        }
        3 | 4 => {
            tag = "control";
            let n = rng.range(1, 10);
            lit(&(0..n).map(|_| *rng.pick(&[b'\r', b'\n', b'\t', 0u8, 0x7f, 0x1b, b'a', b' ', 0x0b, 0x0c, 0x01])).collect::<Vec<u8>>())
        }
        5 | 6 => {
            tag = "utf8_multibyte";
            let parts: [&str; 8] = ["é", "€", "😀", "\u{fffd}", "ä\n", "a", "\u{7ff}", "\u{800}\t"];
            let n = rng.range(1, 5);
            let mut v = vec![];
            for _ in 0..n {
                v.extend_from_slice(rng.pick(&parts).as_bytes());
            }
            lit(&v)
        }
        7 | 8 => {
            tag = "non_utf8";
            let parts: [&[u8]; 12] = [&[0x80], &[0xc3], &[0xe2, 0x82], &[0xff], &[0xed, 0xa0, 0x80], &[0xf8], &[0xc0, 0xaf], &[0xf0, 0x9f, 0x98], &[b'a'], &[0x9d], &[0xa0, 0xfe], &[b'\n']];
            let n = rng.range(1, 5);
            let mut v = vec![];
            for _ in 0..n {
                v.extend_from_slice(*rng.pick(&parts[..]));
            }
            lit(&v)
        }
        9 => {
            tag = "bytes_any";
            let n = rng.range(1, 16);
            lit(&(0..n).map(|_| rng.next() as u8).collect::<Vec<u8>>())
        }
        10 => {
            tag = "fill_medium";
            vec![(vec![rng.range(0x61, 0x7a) as u8], rng.range(200, 400))]
        }
        _ => {
            tag = "fill_max";
            let n = *rng.pick(&[65535u64, 65534, 65533, 65532]);
            vec![(vec![if rng.chance(1, 4) { 0 } else { rng.range(0x61, 0x7a) as u8 }], n)]
        }
    };
    if for_str && tag != "fill_max" {
        // 0, 1 or 2 terminating NULs
        match rng.below(4) {
            0 => {}
            3 => segs.push((vec![0], 2)),
            _ => segs.push((vec![0], 1)),
        }
    }
    (segs, tag)
}
fn gen_val(rng: &mut Rng, big_ok: bool, notes: &mut Vec<String>) -> Val {
    let mut note = |s: &str| {
        let s = s.to_string();
        if !notes.contains(&s) {
            notes.push(s)
        }
    };
    match rng.below(12) {
        0 => Val::Bool(rng.chance(1, 2)),
        1 | 2 | 3 => {
            let t = if rng.chance(1, 12) { 5 } else { rng.range(1, 4) as u8 };
            Val::SInt(t, gen_int_bits(rng, t))
        }
        4 | 5 => {
            let t = if rng.chance(1, 12) { 5 } else { rng.range(1, 4) as u8 };
            Val::UInt(t, gen_int_bits(rng, t))
        }
        6 | 7 => {
            let t = rng.range(3, 4) as u8;
            Val::Float(t, gen_float_bits(rng, t))
        }
        8 | 9 | 10 => {
            let (s, tag) = gen_bytes(rng, big_ok, true);
            note(&format!("str_{}", tag));
            Val::Str(rng.chance(2, 3), s)
        }
        _ => {
            let (s, tag) = gen_bytes(rng, big_ok, false);
            note(&format!("raw_{}", tag));
            Val::Raw(s)
        }
    }
}
fn gen_vals(rng: &mut Rng, max: u64, big_ok: bool, notes: &mut Vec<String>) -> Vec<Val> {
    let n = match rng.below(8) {
        0 => 0,
        1 => 1,
        _ => rng.range(1, max),
    };
    let mut big_used = false;
    (0..n)
        .map(|_| {
            let v = gen_val(rng, big_ok && !big_used, notes);
            if let Val::Str(_, s) | Val::Raw(s) = &v {
                if s.iter().any(|x| x.1 > 1000) {
                    big_used = true;
                }
            }
            v
        })
        .collect()
}
fn base_input(rng: &mut Rng, be: bool, enc: Enc) -> Input {
    Input { ext: true, verbose: true, be, noar: *rng.pick(&[0u8, 1, 2, 3, 7, 255]), enc, patch: vec![], cut: None, note: String::new() }
}
fn gen_dirty_ti(rng: &mut Rng) -> u32 {
    if rng.chance(1, 10) {
        return rng.next() as u32;
    }
    let mut ti: u32 = match rng.below(4) {
        0 => rng.below(16) as u32,
        _ => rng.below(7) as u32,
    };
    // usually one type bit, sometimes none or several
    let bits: [u32; 11] = [0x10, 0x20, 0x40, 0x80, 0x100, 0x200, 0x400, 0x800, 0x1000, 0x2000, 0x4000];
    match rng.below(10) {
        0 => {}
        1 | 2 => {
            ti |= *rng.pick(&bits);
            ti |= *rng.pick(&bits);
        }
        _ => ti |= *rng.pick(&bits[..7]),
    }
    if rng.chance(1, 3) {
        ti |= (rng.below(8) as u32) << 15;
    }
    if rng.chance(1, 12) {
        ti |= 1 << rng.range(18, 31);
    }
    ti
}
/// arbitrary bytes that look like an argument list
fn gen_payload(rng: &mut Rng, be: bool) -> Vec<u8> {
    let mut p = vec![];
    if rng.chance(1, 4) {
        let n = rng.size(40);
        return (0..n).map(|_| rng.next() as u8).collect();
    }
    let n = rng.range(1, 5);
    for _ in 0..n {
        let ti = gen_dirty_ti(rng);
        p.extend_from_slice(&if be { ti.to_be_bytes() } else { ti.to_le_bytes() });
        if ti & 0x600 != 0 && rng.chance(4, 5) {
            let claimed = match rng.below(6) {
                0 => 0u16,
                1 => 0xffff,
                2 => rng.next() as u16,
                _ => rng.below(12) as u16,
            };
            p.extend_from_slice(&if be { claimed.to_be_bytes() } else { claimed.to_le_bytes() });
            let have = if rng.chance(3, 4) { (claimed as u64).min(20) } else { rng.below(12) };
            for _ in 0..have {
                p.push(rng.next() as u8);
            }
        } else {
            let have = if rng.chance(3, 4) { width(((ti & 0xf) as u8).min(5)) as u64 } else { rng.below(18) };
            for _ in 0..have {
                p.push(match rng.below(4) {
                    0 => 0,
                    1 => 1,
                    _ => rng.next() as u8,
                });
            }
        }
    }
    p
}

fn from_vals(rng: &mut Rng, vals: &[Val], be: bool, notes: Vec<String>) -> Input {
    let mut i = base_input(rng, be, Enc::FromArgs(vals.iter().map(|v| val_arg(v, be)).collect()));
    i.note = notes.join(",");
    i
}
/// offsets (start, field ranges) of the clean encoding
fn field_positions(vals: &[Val], be: bool) -> Vec<(usize, Vec<(usize, usize)>)> {
    let mut pos = 0usize;
    let mut out = vec![];
    for v in vals {
        let (ti, _, s) = val_arg(v, be);
        let raw = expand(&s);
        let mut fields = vec![(pos, pos + 4)];
        let mut p = pos + 4;
        if ti & 0x600 != 0 {
            fields.push((p, p + 2));
            p += 2;
        }
        if !raw.is_empty() {
            fields.push((p, p + raw.len()));
        }
        p += raw.len();
        out.push((pos, fields));
        pos = p;
    }
    out
}

fn generate(sink: &mut Sink, rng: &mut Rng, n: u64, thorough: bool) {
    let mut produced = 0u64;
    while produced < n {
        let be = rng.chance(1, 2);
        let mut notes = vec![];
        match rng.below(20) {
            // clean round trips through payload_from_args
            0..=4 | 9 => {
                let big = rng.chance(1, 12);
                let vals = gen_vals(rng, if thorough { 8 } else { 5 }, big, &mut notes);
                let i = from_vals(rng, &vals, be, notes);
                record(sink, i);
                produced += 1;
            }
            // clean round trips through the serde serializer
            5..=7 => {
                let big = rng.chance(1, 12);
                let vals = gen_vals(rng, 5, big, &mut notes);
                let mut svs: Vec<Sv> = vals.iter().filter_map(val_sv).collect();
                if rng.chance(1, 6) && !svs.is_empty() {
                    let k = rng.below(svs.len() as u64) as usize;
                    let c = *rng.pick(&[0x61u32, 0xe9, 0x20ac, 0x1f600, 0x0a, 0]);
                    svs[k] = match rng.below(4) {
                        0 => Sv::Char(c),
                        1 => Sv::SomeV(Box::new(svs[k].clone())),
                        2 => Sv::Char(c),
                        _ => Sv::SomeV(Box::new(Sv::UInt(4, rng.next()))),
                    };
                }
                if rng.chance(1, 12) {
                    let k = rng.below(svs.len() as u64 + 1) as usize;
                    svs.insert(k, rng.pick(&[Sv::Unit, Sv::NoneV, Sv::Seq]).clone());
                    notes.push("serde_unsupported".into());
                }
                if rng.chance(1, 25) {
                    let k = rng.below(svs.len() as u64 + 1) as usize;
                    let big = match rng.below(4) {
                        0 => Sv::Str(vec![(vec![b'x'], 65535)]),
                        1 => Sv::Str(vec![(vec![b'x'], 65534)]),
                        2 => Sv::Bytes(vec![(vec![7], 65536)]),
                        _ => Sv::Ascii(vec![(vec![b'y'], 65536)]),
                    };
                    svs.insert(k, big);
                    notes.push("serde_size_limit".into());
                }
                // the serializer writes host order; a big-endian message header makes it a malformed-input case
                let mbe = rng.chance(1, 10);
                let mut i = base_input(rng, mbe, Enc::Serde(svs));
                i.note = notes.join(",");
                record(sink, i);
                produced += 1;
            }
            // truncation: a few cuts of a small clean list
            8 => {
                let vals = gen_vals(rng, 4, false, &mut notes);
                let i0 = from_vals(rng, &vals, be, notes);
                let len = field_positions(&vals, be).last().map(|f| f.1.last().unwrap().1).unwrap_or(0);
                let cuts: Vec<u64> = if len <= 12 { (0..=len as u64).collect() } else { (0..6).map(|_| rng.below(len as u64 + 1)).collect() };
                for k in cuts {
                    let mut i = i0.clone();
                    i.cut = Some(k);
                    record(sink, i);
                    produced += 1;
                }
            }
            // single-field corruption
            10..=12 => {
                let mut vals = gen_vals(rng, 4, false, &mut notes);
                if vals.is_empty() {
                    vals.push(Val::UInt(2, 513));
                }
                let i0 = from_vals(rng, &vals, be, notes);
                let fp = field_positions(&vals, be);
                for _ in 0..3 {
                    let a = rng.below(fp.len() as u64) as usize;
                    let f = rng.pick(&fp[a].1).clone();
                    let mut i = i0.clone();
                    let nb = if f.1 - f.0 <= 4 && rng.chance(1, 2) { f.1 - f.0 } else { 1 };
                    let start = f.0 + rng.below((f.1 - f.0 - nb + 1) as u64) as usize;
                    for q in 0..nb {
                        let rb = rng.next() as u8;
                        i.patch.push(((start + q) as u64, *rng.pick(&[0u8, 0xff, 1, 0x80, 0x10, 0x02, 0x08, rb])));
                    }
                    if rng.chance(1, 6) {
                        i.cut = Some(rng.below(fp.last().unwrap().1.last().unwrap().1 as u64 + 1));
                    }
                    record(sink, i);
                    produced += 1;
                }
            }
            // arbitrary payloads
            13..=16 => {
                let p = gen_payload(rng, be);
                let mut i = base_input(rng, be, Enc::Payload(lit(&p)));
                i.noar = rng.next() as u8;
                if rng.chance(1, 6) {
                    i.verbose = false;
                    if rng.chance(1, 3) {
                        i.ext = false;
                    }
                }
                record(sink, i);
                produced += 1;
            }
            // DltArg lists outside the typed domain (odd type words, wrong widths, mixed byte order)
            _ => {
                let n = rng.range(1, 4);
                let args: Vec<(u32, bool, Segs)> = (0..n)
                    .map(|_| {
                        if rng.chance(1, 3) {
                            let v = gen_val(rng, false, &mut notes);
                            val_arg(&v, if rng.chance(1, 5) { !be } else { be })
                        } else {
                            let ti = gen_dirty_ti(rng);
                            let len = if rng.chance(1, 2) { width(((ti & 0xf) as u8).min(5)) as u64 } else { rng.below(10) };
                            (ti, if rng.chance(1, 8) { !be } else { be }, lit(&(0..len).map(|_| rng.next() as u8).collect::<Vec<u8>>()))
                        }
                    })
                    .collect();
                let mbe = if rng.chance(1, 8) { !be } else { be };
                let mut i = base_input(rng, mbe, Enc::FromArgs(args));
                notes.push("dirty_args".into());
                i.note = notes.join(",");
                record(sink, i);
                produced += 1;
            }
        }
    }
}

// ------------------------------------------------------------------ generators for the crate's own producers
fn prod_input(p: Prod, note: &str) -> Input {
    Input { ext: true, verbose: true, be: false, noar: 0, enc: Enc::Produced(p), patch: vec![], cut: None, note: note.into() }
}
/// valid UTF-8 text: ASCII, multi-byte, control characters, embedded / trailing NUL, empty, fills up to and beyond the
/// serializer's limit and around what fits the 16-bit length of a standard header
fn gen_utf8_text(rng: &mut Rng, big_ok: bool) -> (Segs, &'static str) {
    match rng.below(if big_ok { 12 } else { 10 }) {
        0 => (vec![], "empty"),
        1 | 2 | 3 => {
            let n = rng.range(1, 30);
            (lit(&(0..n).map(|_| rng.range(0x20, 0x7e) as u8).collect::<Vec<u8>>()), "ascii")
        }
        4 | 5 => {
            let parts: [&str; 8] = ["é", "€", "😀", "\u{fffd}", "ä\n", "a b", "\u{7ff}", "\u{800}\t"];
            let n = rng.range(1, 6);
            let mut v = vec![];
            for _ in 0..n {
                v.extend_from_slice(rng.pick(&parts).as_bytes());
            }
            (lit(&v), "utf8_multibyte")
        }
        6 => {
            let n = rng.range(1, 8);
            (lit(&(0..n).map(|_| *rng.pick(&[b'\r', b'\n', b'\t', 0u8, 0x7f, 0x1b, b'a', b' '])).collect::<Vec<u8>>()), "control")
        }
        7 => {
            let mut v: Vec<u8> = (0..rng.range(0, 5)).map(|_| rng.range(0x41, 0x5a) as u8).collect();
            v.extend(std::iter::repeat(0u8).take(rng.range(1, 2) as usize));
            (lit(&v), "nul_end")
        }
        8 | 9 => (vec![(vec![rng.range(0x61, 0x7a) as u8], rng.range(200, 3000))], "fill_medium"),
        10 => (vec![(vec![rng.range(0x61, 0x7a) as u8], *rng.pick(&[60000u64, 65400, 65505, 65506, 65510]))], "fill_large"),
        _ => {
            let n = *rng.pick(&[65507u64, 65511, 65512, 65520, 65528, 65529, 65534, 65535, 65536, 70000]);
            if rng.chance(1, 3) {
                // multi-byte characters around the limits (a cut must not split one)
                (vec![(vec![b'a'], rng.range(0, 3)), ("é".as_bytes().to_vec(), n / 2)], "fill_too_large")
            } else {
                (vec![(vec![rng.range(0x61, 0x7a) as u8], n)], "fill_too_large")
            }
        }
    }
}
fn gen_tag(rng: &mut Rng) -> String {
    let n = match rng.below(6) {
        0 => 1,
        1 => rng.range(25, 300),
        _ => rng.range(2, 16),
    };
    let chars: Vec<char> = "abcdefghijklmnopqrstuvwxyzABCDEFGHIJKLMNOPQRSTUVWXYZ0123456789_./-".chars().collect();
    let mut t: String = (0..n).map(|_| *rng.pick(&chars)).collect();
    if rng.chance(1, 6) {
        let extra: [&str; 4] = ["é", "ß", "日本", "_ü_"];
        let e: &str = *rng.pick(&extra[..]);
        t.push_str(e);
    }
    t
}
fn gen_can_data(rng: &mut Rng, fd: bool) -> Vec<u8> {
    let n = if fd { *rng.pick(&[0u64, 1, 8, 12, 16, 24, 64]) } else { rng.range(0, 8) };
    (0..n).map(|_| match rng.below(4) { 0 => 0, 1 => 0xff, _ => rng.next() as u8 }).collect()
}
fn gen_can_id(rng: &mut Rng, ext: bool) -> u32 {
    match rng.below(6) {
        0 => 0,
        1 => 1,
        2 => if ext { 0x1fff_ffff } else { 0x7ff },
        3 => 0x100, // one significant byte that is not the low one
        _ => rng.next() as u32 & if ext { 0x1fff_ffff } else { 0x7ff },
    }
}
fn generate_producers(sink: &mut Sink, rng: &mut Rng, n: u64) {
    let mut produced = 0u64;
    while produced < n {
        match rng.below(20) {
            // export plugin: 1..4 info texts, first exported message of either byte order
            0..=5 => {
                let nt = rng.range(1, 4);
                let mut notes = vec![];
                let mut big_used = false;
                let texts: Vec<Segs> = (0..nt)
                    .map(|_| {
                        let (s, tag) = gen_utf8_text(rng, !big_used);
                        if s.iter().any(|x| x.1 > 10000) {
                            big_used = true;
                        }
                        notes.push(format!("info_{}", tag));
                        s
                    })
                    .collect();
                let src_be = rng.chance(1, 2);
                let more: Vec<bool> = (0..rng.below(3)).map(|_| rng.chance(1, 2)).collect();
                let ks: Vec<u64> = if rng.chance(1, 2) { (0..nt).collect() } else { vec![rng.below(nt)] };
                for k in ks {
                    record(sink, prod_input(Prod::ExportInfo { src_be, texts: texts.clone(), k, more: more.clone() }, &notes[k as usize]));
                    produced += 1;
                }
            }
            // blf AppText: any bytes
            6..=8 => {
                let (text, tag) = if rng.chance(1, 2) {
                    gen_utf8_text(rng, true)
                } else {
                    let (s, t) = gen_bytes(rng, false, true);
                    (s, t)
                };
                let source = *rng.pick(&[0u32, 1, 3, 17, 999, 1000, 70000]);
                record(sink, prod_input(Prod::BlfAppText { source, text, ts_ns: rng.below(1 << 40) }, &format!("apptext_{}", tag)));
                produced += 1;
            }
            9 => {
                let (ext, fd) = (rng.chance(1, 2), rng.chance(1, 4));
                let channel = rng.range(1, 4) as u16;
                let id = gen_can_id(rng, ext);
                record(sink, prod_input(Prod::BlfCan { channel, id, data: gen_can_data(rng, fd) }, ""));
                produced += 1;
            }
            // anonymize plugin on log messages of both byte orders
            10..=13 => {
                let be = rng.chance(1, 2);
                let verbose = rng.chance(2, 3);
                let payload: Segs = if verbose {
                    let mut notes = vec![];
                    let vals = gen_vals(rng, 3, false, &mut notes);
                    let args: Vec<(u32, bool, Vec<u8>)> = vals.iter().map(|v| val_arg(v, be)).map(|a| (a.0, a.1, expand(&a.2))).collect();
                    let dargs: Vec<DltArg> = args.iter().map(|a| DltArg { type_info: a.0, is_big_endian: a.1, payload_raw: &a.2 }).collect();
                    lit(&payload_from_args(&dargs))
                } else {
                    let n = *rng.pick(&[0u64, 3, 4, 5, 8, 20]);
                    lit(&(0..n).map(|_| rng.next() as u8).collect::<Vec<u8>>())
                };
                let rt_us = match rng.below(8) {
                    0 => 0,
                    1 => 999,
                    2 => 1000,
                    3 => u64::MAX,
                    4 => 1u64 << 63,
                    5 => 1_700_000_000_000_000,
                    _ => rng.next() >> rng.below(64),
                };
                record(sink, prod_input(Prod::Anon { be, verbose, noar: *rng.pick(&[0u8, 1, 2, 3, 255]), payload, rt_us }, ""));
                produced += 1;
            }
            // text converters
            14 | 15 => {
                let kind = rng.below(3) as u8;
                let (m, _) = gen_utf8_text(rng, false);
                let msg: String = String::from_utf8(expand(&m)).unwrap().chars().filter(|c| *c != '\n' && *c != '\r' && *c != '\0').collect();
                record(sink, prod_input(Prod::TextLog { kind, tag: gen_tag(rng), msg }, ""));
                produced += 1;
            }
            16 | 17 => {
                record(sink, prod_input(Prod::ApidInfo { kind: rng.below(4) as u8, tag: gen_tag(rng) }, ""));
                produced += 1;
            }
            _ => {
                let (fd, ext) = (rng.chance(1, 3), rng.chance(1, 2));
                let id = gen_can_id(rng, ext);
                record(sink, prod_input(Prod::AscCan { fd, ext, id, data: gen_can_data(rng, fd) }, ""));
                produced += 1;
            }
        }
    }
}
fn corpus_producers(sink: &mut Sink) {
    let t = |s: &str| lit(s.as_bytes());
    for src_be in [false, true] {
        // the info text of the export plugin's own unit test / of the demonstration, both source byte orders
        record(sink, prod_input(Prod::ExportInfo { src_be, texts: vec![t("Filters used: none")], k: 0, more: vec![] }, "corpus"));
        record(sink, prod_input(Prod::ExportInfo { src_be, texts: vec![t("a"), t(""), t("line1\nline2\ttab"), t("ü€")], k: 2, more: vec![!src_be, src_be] }, "corpus"));
        record(sink, prod_input(Prod::ExportInfo { src_be, texts: vec![t(""), t("x")], k: 0, more: vec![] }, "corpus"));
        // info texts that do not fit one message (fixed defect: a storage header without message corrupted the file)
        for n in [65510u64, 65511, 65534, 65535] {
            for k in 0..2 {
                record(sink, prod_input(Prod::ExportInfo { src_be, texts: vec![vec![(vec![b'x'], n)], t("after")], k, more: vec![] }, "corpus"));
            }
        }
        for verbose in [false, true] {
            record(sink, prod_input(Prod::Anon { be: src_be, verbose, noar: 2, payload: lit(&trigger_msg(src_be).payload), rt_us: 1_700_000_000_123_456 }, "corpus"));
            record(sink, prod_input(Prod::Anon { be: src_be, verbose, noar: 0, payload: vec![], rt_us: 0 }, "corpus"));
        }
    }
    record(sink, prod_input(Prod::BlfAppText { source: 0, text: t("comment\0"), ts_ns: 1000 }, "corpus"));
    record(sink, prod_input(Prod::BlfAppText { source: 1, text: vec![], ts_ns: 0 }, "corpus"));
    record(sink, prod_input(Prod::BlfAppText { source: 3, text: lit(&[0xff, b'a', 0xc3]), ts_ns: 5 }, "corpus"));
    // texts that do not fit one message (fixed defects: add overflow of the len field, unwrap of DataTooLarge)
    for n in [65506u64, 65507, 65528, 65534, 65535, 70000] {
        record(sink, prod_input(Prod::BlfAppText { source: 0, text: vec![(vec![b'y'], n)], ts_ns: 5 }, "corpus"));
    }
    record(sink, prod_input(Prod::BlfAppText { source: 0, text: vec![(vec![b'a'], 1), ("€".as_bytes().to_vec(), 21840)], ts_ns: 5 }, "corpus"));
    record(sink, prod_input(Prod::BlfCan { channel: 1, id: 0x36f, data: vec![0xf2, 0xf7, 0xfe, 0xff, 0x14] }, "corpus"));
    record(sink, prod_input(Prod::BlfCan { channel: 2, id: 0x1234_5678, data: vec![] }, "corpus"));
    for kind in 0..3u8 {
        record(sink, prod_input(Prod::TextLog { kind, tag: "auditd".into(), msg: "type=1400 audit(0.0:35): avc: denied".into() }, "corpus"));
        record(sink, prod_input(Prod::ApidInfo { kind, tag: "auditd".into() }, "corpus"));
    }
    record(sink, prod_input(Prod::ApidInfo { kind: 3, tag: "IuK_CAN".into() }, "corpus"));
    record(sink, prod_input(Prod::ApidInfo { kind: 3, tag: "".into() }, "corpus"));
    record(sink, prod_input(Prod::AscCan { fd: false, ext: false, id: 0x36f, data: vec![0xf2, 0xf7, 0xfe, 0xff, 0x14] }, "corpus"));
    record(sink, prod_input(Prod::AscCan { fd: false, ext: true, id: 0x18ff_1234, data: vec![] }, "corpus"));
    record(sink, prod_input(Prod::AscCan { fd: true, ext: false, id: 0x2d, data: vec![0x28, 0xf6, 0xff, 0x7f, 0xff, 0x7f, 0xff, 0x7f, 0xff, 0x7f, 0x11, 0x11] }, "corpus"));
}

fn corpus(sink: &mut Sink) {
    let mut rng = Rng::new(4242);
    let bi = |be: bool, enc: Enc| Input { ext: true, verbose: true, be, noar: 1, enc, patch: vec![], cut: None, note: "corpus".into() };
    // the fixed defect: an empty raw / string argument followed by another argument (known_findings.d/C18.json "fixed")
    for be in [false, true] {
        record(sink, bi(be, Enc::FromArgs(vec![(0x400, be, vec![]), (0x41, be, lit(&[7]))])));
        record(sink, bi(be, Enc::FromArgs(vec![(0x8200, be, vec![]), (0x200, be, vec![]), (0x11, be, lit(&[1]))])));
    }
    // the repo's own unit-test payloads
    record(sink, bi(true, Enc::Payload(lit(&[0, 0, 0, 0x11, 0, 0, 0, 0, 0x11, 1, 0, 0, 0, 0x11, 2, 0, 0, 0, 0x10, 1, 0, 0, 0, 0x10, 0]))));
    for be in [false, true] {
        // every type and width once, extreme values
        let vals = vec![
            Val::Bool(true),
            Val::Bool(false),
            Val::SInt(1, 0x80),
            Val::SInt(2, 0x8000),
            Val::SInt(3, 0x8000_0000),
            Val::SInt(4, 0x8000_0000_0000_0000),
            Val::SInt(5, 1u128 << 127),
            Val::SInt(4, u64::MAX as u128),
            Val::UInt(1, 0xff),
            Val::UInt(2, 0xffff),
            Val::UInt(3, 0xffff_ffff),
            Val::UInt(4, u64::MAX as u128),
            Val::UInt(5, u128::MAX),
            Val::Float(3, 0x7fc0_0000),
            Val::Float(4, 0xfff0_0000_0000_0000),
            Val::Float(3, 0x3fc0_0000),
            Val::Str(true, lit(b"a\r\n\tb\0")),
            Val::Str(false, lit(&[b'x', 0x80, 0x9d, 0xe4, 0, 0])),
            Val::Str(true, lit(&[0xff, b'a', 0xc3])),
            Val::Raw(lit(&[0x00, 0x01, 0xff, 0x0f])),
            Val::Raw(vec![]),
            Val::Str(true, lit(&[0])),
        ];
        let i = from_vals(&mut rng, &vals, be, vec!["corpus".into()]);
        record(sink, i.clone());
        // every cut of a smaller list
        let small = vec![Val::UInt(2, 0x0102), Val::Str(true, lit(b"hi\0")), Val::Bool(true), Val::Raw(lit(&[9, 8]))];
        let i0 = from_vals(&mut rng, &small, be, vec!["corpus".into()]);
        let len = field_positions(&small, be).last().unwrap().1.last().unwrap().1;
        for k in 0..=len {
            let mut i = i0.clone();
            i.cut = Some(k as u64);
            record(sink, i);
        }
        // byte-order marks at the start / in the middle of strings of both codings (must be decoded like any
        // other bytes: no sniffing), followed by ASCII, high bytes, odd/even lengths, alone, with/without NUL
        for bom in BOMS {
            for tail in [&b""[..], &b"ab"[..], &[0xe4, 0xfc][..], &[b'a', 0, b'b'][..], &[b'a', 0, b'b', 0][..], &[0x3d, 0xd8, 0x00][..], &[b'\n'][..]] {
                for nul in [false, true] {
                    let mut b = bom.to_vec();
                    b.extend_from_slice(tail);
                    if nul {
                        b.push(0);
                    }
                    let mut mid = b"xy".to_vec();
                    mid.extend_from_slice(&b);
                    record(sink, from_vals(&mut rng, &[Val::Str(false, lit(&b)), Val::Str(true, lit(&b)), Val::Str(false, lit(&mid))], be, vec!["corpus".into(), "str_bom".into()]));
                }
            }
        }
        // maximal string and raw data
        record(sink, from_vals(&mut rng, &[Val::Str(false, vec![(vec![b'a'], 65535)]), Val::UInt(1, 1)], be, vec!["corpus".into(), "str_fill_max".into()]));
        record(sink, from_vals(&mut rng, &[Val::Raw(vec![(vec![0xab], 65535)])], be, vec!["corpus".into(), "raw_fill_max".into()]));
        // float with 16/128 bit: the "?<floa with len=" branch; bool with TYLE 0; refusals
        record(sink, bi(be, Enc::FromArgs(vec![(0x82, be, lit(&[1, 2])), (0x85, be, lit(&[0; 16]))])));
        record(sink, bi(be, Enc::FromArgs(vec![(0x10, be, lit(&[1])), (0x12, be, lit(&[1, 0]))])));
        record(sink, bi(be, Enc::FromArgs(vec![(0x41, be, lit(&[1])), (0x841, be, lit(&[1])), (0x41, be, lit(&[1]))])));
        record(sink, bi(be, Enc::FromArgs(vec![(0x10200, be, lit(b"ab")), (0x18200, be, lit(b"ab")), (0x28200, be, lit(b"ab")), (0x600, be, lit(b"ab"))])));
        // string length beyond the payload: index advances past the end, later calls keep returning None
        record(sink, bi(be, Enc::Payload(lit(&if be { [0, 0, 2, 0, 0xff, 0xff, 1, 2] } else { [0, 2, 0, 0, 0xff, 0xff, 1, 2] }))));
    }
    // serde: the macro itself with real Rust values vs the run-time path
    {
        let (n, p) = adlt::dlt_args!(42u8, -4243i16, 1.5f32, "foo", true, 'c', 0x4243444546474849u64, -1i64, 2.0f64, -7i8, 65535u16, -5i32, 7u32).unwrap();
        let vals = vec![
            Sv::UInt(1, 42),
            Sv::Int(2, (-4243i16) as u16 as u64),
            Sv::Float(3, 1.5f32.to_bits() as u64),
            Sv::Str(lit(b"foo")),
            Sv::Bool(true),
            Sv::Char('c' as u32),
            Sv::UInt(4, 0x4243444546474849),
            Sv::Int(4, u64::MAX),
            Sv::Float(4, 2.0f64.to_bits()),
            Sv::Int(1, 0xf9),
            Sv::UInt(2, 65535),
            Sv::Int(3, (-5i32) as u32 as u64),
            Sv::UInt(3, 7),
        ];
        let (n2, p2) = dlt_args_dyn(&vals).unwrap();
        assert!(n == n2 && p == p2, "dlt_args! and the run-time path of the harness differ");
        record(sink, bi(false, Enc::Serde(vals)));
        record(sink, bi(false, Enc::Serde(vec![])));
        record(sink, bi(false, Enc::Serde(vec![Sv::Bytes(vec![]), Sv::Ascii(lit(b"foo\0")), Sv::Str(vec![])])));
        record(sink, bi(false, Enc::Serde(vec![Sv::UInt(1, 1), Sv::NoneV])));
        record(sink, bi(false, Enc::Serde(vec![Sv::Str(vec![(vec![b'x'], 65534)])])));
        record(sink, bi(false, Enc::Serde(vec![Sv::Str(vec![(vec![b'x'], 65535)])])));
        record(sink, bi(false, Enc::Serde(vec![Sv::Bytes(vec![(vec![1], 65535)])])));
        record(sink, bi(false, Enc::Serde(vec![Sv::Bytes(vec![(vec![1], 65536)])])));
    }
    // non-verbose iterator: id + rest
    for p in [vec![], vec![1, 2, 3], vec![1, 2, 3, 4], vec![1, 2, 3, 4, 5], vec![1, 2, 3, 4, 5, 6, 7, 8, 9]] {
        let mut i = bi(false, Enc::Payload(lit(&p)));
        i.verbose = false;
        record(sink, i.clone());
        i.ext = false;
        record(sink, i);
    }
}

fn main() {
    let a = parse_args();
    let mut sink = Sink::new("C18", &a.out);
    sink.shard_size = 80;
    if let Some(p) = &a.replay {
        let v = read_replay(p);
        let i: Input = serde_json::from_value(v["case"].clone()).expect("replay case");
        record(&mut sink, i);
        sink.finish();
        return;
    }
    let mut rng = Rng::new(a.seed);
    let thorough = a.tier != "quick";
    if a.tier != "search" {
        corpus(&mut sink);
        corpus_producers(&mut sink);
    }
    let n = a.count.unwrap_or(match a.tier.as_str() {
        "quick" => 2000,
        "search" => 4000,
        _ => 30000,
    });
    generate(&mut sink, &mut rng, n, thorough);
    // the crate's own producers of verbose / host-order payloads (about 1/6 on top)
    let mut rng2 = rng.fork();
    generate_producers(&mut sink, &mut rng2, n / 6);
    sink.finish();
}
