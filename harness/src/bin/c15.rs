//! C15 — websocket text-command dispatcher of `adlt remote` vs Remote/Dispatch.v
//!
//! One case = one session against a fresh `adlt remote` process (binary of the working tree, path in
//! VERIF_ADLT_BIN).  Histories are generated adaptively (ids are taken from the replies seen so far) from
//! frame templates whose trusted-parser outcome is known by construction (ground truth, never derived from
//! the reply).  Observation per command = classified reply; asynchronous frames (binary, `stream:` text)
//! are not replies, but the "query done" notifications and the FileInfo counters seen before a reply are
//! handed to the model as events / oracle input.  For `fs` the oracle inputs are what the path names in the
//! environment (`<scratch>/env`: value classes of files, times, links, archives), read by the harness itself
//! right before the command is sent.  The oracle checks the property text directly on the
//! session: one reply per command, ok:/err:/unknown notice, connection + process alive, no panic on
//! stderr, and the open/close and stream-id bookkeeping implied by the replies.
use adlt::utils::remote_types::{self, BinType};
use std::io::Write as _;
use std::path::{Path, PathBuf};
use std::process::{Child, Command, Stdio};
use std::time::{Duration, Instant};
use tungstenite::Message;
use vharness::*;

const BINCODE_CONFIG: bincode::config::Configuration<bincode::config::LittleEndian, bincode::config::Fixint, bincode::config::NoLimit> =
    bincode::config::legacy();

type Ws = tungstenite::WebSocket<tungstenite::stream::MaybeTlsStream<std::net::TcpStream>>;

static SCRATCH: std::sync::OnceLock<String> = std::sync::OnceLock::new();

// ---------------------------------------------------------------- DLT files
/// writes `n` plain storage-header messages (ecu ECUR, one per second, strictly increasing times)
fn write_dlt(path: &Path, n: u32, start_index: u32) {
    use adlt::dlt;
    let mut f = std::io::BufWriter::new(std::fs::File::create(path).unwrap());
    let ecu = dlt::DltChar4::from_buf(b"ECUR");
    for i in start_index..start_index + n {
        let sh = dlt::DltStorageHeader { secs: i + 1_640_995_200, micros: 0, ecu };
        let standard_header = dlt::DltStandardHeader { htyp: 1 << 5, mcnt: (i % 256) as u8, len: 4 };
        let m = dlt::DltMessage::from_headers(i, sh, standard_header, &[], vec![]);
        m.to_write(&mut f).unwrap();
    }
    f.flush().unwrap();
}

/// the same messages as `write_dlt`, produced by patching the bytes of one serialised message (seconds of the
/// storage header, message counter): fast enough for a million messages; checked against `to_write` on samples
fn write_dlt_fast(path: &Path, n: u32, spacing_us: u64) {
    use adlt::dlt;
    let ecu = dlt::DltChar4::from_buf(b"ECUR");
    let time = |i: u32| -> (u32, u32) {
        let t = i as u64 * spacing_us;
        (1_640_995_200 + (t / 1_000_000) as u32, (t % 1_000_000) as u32)
    };
    let ser = |i: u32| -> Vec<u8> {
        let (secs, micros) = time(i);
        let sh = dlt::DltStorageHeader { secs, micros, ecu };
        let standard_header = dlt::DltStandardHeader { htyp: 1 << 5, mcnt: (i % 256) as u8, len: 4 };
        let m = dlt::DltMessage::from_headers(i, sh, standard_header, &[], vec![]);
        let mut v = vec![];
        m.to_write(&mut v).unwrap();
        v
    };
    let tmpl = ser(0);
    let patch = |i: u32| -> Vec<u8> {
        let mut v = tmpl.clone();
        let (secs, micros) = time(i);
        v[4..8].copy_from_slice(&secs.to_le_bytes());
        v[8..12].copy_from_slice(&micros.to_le_bytes());
        v[17] = (i % 256) as u8;
        v
    };
    for i in [0u32, 1, 255, 256, 70_000, 999_999, 2_199_999] {
        assert_eq!(patch(i), ser(i), "message layout changed");
    }
    let mut f = std::io::BufWriter::with_capacity(1 << 20, std::fs::File::create(path).unwrap());
    for i in 0..n {
        f.write_all(&patch(i)).unwrap();
    }
    f.flush().unwrap();
}

/// more messages than the channels between the parser threads and the connection thread can hold
/// (sync_channel(1024*1024) + sync_channel(512*1024) [+ 512*1024 with sort]): with a paused connection the
/// pipeline is still full when the parse thread ends, so `close` has to drain until the channel is disconnected
const HUGE_MSGS: u32 = 1_000_000;
/// 4 us apart: all inside one window of the sorter (20 s), which therefore holds every message until its input ends;
/// far more than the final channel (512k) takes
const DENSE_MSGS: u32 = 2_200_000;

fn write_zip(path: &Path, members: &[(&str, Vec<u8>)]) {
    let mut z = zip::ZipWriter::new(std::fs::File::create(path).unwrap());
    let opt = zip::write::SimpleFileOptions::default().compression_method(zip::CompressionMethod::Deflated);
    for (name, data) in members {
        z.start_file(*name, opt).unwrap();
        z.write_all(data).unwrap();
    }
    z.finish().unwrap();
}

// ---------------------------------------------------------------- the environment commands refer to
/// time family of the environment: (label, seconds relative to 1970-01-01T00:00:00Z, nanoseconds added to that)
const ENV_TIMES: &[(&str, i64, u32)] = &[
    ("m1h", -3600, 0),
    ("m1s", -1, 0),
    ("m1ms", -1, 999_000_000),
    ("m1ns", -1, 999_999_999),
    ("epoch", 0, 0),
    ("p1ns", 0, 1),
    ("p1ms", 0, 1_000_000),
    ("m1d", -86_400, 0),
    ("y1960", -315_619_200, 0),
    ("min32", -2_147_483_648, 0),
    ("y2038", 2_147_483_648, 0),
    ("y2400", 13_569_465_600, 0),
    ("max34", 15_032_385_535, 0),
];
fn sys_time(secs: i64, nanos: u32) -> std::time::SystemTime {
    let e = std::time::SystemTime::UNIX_EPOCH;
    if secs >= 0 {
        e + Duration::new(secs as u64, nanos)
    } else {
        e - Duration::from_secs(secs.unsigned_abs()) + Duration::from_nanos(nanos as u64)
    }
}
/// sets the modification time of a file or directory; false if the platform / file system refused
fn set_mtime(path: &Path, t: std::time::SystemTime) -> bool {
    std::fs::File::open(path).and_then(|f| f.set_modified(t)).is_ok()
}
/// signed nanoseconds relative to the epoch
fn signed_ns(t: std::time::SystemTime) -> i128 {
    match t.duration_since(std::time::SystemTime::UNIX_EPOCH) {
        Ok(d) => d.as_nanos() as i128,
        Err(e) => -(e.duration().as_nanos() as i128),
    }
}

/// Value classes of what a path can name.  Everything lives in `<scratch>/env` and is never modified after its
/// creation (the oracle inputs of an `fs` command are read from the environment right before the command is sent).
/// Returns the base paths (absolute, as text) with a class label.
fn create_env(dir: &Path, seed: u64) -> Vec<(String, &'static str)> {
    use std::os::unix::ffi::OsStrExt;
    let env = dir.join("env");
    std::fs::create_dir_all(&env).unwrap();
    let a = std::fs::read(dir.join("a.dlt")).unwrap();
    let arch = std::fs::read(dir.join("arch.zip")).unwrap();
    let mut bases: Vec<(String, &'static str)> = vec![];
    let p = |n: &str| env.join(n);
    let s = |n: &str| env.join(n).to_str().unwrap().to_string();
    // ordinary, empty
    std::fs::write(p("plain.txt"), b"hello\n").unwrap();
    std::fs::write(p("empty.txt"), b"").unwrap();
    bases.push((s("plain.txt"), "file"));
    bases.push((s("empty.txt"), "file_empty"));
    // DLT files (10 messages) whose modification time lies before / at / after the epoch
    let mut times: Vec<(String, i64, u32)> = ENV_TIMES.iter().map(|(l, a, b)| (l.to_string(), *a, *b)).collect();
    let mut rng = Rng::new(seed ^ 0x5eed_f11e);
    for i in 0..6 {
        // a family around them: magnitudes from nanoseconds to the limits of the file system, both signs
        let mag_bits = rng.range(0, 30);
        let secs = (rng.below(1 << mag_bits) + if i % 2 == 0 { 1 } else { 0 }) as i64;
        let nanos = if rng.chance(1, 2) { 0 } else { rng.below(1_000_000_000) as u32 };
        times.push((format!("r{}", i), if i % 2 == 0 { -secs } else { secs }, nanos));
    }
    for (label, secs, nanos) in &times {
        let name = format!("t_{}.dlt", label);
        std::fs::write(p(&name), &a).unwrap();
        set_mtime(&p(&name), sys_time(*secs, *nanos));
        bases.push((s(&name), if *secs < 0 { "file_mtime_before_epoch" } else if *secs == 0 && *nanos == 0 { "file_mtime_epoch" } else { "file_mtime_after_epoch" }));
    }
    // directories
    std::fs::create_dir_all(p("olddir")).unwrap();
    std::fs::write(p("olddir/in_old.txt"), b"x").unwrap();
    set_mtime(&p("olddir"), sys_time(-86_400, 0));
    bases.push((s("olddir"), "dir_mtime_before_epoch"));
    std::fs::create_dir_all(p("many")).unwrap();
    for i in 0..40 {
        std::fs::write(p(&format!("many/f{:02}.txt", i)), b"x").unwrap();
    }
    for i in 0..5 {
        std::fs::create_dir_all(p(&format!("many/d{}", i))).unwrap();
    }
    let _ = std::os::unix::fs::symlink("f00.txt", p("many/l0"));
    let _ = std::os::unix::fs::symlink("nothing", p("many/l1"));
    let _ = std::os::unix::fs::symlink("d0", p("many/l2"));
    bases.push((s("many"), "dir_many"));
    // symbolic links: to a file, to a DLT file, to a directory, dangling, loops, an old link
    let _ = std::os::unix::fs::symlink("plain.txt", p("link_file"));
    let _ = std::os::unix::fs::symlink("../a.dlt", p("link_a.dlt"));
    let _ = std::os::unix::fs::symlink("olddir", p("link_dir"));
    let _ = std::os::unix::fs::symlink("nothing", p("dangling"));
    let _ = std::os::unix::fs::symlink("loop", p("loop"));
    let _ = std::os::unix::fs::symlink("loop_b", p("loop_a"));
    let _ = std::os::unix::fs::symlink("loop_a", p("loop_b"));
    let _ = std::os::unix::fs::symlink("plain.txt", p("link_old"));
    let _ = Command::new("touch").args(["-h", "-d", "1969-12-31 23:00:00 UTC"]).arg(p("link_old")).stderr(Stdio::null()).status();
    for (n, c) in [("link_file", "symlink_file"), ("link_a.dlt", "symlink_file"), ("link_dir", "symlink_dir"), ("dangling", "symlink_dangling"), ("loop", "symlink_loop"), ("loop_a", "symlink_loop"), ("link_old", "symlink_mtime_before_epoch")] {
        bases.push((s(n), c));
    }
    // neither file nor directory nor link
    let _ = Command::new("mkfifo").arg(p("fifo")).arg(p("fifo.dlt")).arg(p("fifo.zip")).arg(p("fifo.zip.001")).stderr(Stdio::null()).status();
    bases.push((s("fifo.dlt"), "special"));
    bases.push((s("fifo.zip"), "archive"));
    bases.push((s("fifo.zip.001"), "archive"));
    let _ = std::os::unix::net::UnixListener::bind(p("sock"));
    bases.push((s("fifo"), "special"));
    bases.push((s("sock"), "special"));
    // no permissions (a check running as root is not stopped by them)
    std::fs::create_dir_all(p("noperm")).unwrap();
    std::fs::write(p("noread.txt"), b"x").unwrap();
    {
        use std::os::unix::fs::PermissionsExt;
        let _ = std::fs::set_permissions(p("noperm"), std::fs::Permissions::from_mode(0o000));
        let _ = std::fs::set_permissions(p("noread.txt"), std::fs::Permissions::from_mode(0o000));
    }
    bases.push((s("noperm"), "dir_noperm"));
    bases.push((s("noread.txt"), "file_noperm"));
    // names: as long as a name may be, too long, with a NUL byte, non-ASCII, not UTF-8 (those only via their directory)
    let long = format!("{}.dlt", "L".repeat(251));
    std::fs::write(p(&long), &a).unwrap();
    bases.push((s(&long), "name_long"));
    bases.push((s(&"n".repeat(300)), "name_too_long"));
    bases.push((format!("{}/{}", s("olddir"), "p/".repeat(2100)), "path_too_long"));
    bases.push((format!("{}\0b", s("a")), "name_nul"));
    std::fs::create_dir_all(p("nonutf8")).unwrap();
    std::fs::write(env.join("nonutf8").join(std::ffi::OsStr::from_bytes(b"f\xff\xfe.dlt")), &a).unwrap();
    let _ = std::fs::create_dir_all(env.join("nonutf8").join(std::ffi::OsStr::from_bytes(b"d\xc3\x28")));
    std::fs::write(p("nonutf8/\u{fc}n\u{ef} \u{1f600}.txt"), b"x").unwrap();
    bases.push((s("nonutf8"), "dir_nonutf8_names"));
    bases.push((s("nonutf8/\u{fc}n\u{ef} \u{1f600}.txt"), "name_unicode"));
    // below a file, missing, relative, odd texts
    bases.push((format!("{}/x", s("plain.txt")), "below_file"));
    bases.push((format!("{}/x", s("loop")), "below_loop"));
    bases.push((format!("{}/x", s("dangling")), "below_dangling"));
    bases.push((s("nothing"), "missing"));
    bases.push((s("no/such/dir/f.dlt"), "missing"));
    bases.push(("".to_string(), "text_empty"));
    bases.push(("x".to_string(), "missing_relative"));
    bases.push((".".to_string(), "dir_relative"));
    // archives: valid, with an old time, upper case, behind a link, a single member "data", empty, 0 bytes, cut,
    // garbage, a directory with an archive name, nested, multi volume
    std::fs::write(p("old.zip"), &arch).unwrap();
    set_mtime(&p("old.zip"), sys_time(-3600, 0));
    std::fs::write(p("UPPER.ZIP"), &arch).unwrap();
    let _ = std::os::unix::fs::symlink("../arch.zip", p("link.zip"));
    write_zip(&p("data.zip"), &[("data", a.clone())]);
    write_zip(&p("emptyarch.zip"), &[]);
    std::fs::write(p("zero.zip"), b"").unwrap();
    std::fs::write(p("trunc.zip"), &arch[..arch.len() / 2]).unwrap();
    std::fs::create_dir_all(p("dir.zip")).unwrap();
    write_zip(&p("nested.zip"), &[("inner.zip", arch.clone()), ("x/y.dlt", a.clone()), ("data", a.clone())]);
    for n in ["old.zip", "UPPER.ZIP", "link.zip", "data.zip", "emptyarch.zip", "zero.zip", "trunc.zip", "dir.zip", "nested.zip"] {
        bases.push((s(n), "archive"));
    }
    for n in ["arch.zip", "bad.zip", "mv.zip.001", "mv.zip.002", "hostile.zip", "nofile.zip", "a.dlt", "sub"] {
        bases.push((dir.join(n).to_str().unwrap().to_string(), if n.contains(".zip") { "archive" } else { "classic" }));
    }
    bases
}

struct Files {
    dir: PathBuf,
    /// base paths of the environment with their class
    env: Vec<(String, &'static str)>,
    /// session files by content (see create_content)
    content: Vec<Content>,
}
impl Files {
    fn create(dir: &Path, seed: u64) -> Files {
        write_dlt(&dir.join("a.dlt"), 10, 0);
        write_dlt(&dir.join("b.dlt"), 5, 10);
        write_dlt(&dir.join("big.dlt"), 150_000, 0);
        write_dlt_fast(&dir.join("huge.dlt"), HUGE_MSGS, 1_000_000);
        write_dlt_fast(&dir.join("dense.dlt"), DENSE_MSGS, 4);
        std::fs::write(dir.join("empty.dlt"), b"").unwrap();
        std::fs::write(dir.join("bad.zip"), b"this is not a zip").unwrap();
        std::fs::create_dir_all(dir.join("sub")).unwrap();
        // archives (the `open` path with a background extraction)
        let rd = |n: &str| std::fs::read(dir.join(n)).unwrap();
        write_dlt(&dir.join("c.dlt"), 3, 15);
        write_zip(
            &dir.join("arch.zip"),
            &[("logs/a.dlt", rd("a.dlt")), ("logs/b.dlt", rd("b.dlt")), ("readme.txt", b"no dlt in here\n".to_vec()), ("logs/empty.dlt", vec![]), ("deep/x/c.dlt", rd("c.dlt"))],
        );
        // slow to extract: four members of 150 000 messages each
        let big = rd("big.dlt");
        write_zip(&dir.join("slow.zip"), &[("big1.dlt", big.clone()), ("big2.dlt", big.clone()), ("big3.dlt", big.clone()), ("big4.dlt", big)]);
        // member names that point outside / are odd
        write_zip(
            &dir.join("hostile.zip"),
            &[("../evil.dlt", rd("a.dlt")), ("/abs.dlt", rd("b.dlt")), ("sp ace.dlt", rd("c.dlt")), ("a\\b.dlt", rd("c.dlt")), ("\u{fc}n\u{ef}.dlt", rd("c.dlt")), ("ok/fine.dlt", rd("a.dlt"))],
        );
        // multi volume: arch.zip cut in two
        let az = rd("arch.zip");
        std::fs::write(dir.join("mv.zip.001"), &az[..az.len() / 2]).unwrap();
        std::fs::write(dir.join("mv.zip.002"), &az[az.len() / 2..]).unwrap();
        let env = create_env(dir, seed);
        let content = create_content(dir, seed);
        let _ = CONTENT.set(content.iter().map(|c| (c.path.clone(), c.clone())).collect());
        Files { dir: dir.to_path_buf(), env, content }
    }
    /// replaces the @X placeholders of a frame template by paths
    fn subst(&self, s: &str) -> String {
        let p = |n: &str| self.dir.join(n).to_str().unwrap().to_string();
        s.replace("@E/", &format!("{}/", p("env")))
            .replace("@K/", &format!("{}/", p("content")))
            .replace("@BADZIP", &p("bad.zip"))
            .replace("@ZA", &p("arch.zip"))
            .replace("@ZS", &p("slow.zip"))
            .replace("@ZH", &p("hostile.zip"))
            .replace("@ZM", &p("mv.zip.001"))
            .replace("@ZN", &p("nofile.zip"))
            .replace("@HUGE", &p("huge.dlt"))
            .replace("@DENSE", &p("dense.dlt"))
            .replace("@BIG", &p("big.dlt"))
            .replace("@B", &p("b.dlt"))
            .replace("@A", &p("a.dlt"))
            .replace("@C", &p("c.dlt"))
            .replace("@EMPTY", &p("empty.dlt"))
            .replace("@NOFILE", &p("nofile.dlt"))
            .replace("@DIR", &p("sub"))
    }
}


// ---------------------------------------------------------------- session files by content
// What the opened file makes the background threads (parser, lifecycle stage, plugins, sorter) publish and the
// tick of the connection thread read: traces of the lifecycle engineer's generators (merge / confirmation /
// resume / reboot histories, control messages of all shapes), file transfers, garbage, empty and tiny files.
// Ground truth per file is computed in-process with the trusted stages themselves (the parser's iterator and the
// lifecycle detector of the adlt library): number of messages, and the lifecycle table as a reader sees it -
// every key with its VALUE BAG.

/// facts about one content file
#[derive(Clone, Debug)]
struct Content {
    name: String,
    path: String,
    class: &'static str,
    /// messages the parser delivers
    nmsgs: u32,
    /// the first 512 KiB hold a DLT message: `open` takes the file
    open_ok: bool,
    /// final lifecycle table: (key rank, bag = [(lifecycle rank, nr_msgs)]); None = the detector could not be run (panic)
    table: Option<Vec<(u32, Vec<(u32, u32)>)>>,
    /// a file transfer history (the FileTransfer plugin takes FLDA messages out)
    ft: bool,
}
static CONTENT: std::sync::OnceLock<std::collections::HashMap<String, Content>> = std::sync::OnceLock::new();
/// replay: content files of the recorded run (name -> bytes)
static REPLAY_CONTENT: std::sync::OnceLock<Vec<(String, Vec<u8>)>> = std::sync::OnceLock::new();

fn content_of_path(path: &str) -> Option<&'static Content> {
    CONTENT.get().and_then(|m| m.get(path))
}
/// the single content / small plain file an `open` body names (None: several files, archives, unknown files)
fn content_of_open(frame: &str) -> Option<&'static Content> {
    let v: Value = serde_json::from_str(params_of(frame)).ok()?;
    let a = v["files"].as_array()?;
    if a.len() != 1 {
        return None;
    }
    content_of_path(a[0].as_str()?)
}
fn lc_table_coq(t: &[(u32, Vec<(u32, u32)>)]) -> String {
    format!("TLcs (Some {})", clist(&t.iter().map(|(k, bag)| format!("({}, {})", k, clist(&bag.iter().map(|(i, n)| format!("({}, {})", i, n)).collect::<Vec<_>>()))).collect::<Vec<_>>()))
}

/// runs the parser's iterator and the lifecycle detector of the library over a file, as the threads of the server
/// do, and reads the published table the way a reader gets it (key -> bag)
fn probe_content(path: &Path) -> (u32, bool, Option<Vec<(u32, Vec<(u32, u32)>)>>) {
    use adlt::lifecycle::{Lifecycle, LifecycleId, LifecycleItem};
    let p = path.to_path_buf();
    let open_ok = {
        let p = p.clone();
        catch(move || {
            let mut f = std::fs::File::open(&p).unwrap();
            let ns = adlt::utils::get_new_namespace();
            adlt::utils::get_dlt_infos_from_file("dlt", &mut f, 512 * 1024, ns).map(|d| d.first_msg.is_some()).unwrap_or(false)
        })
        .unwrap_or(false)
    };
    let r = catch(move || {
        let f = std::fs::File::open(&p).unwrap();
        let ns = adlt::utils::get_new_namespace();
        let reader = adlt::utils::LowMarkBufReader::new(f, 512 * 1024, adlt::dlt::DLT_MAX_STORAGE_MSG_SIZE + 4);
        let msgs: Vec<adlt::dlt::DltMessage> = adlt::utils::get_dlt_message_iterator("dlt", 0, reader, ns, None, None, None).collect();
        let n = msgs.len() as u32;
        // ids are global to the process: rank them relative to a fresh one
        let base = {
            let mut m = dltgen::plain_msg(0, 99, 1, 0);
            Lifecycle::new(&mut m).id()
        };
        let (lcs_r, lcs_w) = evmap::new::<LifecycleId, LifecycleItem>();
        let (tx, rx) = std::sync::mpsc::channel();
        for m in msgs {
            tx.send(m).unwrap();
        }
        drop(tx);
        let _w = adlt::lifecycle::parse_lifecycles_buffered_from_stream(lcs_w, rx, &|_m| Ok(()));
        let mut t: Vec<(u32, Vec<(u32, u32)>)> = vec![];
        if let Some(a) = lcs_r.read() {
            for (id, b) in a.iter() {
                let mut bag: Vec<(u32, u32)> = b.iter().map(|lc| (lc.id().wrapping_sub(base), lc.nr_msgs)).collect();
                bag.sort();
                t.push((id.wrapping_sub(base), bag));
            }
        }
        t.sort();
        (n, t)
    });
    match r {
        Ok((n, t)) => (n, open_ok, Some(t)),
        Err(_) => (0, open_ok, None),
    }
}

fn write_specs(path: &Path, specs: &[lcgen::MSpec]) {
    let mut f = std::io::BufWriter::new(std::fs::File::create(path).unwrap());
    for (i, s) in specs.iter().enumerate() {
        s.build(i as u32).to_write(&mut f).unwrap();
    }
    f.flush().unwrap();
}

/// verbose payload from arguments: (type info, bytes); strings and raw data get their 16 bit length
fn verbose_payload(args: &[(u32, Vec<u8>)]) -> Vec<u8> {
    let mut p = vec![];
    for (ti, d) in args {
        p.extend_from_slice(&ti.to_le_bytes());
        if *ti == 0x200 || *ti == 0x400 {
            p.extend_from_slice(&(d.len() as u16).to_le_bytes());
        }
        p.extend_from_slice(d);
    }
    p
}
fn verbose_msg(index: u32, ecu: u8, rt: u64, ts_dms: u32, args: &[(u32, Vec<u8>)]) -> adlt::dlt::DltMessage {
    let mut m = dltgen::with_ext(dltgen::plain_msg(index, ecu, rt, ts_dms), 0x41, args.len() as u8, b"APID", b"CTID");
    m.standard_header.mcnt = (index & 0xff) as u8;
    m.payload = verbose_payload(args);
    m
}
/// a history of file transfers (FLST / FLDA.. / FLFI of the FileTransfer plugin) between ordinary messages; variants:
/// complete, packages missing / repeated / out of order / beyond the announced number, sizes that do not fit, no FLST,
/// no FLFI, two transfers with one serial, a huge announced size, zero packages
fn gen_file_transfer(rng: &mut Rng, variants: &[u64]) -> Vec<adlt::dlt::DltMessage> {
    let strg = |s: &str| (0x200u32, [s.as_bytes(), &[0u8]].concat());
    let u32a = |v: u32| (0x43u32, v.to_le_bytes().to_vec());
    let i32a = |v: i32| (0x23u32, v.to_le_bytes().to_vec());
    let mut out = vec![];
    let mut rt = lcgen::RHO + rng.below(1000) * 1_000_000;
    let start = rt - 5_000_000;
    let mut push = |out: &mut Vec<adlt::dlt::DltMessage>, rt: u64, args: &[(u32, Vec<u8>)]| {
        let i = out.len() as u32;
        out.push(verbose_msg(i, 1, rt, ((rt - start) / 100) as u32, args));
    };
    for (t, variant) in variants.iter().cloned().enumerate() {
        // now and then the serial of the previous transfer again
        let serial = if t > 0 && rng.chance(1, 4) { 17 + t as u32 - 1 } else { 17 + t as u32 };
        let npk = if variant == 1 { 0 } else { *rng.pick(&[1u32, 2, 3, 5]) };
        let bufsize = *rng.pick(&[4u32, 4, 16, 0, 512]);
        let size = match variant {
            0 => u32::MAX,
            1 => 0,
            2 => npk * bufsize + 7,
            _ => npk * bufsize,
        };
        let announced = match variant {
            3 => npk + 2,
            4 => u32::MAX,
            _ => npk,
        };
        rt += rng.range(1_000, 900_000);
        push(&mut out, rt, &[strg("hello before the transfer")]);
        if variant != 5 {
            rt += rng.range(1_000, 900_000);
            push(&mut out, rt, &[strg("FLST"), u32a(serial), strg(*rng.pick(&["test_file.bin", "", "../x/y.bin", "a b.txt"])), u32a(size), strg("2022-06-02 21:54:00"), u32a(announced), u32a(bufsize), strg("FLST")]);
        }
        let mut order: Vec<i32> = (1..=npk as i32).collect();
        match variant {
            6 => order.reverse(),
            7 => {
                if !order.is_empty() {
                    order.remove(0);
                    order.push(1 + npk as i32);
                }
            }
            8 => {
                // every package twice, package numbers 0 and -1 while the transfer is running
                let d = order.clone();
                order.clear();
                for (i, pk) in d.into_iter().enumerate() {
                    if i == 0 && rng.chance(1, 2) {
                        order.push(0);
                    }
                    order.push(pk);
                    order.push(pk);
                    if i == 0 {
                        order.push(0);
                        order.push(-1);
                    }
                }
            }
            _ => {}
        }
        for pk in order {
            rt += rng.range(100, 50_000);
            let data: Vec<u8> = (0..if rng.chance(1, 6) { bufsize + 3 } else { bufsize }).map(|i| (i as u8) ^ (pk as u8)).collect();
            push(&mut out, rt, &[strg("FLDA"), u32a(serial), i32a(pk), (0x400u32, data), strg("FLDA")]);
            if rng.chance(1, 4) {
                rt += rng.range(100, 50_000);
                push(&mut out, rt, &[strg("in between"), u32a(pk as u32)]);
            }
        }
        if variant != 9 {
            rt += rng.range(100, 50_000);
            push(&mut out, rt, &[strg("FLFI"), u32a(serial), strg("FLFI")]);
        }
    }
    rt += 1_000_000;
    push(&mut out, rt, &[strg("bye")]);
    out
}

/// a lifecycle that is published and merged away afterwards (one ECU, optionally a second one logging in between): a
/// lifecycle P stays buffered; after a reception gap >= 10 s its follower L continues P's timestamps and its calculated
/// start lies >= 10 s after P's (resume lifecycle: exempt from the overlap merge); L reaches a timestamp span > 60 s
/// (moving its start by at most 60 s, more would be ignored) and is published while P - checked after it, none of
/// the three confirmation rules applies within 60 s after P's end - is still buffered; a later message with a
/// timestamp below 7/8 of the one L resumed at takes the resume tag away: L overlaps P and is merged into it.
/// One sample in four stretches the gap so that P is confirmed too before the untagging message arrives (then the
/// merge is not possible any more).  All constants drawn; times are multiples of 0.1 ms.
fn gen_resume_published_then_merged(rng: &mut Rng) -> Vec<lcgen::MSpec> {
    let s = 1_000_000u64;
    let r100 = |x: u64| x / 100 * 100;
    let (a, b) = if rng.chance(1, 2) { (1u8, 2u8) } else { (2u8, 1u8) };
    let late_p = rng.chance(1, 4);
    let t0 = lcgen::RHO + rng.below(2000) * s + r100(rng.below(s));
    let ts_p = rng.range(40, 400) * s + r100(rng.below(s));
    let mut out = vec![];
    let mut push = |ecu: u8, rt: u64, ts_us: u64| out.push(lcgen::MSpec { ecu, rt, ts_dms: (ts_us / 100) as u32, has_ts: true, kind: 0 });
    // P: one or two messages in step with the clock (span small)
    push(a, t0, ts_p);
    let mut now = t0;
    let mut ts_pmax = ts_p;
    if !late_p && rng.chance(1, 3) {
        let d = r100(rng.range(100_000, 900_000));
        now += d;
        ts_pmax += d;
        push(a, now, ts_pmax);
    }
    if rng.chance(1, 3) {
        now += r100(rng.range(100_000, 900_000));
        push(b, now, rng.range(1, 5) * s);
    }
    let p_last = now;
    // L: resumes P: reception gap >= 10 s + what the timestamp advanced
    let delta = r100(rng.below(3 * s));
    let gap = if late_p { rng.range(55, 58) * s } else { 10 * s + delta + r100(rng.below(28 * s)) };
    now = p_last + gap;
    let ts_l = ts_pmax + delta;
    push(a, now, ts_l);
    // span of L just beyond 60 s; the start estimate moves back by span - dt <= 60 s
    let dt = if late_p { r100(rng.range(5_000_000, 6_000_000)) } else { r100(rng.range(1_100_000, 6_000_000)) };
    let span = 60 * s + 100 + r100(rng.below(dt - 100));
    now += dt;
    let ts_l2 = ts_l + span;
    push(a, now, ts_l2);
    if !late_p && rng.chance(1, 3) {
        now += r100(rng.range(1_100_000, 2_500_000));
        if rng.chance(1, 2) {
            push(a, now, ts_l2 + (now - (p_last + gap + dt)));
        } else {
            push(b, now, rng.range(6, 9) * s);
        }
    }
    // a timestamp clearly below 7/8 of the one L resumed at
    now += r100(rng.range(1_100_000, 2_500_000));
    push(a, now, r100(ts_l * rng.range(2, 5) / 8));
    for _ in 0..rng.below(3) {
        now += r100(rng.range(1_100_000, 3_000_000));
        push(a, now, r100(ts_l * 5 / 8 + rng.below(20 * s)));
    }
    out
}

/// the family around the corpus witnesses C03-2 / C07-1 (a lifecycle confirmed by the silence after it and merged away
/// afterwards): ECU A logs A1 (10..60 s long), a second lifecycle A2 starts right after its end and is pulled back into
/// the last 2 s of A1 ("slightly overlapping": no merge yet); optionally another ECU B logs in between (its lifecycle
/// keeps the queue blocked); a message of a third ECU arrives T after A1's end: with T just below 60 s A2 is confirmed
/// and published while A1 is still buffered, just above 60 s both are published while A2's messages are still queued
/// behind B, earlier nothing is confirmed, later everything is flushed; finally a late message of A pulls A2's start
/// 2.5..9 s into A1: merge (or, when the messages are gone, no merge).  All offsets drawn; reception times go backwards.
fn gen_confirmed_then_pulled(rng: &mut Rng) -> Vec<lcgen::MSpec> {
    let s = 1_000_000i64;
    let r100 = |x: i64| x / 100 * 100;
    let base = (lcgen::RHO + 1000 * s as u64 + rng.below(1000) * s as u64) as i64;
    let mut ecus = [1u8, 2, 3];
    for i in (1..3).rev() {
        let j = rng.below(i as u64 + 1) as usize;
        ecus.swap(i, j);
    }
    let (a, b, c) = (ecus[0], ecus[1], ecus[2]);
    let mut out = vec![];
    let mut push = |ecu: u8, off: i64, ts_us: i64| out.push(lcgen::MSpec { ecu, rt: (base + off) as u64, ts_dms: (ts_us / 100) as u32, has_ts: true, kind: 0 });
    let ts_a = r100(rng.range(12, 60) as i64 * s + rng.below(s as u64) as i64);
    push(a, 0, ts_a); // A1: start = -ts_a, end = 0
    let rt_b = r100(rng.range(100_000, 450_000) as i64);
    let with_b = rng.chance(2, 3);
    if with_b {
        push(b, rt_b, 0); // B: end = rt_b
    }
    let r1 = r100(rng.range(500_000, 900_000) as i64);
    push(a, r1, 0); // A2: start = r1 > end of A1
    let p1 = if rng.chance(3, 4) { r100(rng.range(200_000, 1_900_000) as i64) } else { 0 };
    if p1 > 0 {
        push(a, -p1, 0); // A2.start = -p1: inside the last 2 s of A1
    }
    let a2_end = if p1 > 0 { -p1 } else { r1 };
    // the message that makes the confirmation check run
    let t = match rng.below(8) {
        // A2 published, A1 still buffered
        0 | 1 | 2 if p1 > 0 => 60 * s - r100(rng.below(p1 as u64) as i64),
        // both published, A2's messages queued behind B
        3 | 4 | 5 if with_b => 60 * s + a2_end.max(0) + 100 + r100(rng.below((rt_b - a2_end.max(0) - 100).max(1) as u64) as i64),
        6 => r100(rng.range(1, 58) as i64 * s),
        _ => 60 * s + r100(rng.range(1, 30) as i64 * s),
    };
    push(c, t, 0);
    if rng.chance(1, 3) {
        push(c, t + r100(rng.range(100_000, 800_000) as i64), r100(rng.range(100_000, 800_000) as i64));
    }
    // the late message of A
    let p2 = r100(rng.range(2_500_000, 9_000_000) as i64);
    push(a, -p2, 0);
    for _ in 0..rng.below(3) {
        let e = *rng.pick(&[a, b, c]);
        let off = t + r100(rng.range(1, 20) as i64 * s);
        push(e, off, if e == a { off + ts_a } else { off.min(5 * s) });
    }
    out
}

/// many short histories one after the other (each an hour after the previous one) between steady logging of a third
/// ECU: a file long enough for several passes of the tick while the table changes
fn gen_long_history(rng: &mut Rng, segments: u32, filler: u32) -> Vec<lcgen::MSpec> {
    let mut out: Vec<lcgen::MSpec> = vec![];
    let mut base = lcgen::RHO;
    let start3 = base - 1_000_000;
    for _ in 0..segments {
        let seg = match rng.below(5) {
            0 => lcgen::gen_merge_template(rng),
            1 => gen_resume_published_then_merged(rng),
            2 => lcgen::gen_resume_chain(rng),
            3 => gen_confirmed_then_pulled(rng),
            _ => lcgen::gen_scenario(rng),
        };
        let lo = seg.iter().map(|m| m.rt).min().unwrap_or(base);
        let hi = seg.iter().map(|m| m.rt).max().unwrap_or(base);
        for m in &seg {
            let mut m = m.clone();
            m.rt = m.rt - lo + base;
            out.push(m);
        }
        let mut now = base + (hi - lo);
        for _ in 0..filler {
            now += 1_000;
            out.push(lcgen::MSpec { ecu: 3, rt: now, ts_dms: ((now - start3) / 100) as u32, has_ts: true, kind: 0 });
        }
        base = now + 3_600_000_000;
    }
    out
}

/// the content classes a run is expected to open (reported if not)
const ALL_CONTENT_CLASSES: &[&str] = &["lc_corpus", "lc_merge", "lc_scenario", "lc_resume", "lc_resume_merged", "lc_confirmed_pulled", "lc_general", "lc_clean", "lc_ctrl", "lc_long", "file_transfer", "garbage", "tiny", "plain"];

fn create_content(dir: &Path, seed: u64) -> Vec<Content> {
    let cdir = dir.join("content");
    std::fs::create_dir_all(&cdir).unwrap();
    let mut rng = Rng::new(seed ^ 0xc0_47e_47);
    let mut files: Vec<(String, &'static str)> = vec![];
    let mut add_specs = |files: &mut Vec<(String, &'static str)>, name: String, class: &'static str, specs: &[lcgen::MSpec]| {
        write_specs(&cdir.join(&name), specs);
        files.push((name, class));
    };
    // the lifecycle engineer's corpus (DESIGN Appendix A witnesses C03-1, C03-2, C07-1, ..): a pre-populated table = an earlier part of the file
    for (k, (pre, msgs)) in lcgen::corpus().into_iter().enumerate() {
        let all: Vec<lcgen::MSpec> = pre.into_iter().chain(msgs.into_iter()).collect();
        add_specs(&mut files, format!("lc_corpus_{}.dlt", k), "lc_corpus", &all);
    }
    for k in 0..4 {
        add_specs(&mut files, format!("lc_merge_{}.dlt", k), "lc_merge", &lcgen::gen_merge_template(&mut rng));
        add_specs(&mut files, format!("lc_scenario_{}.dlt", k), "lc_scenario", &lcgen::gen_scenario(&mut rng));
        add_specs(&mut files, format!("lc_resume_merged_{}.dlt", k), "lc_resume_merged", &gen_resume_published_then_merged(&mut rng));
        add_specs(&mut files, format!("lc_confirmed_pulled_{}.dlt", k), "lc_confirmed_pulled", &gen_confirmed_then_pulled(&mut rng));
    }
    for k in 0..2 {
        add_specs(&mut files, format!("lc_resume_{}.dlt", k), "lc_resume", &lcgen::gen_resume_chain(&mut rng));
        add_specs(&mut files, format!("lc_general_{}.dlt", k), "lc_general", &lcgen::gen_general(&mut rng, 40));
        add_specs(&mut files, format!("lc_clean_{}.dlt", k), "lc_clean", &(if k == 0 { lcgen::gen_clean(&mut rng) } else { lcgen::gen_clean_boundary(&mut rng, false) }).msgs);
        let mut c = lcgen::gen_ctrl_trace(&mut rng);
        if k == 1 {
            // a merge history with control responses sprinkled in
            c = lcgen::gen_merge_template(&mut rng);
            lcgen::sprinkle_ctrl(&mut rng, &mut c);
        }
        add_specs(&mut files, format!("lc_ctrl_{}.dlt", k), "lc_ctrl", &c);
    }
    add_specs(&mut files, "lc_general_2.dlt".into(), "lc_general", &lcgen::gen_small_time(&mut rng, 30));
    add_specs(&mut files, "lc_general_3.dlt".into(), "lc_general", &lcgen::gen_near_clean(&mut rng));
    // control messages of every kind the lifecycle code looks into, one ECU logging steadily
    {
        let mut v = vec![];
        let mut now = lcgen::RHO;
        let kinds: Vec<u8> = [0u8, 1, 2, 3].into_iter().chain(lcgen::ctrl_kinds()).collect();
        for (i, k) in kinds.iter().enumerate() {
            now += 300_000;
            v.push(lcgen::MSpec { ecu: 1 + (i % 2) as u8, rt: now, ts_dms: 10_000 + i as u32 * 3_000, has_ts: i % 7 != 6, kind: *k });
        }
        add_specs(&mut files, "lc_ctrl_all.dlt".into(), "lc_ctrl", &v);
    }
    add_specs(&mut files, "lc_long_0.dlt".into(), "lc_long", &gen_long_history(&mut rng, 40, 500));
    // file transfers: every variant occurs in two of the four files
    let mut variants: Vec<u64> = (0..20).map(|v| v % 10).collect();
    for i in (1..variants.len()).rev() {
        let j = rng.below(i as u64 + 1) as usize;
        variants.swap(i, j);
    }
    for k in 0..4 {
        let name = format!("ft_{}.dlt", k);
        let mut f = std::io::BufWriter::new(std::fs::File::create(cdir.join(&name)).unwrap());
        for m in gen_file_transfer(&mut rng, &variants[5 * k..5 * k + 5]) {
            m.to_write(&mut f).unwrap();
        }
        f.flush().unwrap();
        files.push((name, "file_transfer"));
    }
    // garbage: no message at all, messages between garbage, a cut last message, headers that lie about the length
    let a = std::fs::read(dir.join("a.dlt")).unwrap();
    let one = a[..a.len() / 10].to_vec();
    let noise = |rng: &mut Rng, n: u64| -> Vec<u8> { (0..n).map(|_| rng.below(256) as u8).collect() };
    let mut g: Vec<(String, Vec<u8>)> = vec![];
    g.push(("garbage_noise.dlt".into(), noise(&mut rng, 3000)));
    g.push(("garbage_between.dlt".into(), {
        let mut v = noise(&mut rng, 50);
        for i in 0..6 {
            v.extend_from_slice(&a[i * one.len()..(i + 1) * one.len()]);
            let n = rng.below(40);
            v.extend(noise(&mut rng, n));
            if i % 2 == 0 {
                v.extend_from_slice(b"DLT\x01");
            }
        }
        v
    }));
    g.push(("garbage_cut.dlt".into(), a[..a.len() - rng.range(1, one.len() as u64 - 1) as usize].to_vec()));
    g.push(("garbage_len.dlt".into(), {
        let mut v = a.clone();
        // standard header length fields: too short, longer than the rest of the file
        let l = one.len();
        v[l + 18] = 0;
        v[l + 19] = 2;
        v[3 * l + 18] = 0xff;
        v[3 * l + 19] = 0xff;
        v
    }));
    g.push(("garbage_patterns.dlt".into(), b"DLT\x01".repeat(300)));
    // empty and tiny
    g.push(("tiny_empty.dlt".into(), vec![]));
    g.push(("tiny_1byte.dlt".into(), vec![b'D']));
    g.push(("tiny_pattern.dlt".into(), b"DLT\x01".to_vec()));
    g.push(("tiny_storage_header.dlt".into(), a[..16].to_vec()));
    g.push(("tiny_one_msg.dlt".into(), one.clone()));
    g.push(("tiny_two_msgs.dlt".into(), a[..2 * one.len()].to_vec()));
    for (name, data) in g {
        std::fs::write(cdir.join(&name), data).unwrap();
        let class = if name.starts_with("tiny") { "tiny" } else { "garbage" };
        files.push((name, class));
    }
    if let Some(rc) = REPLAY_CONTENT.get() {
        for (name, data) in rc {
            if !name.contains('/') {
                std::fs::write(cdir.join(name), data).unwrap();
                if !files.iter().any(|f| &f.0 == name) {
                    files.push((name.clone(), "replayed"));
                }
            }
        }
    }
    let mut out = vec![];
    for (name, class) in files {
        let path = cdir.join(&name);
        let (nmsgs, open_ok, table) = probe_content(&path);
        out.push(Content { name, path: path.to_str().unwrap().to_string(), class, nmsgs, open_ok, table, ft: class == "file_transfer" });
    }
    // the small ordinary files of the other sessions: their table is known too
    for n in ["a.dlt", "b.dlt", "c.dlt"] {
        let path = dir.join(n);
        let (nmsgs, open_ok, table) = probe_content(&path);
        out.push(Content { name: n.to_string(), path: path.to_str().unwrap().to_string(), class: "plain", nmsgs, open_ok, table, ft: false });
    }
    out
}
fn hex(d: &[u8]) -> String {
    d.iter().map(|b| format!("{:02x}", b)).collect()
}
fn unhex(s: &str) -> Vec<u8> {
    (0..s.len() / 2).map(|i| u8::from_str_radix(&s[2 * i..2 * i + 2], 16).unwrap_or(0)).collect()
}

// ---------------------------------------------------------------- server process + connection
struct Server {
    child: Child,
    port: u16,
    stderr_path: PathBuf,
}
impl Server {
    fn start(dir: &Path, tag: &str) -> Server {
        let bin = std::env::var("VERIF_ADLT_BIN").expect("VERIF_ADLT_BIN");
        let port = portpicker::pick_unused_port().expect("no free port");
        let stderr_path = dir.join(format!("stderr_{}.txt", tag));
        let stdout_path = dir.join(format!("stdout_{}.txt", tag));
        let child = Command::new(bin)
            .args(["remote", "-p", &port.to_string()])
            .env("RUST_BACKTRACE", "0")
            .stdin(Stdio::null())
            .stdout(std::fs::File::create(&stdout_path).unwrap())
            .stderr(std::fs::File::create(&stderr_path).unwrap())
            .spawn()
            .expect("spawn adlt");
        Server { child, port, stderr_path }
    }
    fn connect(&mut self) -> Option<Ws> {
        let t0 = Instant::now();
        loop {
            match tungstenite::client::connect(format!("ws://127.0.0.1:{}", self.port)) {
                Ok((ws, _)) => {
                    if let tungstenite::stream::MaybeTlsStream::Plain(s) = ws.get_ref() {
                        s.set_read_timeout(Some(Duration::from_millis(20))).unwrap();
                        let _ = s.set_nodelay(true);
                    }
                    return Some(ws);
                }
                Err(_) => {
                    if t0.elapsed() > Duration::from_secs(15) || !self.alive() {
                        return None;
                    }
                    std::thread::sleep(Duration::from_millis(5));
                }
            }
        }
    }
    fn alive(&mut self) -> bool {
        matches!(self.child.try_wait(), Ok(None))
    }
    fn stderr_text(&self) -> String {
        String::from_utf8_lossy(&std::fs::read(&self.stderr_path).unwrap_or_default()).to_string()
    }
}
impl Drop for Server {
    fn drop(&mut self) {
        let _ = self.child.kill();
        let _ = self.child.wait();
    }
}

/// asynchronous frames (not replies)
#[derive(Debug, Clone)]
enum Async {
    FileInfo(u32),
    Done(u32),        // empty DltMsgs: query finished
    Msgs(u32, usize), // binary stream data
    StreamInfo(u32),
    TextMsg(u32), // "stream:<id> msg(..)" text stream data
    Lifecycles(Vec<(u32, u32)>), // (lifecycle id, nr_msgs)
    Progress(u32, u32),
    Other,
}

#[derive(Debug)]
enum Rx {
    Reply(String),
    Async(Async),
    Timeout,
    Closed(String),
}

fn classify_binary(d: &[u8]) -> Async {
    match bincode::decode_from_slice::<remote_types::BinType, _>(d, BINCODE_CONFIG) {
        Ok((BinType::FileInfo(fi), _)) => Async::FileInfo(fi.nr_msgs),
        Ok((BinType::DltMsgs((id, msgs)), _)) => {
            if msgs.is_empty() {
                Async::Done(id)
            } else {
                Async::Msgs(id, msgs.len())
            }
        }
        Ok((BinType::StreamInfo(si), _)) => Async::StreamInfo(si.stream_id),
        Ok((BinType::Progress(p), _)) => Async::Progress(p.cur_progress, p.max_progress),
        Ok((BinType::Lifecycles(lcs), _)) => Async::Lifecycles(lcs.iter().map(|l| (l.id, l.nr_msgs)).collect()),
        _ => Async::Other,
    }
}

fn rx_one(ws: &mut Ws) -> Rx {
    match ws.read_message() {
        Ok(Message::Text(s)) => {
            if let Some(rest) = s.strip_prefix("stream:") {
                let id = rest.split(' ').next().unwrap_or("").parse::<u32>().unwrap_or(0);
                Rx::Async(Async::TextMsg(id))
            } else {
                Rx::Reply(s)
            }
        }
        Ok(Message::Binary(d)) => Rx::Async(classify_binary(&d)),
        Ok(Message::Close(c)) => Rx::Closed(format!("close frame {:?}", c)),
        Ok(_) => Rx::Async(Async::Other),
        Err(tungstenite::Error::Io(ref e)) if e.kind() == std::io::ErrorKind::WouldBlock || e.kind() == std::io::ErrorKind::TimedOut => Rx::Timeout,
        Err(e) => Rx::Closed(format!("{}", e)),
    }
}

// ---------------------------------------------------------------- oracle inputs (ground truth of the templates)
#[derive(Clone, Debug)]
enum OrcS {
    None,
    /// FileContext::from: None = Err, Some(mode 0 all / 1 one_pass / 2 none, sort, plugins (name, has commands))
    Open(Option<(u8, bool, Vec<(String, bool)>)>),
    /// StreamContext::from: None = Err, Some(one_pass, window start, end, #pos, #neg, #event, filter class: 1 all messages match, 2 none)
    Stream(Option<(bool, u64, u64, u64, u64, u64, u64)>),
    /// id commands: does process_stream_search_params accept the body
    Id(bool),
    /// plugin_cmd (and the fs templates before they are sent): 0 bad json, 1 not an object, 2 members missing,
    /// 3 good(name); for fs templates: is the command expected to be answered ok: (by construction of the template)
    Json(u8, String, bool),
    /// fs: expected ok:/err: where the template knows it by construction; the oracle inputs read from the
    /// environment right before the command is sent (None until then)
    Fs(Option<bool>, Option<Box<FsFacts>>),
}

/// std::fs::symlink_metadata(path) as the harness sees it
#[derive(Clone, Debug)]
enum MetaF {
    /// kind: 0 dir, 1 file, 2 symlink, 3 other; target (std::fs::metadata of a symlink): 0 dir, 1 file, 2 other, 3 Err;
    /// times: None = not available, Some(signed nanoseconds relative to the epoch)
    Ok { kind: u8, target: u8, len: u64, modified: Option<i128>, created: Option<i128> },
    NotFound,
    Other,
}
/// oracle inputs of one `fs` command: results of the harness' own OS calls and of the trusted archive helpers of
/// the adlt library (called in-process) for the path named by the command - never taken from the reply
#[derive(Clone, Debug)]
struct FsFacts {
    shape: u8, // 0 bad json, 1 not an object, 2 cmd / path missing or no strings, 3 both strings
    cmd: u8,   // 0 stat, 1 readDirectory, 2 anything else
    path: String,
    meta: MetaF,
    rd: Result<u64, bool>, // read_dir: Ok(entries with a file name) | Err(is NotFound)
    split: bool,           // the path has the archive form `..!/..` or `..!`
    exists: bool,
    supported: bool,
    multi: bool,
    open_ok: bool,
    list: Option<Vec<String>>,
    rd_count: u64,
    ameta: Option<(u8, u64)>,
    probe_panic: bool,
}
impl FsFacts {
    fn empty(shape: u8) -> FsFacts {
        FsFacts { shape, cmd: 2, path: String::new(), meta: MetaF::NotFound, rd: Err(true), split: false, exists: false, supported: false, multi: false, open_ok: false, list: None, rd_count: 0, ameta: None, probe_panic: false }
    }
    fn coq(&self) -> String {
        let t = |o: &Option<i128>| match o {
            None => "tnone".to_string(),
            Some(x) => format!("(tm {} {})", cbool(*x < 0), x.unsigned_abs()),
        };
        let meta = match &self.meta {
            MetaF::Ok { kind, target, len, modified, created } => format!("(mok {} {} {} {} {})", kind, target, len, t(modified), t(created)),
            MetaF::NotFound => "mnf".to_string(),
            MetaF::Other => "mer".to_string(),
        };
        let rd = match self.rd {
            Ok(n) => format!("(RdOk {})", n),
            Err(true) => "rdn".to_string(),
            Err(false) => "rde".to_string(),
        };
        let list = match &self.list {
            None => "None".to_string(),
            Some(l) => format!("(Some {})", clist(&l.iter().map(|x| cstr(x)).collect::<Vec<_>>())),
        };
        let am = match self.ameta {
            None => "None".to_string(),
            Some((t, s)) => format!("(Some ({}, {}))", t, s),
        };
        format!(
            "(fso {} {} {} {} {} {} {} {} {} {} {} {})",
            cbool(self.shape == 3), self.cmd, cstr(&self.path), meta, rd, cbool(self.exists), cbool(self.supported), cbool(self.multi), cbool(self.open_ok), list, self.rd_count, am
        )
    }
    /// value classes of the environment this command met (for the coverage list of the evidence)
    fn tags(&self) -> Vec<String> {
        let mut t = vec![];
        if self.shape != 3 {
            t.push(format!("fsx:body_shape_{}", self.shape));
            return t;
        }
        let c = ["stat", "readdir", "othercmd"][self.cmd as usize];
        if self.cmd == 2 {
            t.push("fsx:othercmd".into());
            return t;
        }
        let time_class = |x: &Option<i128>| match x {
            None => "unavailable",
            Some(v) if *v < 0 => "before_epoch",
            Some(0) => "at_epoch",
            Some(v) if *v >= (1i128 << 33) * 1_000_000_000 => "far_future",
            Some(_) => "after_epoch",
        };
        let mut to_archive = false;
        if self.cmd == 0 {
            match &self.meta {
                MetaF::Ok { kind, target, len, modified, created } => {
                    t.push(format!("fsx:stat:kind_{}", ["dir", "file", "symlink", "special"][*kind as usize]));
                    if *kind == 2 {
                        t.push(format!("fsx:stat:link_target_{}", ["dir", "file", "special", "err"][*target as usize]));
                    }
                    t.push(format!("fsx:stat:mtime_{}", time_class(modified)));
                    t.push(format!("fsx:stat:ctime_{}", time_class(created)));
                    if *len == 0 {
                        t.push("fsx:stat:len_zero".into());
                    }
                }
                MetaF::NotFound => to_archive = true,
                MetaF::Other => t.push("fsx:stat:meta_other_error".into()),
            }
        } else {
            match self.rd {
                Ok(0) => t.push("fsx:readdir:ok_empty".into()),
                Ok(_) => t.push("fsx:readdir:ok_entries".into()),
                Err(true) => to_archive = true,
                Err(false) => t.push("fsx:readdir:other_error".into()),
            }
        }
        if to_archive {
            let a = if !self.split {
                "no_archive_form"
            } else if !self.exists {
                "archive_missing"
            } else if !self.supported {
                "archive_unsupported_name"
            } else if !self.multi && !self.open_ok {
                "archive_open_fails"
            } else {
                match &self.list {
                    None => "archive_corrupt",
                    Some(l) if l.len() == 1 && l[0] == "data" => "archive_single_data",
                    Some(l) if l.is_empty() => "archive_empty",
                    Some(_) if self.cmd == 0 && self.ameta.is_none() => "archive_member_missing",
                    Some(_) if self.cmd == 0 && self.ameta.map(|x| x.0) == Some(0) => "archive_member_dir",
                    Some(_) if self.cmd == 0 => "archive_member_file",
                    Some(_) if self.rd_count == 0 => "archive_list_empty",
                    Some(_) => "archive_list_entries",
                }
            };
            t.push(format!("fsx:{}:{}", c, a));
            if self.split && self.multi {
                t.push("fsx:archive_multi_volume".into());
            }
        }
        if self.probe_panic {
            t.push("fsx:probe_panic".into());
        }
        t
    }
}
/// classes of the environment that a run is expected to reach (reported if not)
const ALL_FS_CLASSES: &[&str] = &[
    "fsx:body_shape_0", "fsx:body_shape_1", "fsx:body_shape_2", "fsx:othercmd",
    "fsx:stat:kind_dir", "fsx:stat:kind_file", "fsx:stat:kind_symlink", "fsx:stat:kind_special",
    "fsx:stat:link_target_dir", "fsx:stat:link_target_file", "fsx:stat:link_target_err",
    "fsx:stat:mtime_before_epoch", "fsx:stat:mtime_at_epoch", "fsx:stat:mtime_after_epoch", "fsx:stat:mtime_far_future",
    "fsx:stat:ctime_after_epoch", "fsx:stat:len_zero", "fsx:stat:meta_other_error",
    "fsx:readdir:ok_empty", "fsx:readdir:ok_entries", "fsx:readdir:other_error",
    "fsx:stat:no_archive_form", "fsx:stat:archive_missing", "fsx:stat:archive_unsupported_name", "fsx:stat:archive_open_fails", "fsx:stat:archive_corrupt",
    "fsx:stat:archive_single_data", "fsx:stat:archive_empty", "fsx:stat:archive_member_missing", "fsx:stat:archive_member_dir", "fsx:stat:archive_member_file",
    "fsx:readdir:no_archive_form", "fsx:readdir:archive_missing", "fsx:readdir:archive_unsupported_name", "fsx:readdir:archive_open_fails", "fsx:readdir:archive_corrupt",
    "fsx:readdir:archive_single_data", "fsx:readdir:archive_empty", "fsx:readdir:archive_list_empty", "fsx:readdir:archive_list_entries",
    "fsx:archive_multi_volume",
];

/// the `archive!/within` split as fs_cmd_archive does it (first "!/", or a trailing '!')
fn archive_split_h(p: &str) -> Option<(String, String)> {
    if let Some((a, b)) = p.split_once("!/") {
        Some((a.to_string(), b.to_string()))
    } else if p.ends_with('!') {
        Some((p[..p.len() - 1].to_string(), String::new()))
    } else {
        None
    }
}

/// reads the oracle inputs of an `fs` frame from the environment
fn fs_probe(frame: &str) -> FsFacts {
    use adlt::utils::unzip;
    let v = match serde_json::from_str::<Value>(params_of(frame)) {
        Ok(v) => v,
        Err(_) => return FsFacts::empty(0),
    };
    let obj = match v.as_object() {
        Some(o) => o,
        None => return FsFacts::empty(1),
    };
    let (cmd, path) = match (obj.get("cmd").and_then(Value::as_str), obj.get("path").and_then(Value::as_str)) {
        (Some(c), Some(p)) => (c, p),
        _ => return FsFacts::empty(2),
    };
    let mut f = FsFacts::empty(3);
    f.cmd = match cmd {
        "stat" => 0,
        "readDirectory" => 1,
        _ => 2,
    };
    f.path = path.to_string();
    f.meta = match std::fs::symlink_metadata(path) {
        Ok(a) => {
            let ft = a.file_type();
            let kind = if ft.is_dir() { 0 } else if ft.is_file() { 1 } else if ft.is_symlink() { 2 } else { 3 };
            let target = if kind == 2 {
                match std::fs::metadata(path) {
                    Ok(m) if m.file_type().is_dir() => 0,
                    Ok(m) if m.file_type().is_file() => 1,
                    Ok(_) => 2,
                    Err(_) => 3,
                }
            } else {
                3
            };
            MetaF::Ok { kind, target, len: a.len(), modified: a.modified().ok().map(signed_ns), created: a.created().ok().map(signed_ns) }
        }
        Err(e) if e.kind() == std::io::ErrorKind::NotFound => MetaF::NotFound,
        Err(_) => MetaF::Other,
    };
    f.rd = match std::fs::read_dir(path) {
        Ok(entries) => Ok(entries.filter_map(|e| e.ok().and_then(|e| e.path().file_name().map(|_| ()))).count() as u64),
        Err(e) if e.kind() == std::io::ErrorKind::NotFound => Err(true),
        Err(_) => Err(false),
    };
    if let Some((ap, within)) = archive_split_h(path) {
        f.split = true;
        let ap = PathBuf::from(ap);
        f.exists = ap.exists();
        f.supported = unzip::archive_is_supported_filename(&ap);
        f.multi = unzip::is_part_of_multi_volume_archive(&ap);
        // open_regular_file(&archive_path) of remote.rs: only a regular file (links followed) is opened (a FIFO would
        // block); only reached (by the code and by the model) for an existing entry with a supported archive name
        let openable = std::fs::metadata(&ap).map_or(false, |m| m.is_file());
        f.open_ok = f.exists && f.supported && openable && std::fs::File::open(&ap).is_ok();
        if f.exists && f.supported && (f.multi || f.open_ok) {
            let ap2 = ap.clone();
            let multi = f.multi;
            let r = catch(move || {
                let open_regular = |p: PathBuf| -> std::io::Result<std::fs::File> {
                    if std::fs::metadata(&p)?.is_file() {
                        std::fs::File::open(&p)
                    } else {
                        Err(std::io::Error::new(std::io::ErrorKind::InvalidInput, "not a regular file"))
                    }
                };
                let sources: Vec<std::fs::File> = if multi { unzip::search_dir_for_multi_volume_archive(&ap2).into_iter().flat_map(open_regular).collect() } else { vec![open_regular(ap2.clone()).unwrap()] };
                let list = unzip::list_archive_contents(adlt::utils::seekablechain::SeekableChain::new(sources)).ok();
                let rd_count = list.as_ref().map_or(0, |l| unzip::archive_contents_read_dir(l, &within).count() as u64);
                let ameta = list.as_ref().and_then(|l| unzip::archive_contents_metadata(l, &within).ok()).map(|(t, s)| (if t == "dir" { 0u8 } else { 1u8 }, s as u64));
                (list, rd_count, ameta)
            });
            match r {
                Ok((l, c, m)) => {
                    f.list = l;
                    f.rd_count = c;
                    f.ameta = m;
                }
                Err(_) => f.probe_panic = true,
            }
        }
    }
    f
}
impl OrcS {
    fn json(&self) -> Value {
        match self {
            OrcS::None => json!({"k": "none"}),
            OrcS::Open(None) => json!({"k": "open_err"}),
            OrcS::Open(Some((m, s, p))) => json!({"k": "open_ok", "mode": m, "sort": s, "plugins": p}),
            OrcS::Stream(None) => json!({"k": "stream_err"}),
            OrcS::Stream(Some((o, a, b, p, n, e, k))) => json!({"k": "stream_ok", "one_pass": o, "ws": a, "we": b, "np": p, "nn": n, "ne": e, "fclass": k}),
            OrcS::Id(b) => json!({"k": "id", "search_ok": b}),
            OrcS::Json(s, n, f) => json!({"k": "json", "shape": s, "name": n, "fs_ok": f}),
            OrcS::Fs(e, f) => json!({"k": "fs", "expect_ok": e, "facts_seen": f.as_ref().map(|f| format!("{:?}", f))}),
        }
    }
    fn from_json(v: &Value) -> OrcS {
        match v["k"].as_str().unwrap() {
            "none" => OrcS::None,
            "open_err" => OrcS::Open(None),
            "open_ok" => OrcS::Open(Some((
                v["mode"].as_u64().unwrap() as u8,
                v["sort"].as_bool().unwrap(),
                v["plugins"].as_array().unwrap().iter().map(|p| (p[0].as_str().unwrap().to_string(), p[1].as_bool().unwrap())).collect(),
            ))),
            "stream_err" => OrcS::Stream(None),
            "stream_ok" => OrcS::Stream(Some((
                v["one_pass"].as_bool().unwrap(),
                v["ws"].as_u64().unwrap(),
                v["we"].as_u64().unwrap(),
                v["np"].as_u64().unwrap(),
                v["nn"].as_u64().unwrap(),
                v["ne"].as_u64().unwrap(),
                v["fclass"].as_u64().unwrap_or(0),
            ))),
            "id" => OrcS::Id(v["search_ok"].as_bool().unwrap()),
            "json" => OrcS::Json(v["shape"].as_u64().unwrap() as u8, v["name"].as_str().unwrap().to_string(), v["fs_ok"].as_bool().unwrap()),
            // the facts are read anew from the (recreated) environment when the command is sent
            "fs" => OrcS::Fs(v["expect_ok"].as_bool(), None),
            x => panic!("orc kind {}", x),
        }
    }
    fn coq(&self, nmsgs: u32, frame: &str) -> String {
        match self {
            OrcS::None => "o0".into(),
            OrcS::Open(None) => "(oo OpenErr)".into(),
            OrcS::Open(Some((m, s, p))) => {
                let (archive, nfiles, _) = open_facts(frame);
                format!(
                    "(oof (OpenOk {} {} {}) {} {})",
                    ["CAll", "COnePass", "CNone"][*m as usize],
                    cbool(*s),
                    clist(&p.iter().map(|(n, c)| format!("({}, {})", cstr(n), cbool(*c))).collect::<Vec<_>>()),
                    cbool(archive),
                    nfiles
                )
            }
            OrcS::Stream(None) => "(os StreamErr)".into(),
            OrcS::Stream(Some((o, a, b, p, n, e, k))) => format!("(os (sk {} {} {} {} {} {} {}))", cbool(*o), a, b, p, n, e, k),
            OrcS::Id(b) => format!("(oi {} {})", cbool(*b), nmsgs),
            OrcS::Json(s, n, f) => {
                let shape = match s {
                    0 => "JBad".to_string(),
                    1 => "JNotObject".to_string(),
                    2 => "JMissing".to_string(),
                    _ => format!("(JGood {})", cstr(n)),
                };
                let _ = f;
                format!("(oj {})", shape)
            }
            OrcS::Fs(_, facts) => {
                let f = facts.as_ref().map(|f| (**f).clone()).unwrap_or_else(|| fs_probe(frame));
                let shape = match f.shape {
                    0 => "JBad",
                    1 => "JNotObject",
                    2 => "JMissing",
                    _ => "(JGood \"\"%string)",
                };
                format!("(ofs {} {})", shape, f.coq())
            }
        }
    }
}

/// ground truth about an `open` body, derived from the file names of the frame (known generated files only):
/// (archive path taken, number of files with a DLT message that end up in file_streams, their messages)
fn open_facts(frame: &str) -> (bool, u32, u32) {
    let v: Value = match serde_json::from_str(params_of(frame)) {
        Ok(v) => v,
        Err(_) => return (false, 0, 0),
    };
    let mut archive = false;
    let (mut nfiles, mut nmsgs) = (0u32, 0u32);
    if let Some(a) = v["files"].as_array() {
        for f in a.iter().filter_map(|f| f.as_str()) {
            let plain = |suffix: &str| f.ends_with(suffix) && !f.contains(".zip");
            let (isarch, nf, nm) = if let Some(c) = content_of_path(f).filter(|c| c.class != "plain") {
                // a session file by content: what the parser makes of it was computed in-process
                (false, if c.open_ok { 1 } else { 0 }, c.nmsgs)
            } else if plain("/a.dlt") {
                (false, 1, 10)
            } else if plain("/b.dlt") {
                (false, 1, 5)
            } else if plain("/c.dlt") {
                (false, 1, 3)
            } else if plain("/big.dlt") {
                (false, 1, 150_000)
            } else if plain("/huge.dlt") {
                (false, 1, HUGE_MSGS)
            } else if plain("/dense.dlt") {
                (false, 1, DENSE_MSGS)
            } else if f.contains("/env/") && (f.ends_with("L.dlt") || f.ends_with("/link_a.dlt") || f.rsplit('/').next().map_or(false, |n| n.starts_with("t_") && n.ends_with(".dlt"))) {
                // DLT files of the environment (10 messages each): old / future modification times, a link, a long name
                (false, 1, 10)
            } else if let Some((p, an)) = ["/arch.zip", "/old.zip", "/link.zip", "/UPPER.ZIP"].iter().find_map(|an| f.find(an).map(|p| (p, *an))) {
                match &f[p + an.len()..] {
                    "" | "!/**/*" | "!/*" => (true, 3, 18),
                    "!/logs/*.dlt" | "!/logs/*" => (true, 2, 15),
                    "!/**/c.dlt" | "!/deep/x/c.dlt" => (true, 1, 3),
                    "!/logs/b.dlt" => (true, 1, 5),
                    "/logs/a.dlt" | "!/logs/a.dlt" => (true, 1, 10),
                    _ => (true, 0, 0),
                }
            } else if f.ends_with("/env/data.zip") {
                (true, 1, 10)
            } else if f.ends_with("/env/nested.zip") {
                (true, 2, 20)
            } else if f.ends_with("/env/emptyarch.zip") || f.ends_with("/env/zero.zip") || f.ends_with("/env/dir.zip") || f.ends_with("/env/trunc.zip") || f.ends_with("/env/fifo.zip") {
                (true, 0, 0)
            } else if f.ends_with("/slow.zip") {
                (true, 4, 600_000)
            } else if f.ends_with("/hostile.zip") {
                (true, 4, 19)
            } else if f.ends_with("/mv.zip.001") {
                (true, 3, 18)
            } else if f.contains("/bad.zip") {
                (true, 0, 0)
            } else {
                (false, 0, 0)
            };
            archive |= isarch;
            nfiles += nf;
            nmsgs += nm;
        }
    }
    (archive, nfiles, nmsgs)
}

/// Coq term of type string
fn cstr(s: &str) -> String {
    if s.bytes().all(|b| (0x20..0x7f).contains(&b)) {
        format!("\"{}\"%string", s.replace('"', "\"\""))
    } else {
        format!("(sb {})", cnums(&s.bytes().collect::<Vec<u8>>()))
    }
}

#[derive(Clone, Debug)]
struct Cmd {
    sleep_ms: u64,
    /// before sending: wait (at most 90 s) until the lifecycle frames announce at least this many messages (0 = do not wait)
    wait_lc: u32,
    /// before sending: wait (at most 3 s) until the FileInfo frames report at least this many messages (0 = do not wait)
    wait_msgs: u32,
    /// send a sentinel (unknown command) right behind this command and count the reply frames up to its notice
    probe: bool,
    frame: String,
    orc: OrcS,
}

// ---------------------------------------------------------------- reply classification
fn num_prefix(s: &str) -> Option<(u128, &str)> {
    let end = s.bytes().position(|b| !b.is_ascii_digit()).unwrap_or(s.len());
    if end == 0 {
        return None;
    }
    s[..end].parse::<u128>().ok().map(|n| (n, &s[end..]))
}
fn leaf3(class: u128, kind: u128, payload: Vec<O>) -> O {
    O::T(vec![O::L(class), O::L(kind), O::T(payload)])
}
/// classified reply, None = text that is none of the dispatcher's replies
fn classify_reply(r: &str) -> Option<O> {
    if let Some(rest) = r.strip_prefix("unknown command '") {
        let inner = rest.strip_suffix("'!")?;
        return Some(leaf3(2, 0, inner.bytes().map(|b| O::L(b as u128)).collect()));
    }
    if let Some(rest) = r.strip_prefix("ok: ") {
        if rest == "'close'!" {
            return Some(leaf3(0, 2, vec![]));
        }
        let (cmd, arg) = rest.split_once(|c| c == ' ' || c == ':').unwrap_or((rest, ""));
        return match cmd {
            "open" => {
                let v: Value = serde_json::from_str(arg).ok()?;
                Some(leaf3(0, 0, vec![O::L(v["plugins_active"].as_array()?.len() as u128)]))
            }
            "pause" | "resume" => {
                let v: Value = serde_json::from_str(arg).ok()?;
                Some(leaf3(0, 1, vec![O::b(v["paused"].as_bool()?)]))
            }
            "stream" | "query" => {
                let v: Value = serde_json::from_str(arg).ok()?;
                let nf = v["number_filters"].as_array()?;
                Some(leaf3(
                    0,
                    3,
                    vec![O::b(cmd == "stream"), O::L(v["id"].as_u64()? as u128), O::L(nf[0].as_u64()? as u128), O::L(nf[1].as_u64()? as u128), O::L(nf[2].as_u64()? as u128)],
                ))
            }
            "stream_search" | "stream_binary_search" => {
                let (id, rest) = num_prefix(arg)?;
                if !rest.starts_with('=') {
                    return None;
                }
                Some(leaf3(0, if cmd == "stream_search" { 4 } else { 5 }, vec![O::L(id)]))
            }
            "stream_change_window" => {
                let (id, rest) = num_prefix(arg)?;
                let v: Value = serde_json::from_str(rest.strip_prefix('=')?).ok()?;
                let w = v["window"].as_array()?;
                Some(leaf3(0, 6, vec![O::L(id), O::L(v["id"].as_u64()? as u128), O::L(w[0].as_u64()? as u128), O::L(w[1].as_u64()? as u128)]))
            }
            "stop" => {
                let (id, rest) = num_prefix(arg.strip_prefix("stream stream_id ")?)?;
                if !rest.is_empty() {
                    return None;
                }
                Some(leaf3(0, 7, vec![O::L(id)]))
            }
            "plugin_cmd" => Some(leaf3(0, 8, vec![])),
            "fs" => {
                // the JSON value after `ok: fs:`: a stat object, an {"err":..} object or a list of entries
                let v: Value = serde_json::from_str(arg).ok()?;
                if let Some(a) = v.as_array() {
                    Some(leaf3(0, 9, vec![O::L(2), O::L(a.len() as u128)]))
                } else if let Some(st) = v.get("stat") {
                    let ty = match st["type"].as_str()? {
                        "dir" => 0,
                        "file" => 1,
                        "symlink_dir" => 2,
                        "symlink_file" => 3,
                        "symlink" => 4,
                        "unknown" => 5,
                        _ => 99,
                    };
                    Some(leaf3(0, 9, vec![O::L(0), O::L(ty), O::L(st["size"].as_u64()? as u128), O::L(st["mtime"].as_u64()? as u128), O::L(st["ctime"].as_u64()? as u128)]))
                } else if v.get("err").is_some() {
                    Some(leaf3(0, 9, vec![O::L(1)]))
                } else {
                    None
                }
            }
            _ => None,
        };
    }
    if r.starts_with("err:") {
        // the wording after `err:` is not part of the property: a recognised text gives the precise kind, anything
        // else the generic kind 99 (EOther), which agrees with every err: kind of the model
        return Some(classify_err_text(r).unwrap_or_else(|| leaf3(1, 99, vec![])));
    }
    None
}

/// the error kinds told apart by the wording of the current implementation; None = wording not recognised
fn classify_err_text(r: &str) -> Option<O> {
    {
        let rest = r.strip_prefix("err: ")?;
        let (cmd, arg) = rest.split_once(' ').unwrap_or((rest, ""));
        let e = |k: u128| Some(leaf3(1, k, vec![]));
        let eid = |k: u128, id: u128| Some(leaf3(1, k, vec![O::L(id)]));
        if cmd == "open" {
            if arg.ends_with("is open. close first!") {
                // the dump of file_streams: one `DltFileInfos {` per file
                let dump = arg.rsplit_once("' failed as file(s) '").map_or("", |x| x.1);
                return Some(leaf3(1, 0, vec![O::L(dump.matches("DltFileInfos {").count() as u128)]));
            }
            if arg.contains("' failed with '") && arg.ends_with("'!") {
                return e(1);
            }
            return None;
        }
        if arg == "failed as no file open. open first!" {
            return e(2);
        }
        if arg == "failed as open option 'collect:'one_pass_streams'' was used. Only one_pass streams supported." {
            return e(3);
        }
        if arg == "failed as open option 'collect:false' was used. Stream not supported then." {
            return e(5);
        }
        if arg.starts_with("failed with err '") {
            return match cmd {
                "stream" | "query" => e(4),
                "stream_search" => e(6),
                _ => None,
            };
        }
        if let Some(a) = arg.strip_prefix("failed. stream_id ") {
            let (id, rest) = num_prefix(a)?;
            if rest.starts_with(": all_msgs#=") {
                return eid(7, id);
            }
            if rest.starts_with(":filtered_msgs=") && rest.contains(" unknown! params_splitted=") {
                return eid(8, id);
            }
            if (rest.starts_with(", filtered_msgs=") && rest.contains(": too few params_splitted=")) || rest.starts_with(": too few params_splitted=") {
                return eid(9, id);
            }
            if rest.starts_with(": failure parsing=") {
                return eid(10, id);
            }
            if rest == " not found!" {
                return eid(14, id);
            }
            return None;
        }
        if let Some(a) = arg.strip_prefix("stream failed. stream_id ") {
            let (id, rest) = num_prefix(a)?;
            return if rest == " not found!" { eid(11, id) } else { None };
        }
        if arg == "stream failed. No file opened!" {
            return e(12);
        }
        if arg.starts_with("stream failed. param ") && arg.contains(" is no valid stream_id! Err=") {
            return e(13);
        }
        if cmd == "plugin_cmd" {
            if arg.starts_with("plugin '") && arg.ends_with("' does not support commands") {
                return e(15);
            }
            if arg.starts_with("plugin '") && arg.ends_with("' not found!") {
                return e(16);
            }
            if arg == "params misses cmd or name!" {
                return e(17);
            }
        }
        if arg == "params not an object!" {
            return e(18);
        }
        if arg.starts_with("failed parsing params with '") {
            return e(19);
        }
        if cmd == "fs" && (arg.starts_with("params misses cmd or path") || arg.starts_with("cmd '") || arg.starts_with("path '") || arg.contains("corrupt zip file")) {
            return e(20);
        }
        return None;
    }
}

// ---------------------------------------------------------------- the reference tracker (what the replies imply)
#[derive(Default, Clone)]
struct Tracker {
    open: bool,
    mode: u8,
    plugins: Vec<(String, bool)>,
    live: Vec<(u32, bool)>, // id, is_stream
    ever: Vec<u32>,         // every id ever returned
    nmsgs: u32,             // last FileInfo since the open
    closed_ok_before: bool, // the previous command was a successful close
    paused: bool,
    archive: bool,          // the open took the archive path
    extract_done: bool,     // ... and the extraction result is known to have been taken over
    exp_files: u32,         // files in file_streams (after the extraction)
    exp_msgs: u32,          // messages of those files
    got_progress: bool,     // a Progress frame was seen since the open
    lc_table: Option<String>, // the lifecycle table the open file makes the lifecycle thread publish (Coq event), if known
    lc_table_given: bool,   // ... and it was handed to the model since the open
}

/// the state of the session model the next command meets (for the state x command coverage of the evidence)
fn state_label(tr: &Tracker) -> String {
    let base = if !tr.open {
        "closed"
    } else if tr.archive && !tr.extract_done {
        if tr.exp_files == 0 {
            "arch_no_streams"
        } else {
            "arch_extracting"
        }
    } else if tr.mode == 2 {
        "collect_none"
    } else if tr.mode == 1 {
        if tr.paused {
            "one_pass_paused"
        } else {
            "one_pass_running"
        }
    } else if tr.paused {
        "paused"
    } else if tr.nmsgs < tr.exp_msgs {
        "parsing"
    } else {
        "parsed"
    };
    base.to_string()
}
/// commands whose handler iterates over a collection to find a match (plugins by name, streams by id) or builds
/// one (filters): their reply count is always checked exactly with a sentinel
fn wants_probe(frame: &str) -> bool {
    matches!(command_of(frame), "plugin_cmd" | "stop" | "stream_change_window" | "stream_binary_search" | "stream_search" | "stream" | "query" | "fs")
}
fn cmd_label(frame: &str) -> &'static str {
    match command_of(frame) {
        "open" => "open",
        "close" => "close",
        "pause" => "pause",
        "resume" => "resume",
        "stream" => "stream",
        "query" => "query",
        "stop" => "stop",
        "stream_change_window" => "stream_change_window",
        "stream_binary_search" => "stream_binary_search",
        "stream_search" => "stream_search",
        "plugin_cmd" => "plugin_cmd",
        "fs" => "fs",
        _ => "unknown",
    }
}
const ALL_STATES: &[&str] = &["closed", "arch_no_streams", "arch_extracting", "collect_none", "one_pass_paused", "one_pass_running", "paused", "parsing", "parsed"];
const ALL_CMDS: &[&str] = &["open", "close", "pause", "resume", "stream", "query", "stop", "stream_change_window", "stream_binary_search", "stream_search", "plugin_cmd", "fs", "unknown"];

/// the command word the dispatcher sees (text before the first space)
fn command_of(frame: &str) -> &str {
    frame.splitn(2, ' ').next().unwrap_or("")
}
fn params_of(frame: &str) -> &str {
    let mut it = frame.splitn(2, ' ');
    it.next();
    it.next().unwrap_or("")
}

#[derive(Clone, Debug)]
enum Ev {
    Msgs(u32),
    Done(u32),
    Extracted(u32),
    /// a pass that read the (final) lifecycle table of the open file: Coq term of the event
    Lcs(String),
}

struct CmdResult {
    extra: Vec<String>, // further reply frames to this command (seen before the notice of the sentinel behind it)
    state: String, // model state the command met (see state_label)
    pre: Vec<Ev>,
    nmsgs: u32,
    reply: Option<String>, // None: no reply (dead connection / timeout)
    reply_ms: u128,
    dead: Option<String>,
}

struct SessionResult {
    cmds: Vec<Cmd>,
    results: Vec<CmdResult>,
    conn_alive: bool,
    proc_alive: bool,
    stderr_panic: Option<String>,
    extra_replies: Vec<String>,
    violations: Vec<(String, String)>, // clause, detail
    tags: Vec<String>,
    connect_failed: bool,
}

/// property oracle for one command, evaluated on the reply and the tracker BEFORE the reply is applied
fn oracle_cmd(tr: &Tracker, cmd: &Cmd, reply: &str, cls: &Option<O>, viol: &mut Vec<(String, String)>) {
    let command = command_of(&cmd.frame);
    let params = params_of(&cmd.frame);
    let known = ["open", "close", "pause", "resume", "stream", "query", "stop", "stream_change_window", "stream_binary_search", "stream_search", "plugin_cmd", "fs"];
    let is_ok = reply.starts_with("ok:");
    let is_err = reply.starts_with("err:");
    let mut fail = |c: &str, d: String| viol.push((c.to_string(), format!("frame {:?}: {}", cmd.frame, d)));
    if !known.contains(&command) {
        if reply != format!("unknown command '{}'!", cmd.frame) {
            fail("reply_form", format!("expected the unknown-command notice, got {:?}", reply));
        }
        return;
    }
    if !is_ok && !is_err {
        fail("reply_form", format!("reply is neither ok: nor err: {:?}", reply));
        return;
    }
    // the reply belongs to this command (exactly-one-reply bookkeeping)
    // an ok: reply is machine readable and names its command (exactly-one-reply bookkeeping; the text after
    // err: is free, there the sentinels do the counting)
    if is_ok {
        let echo_ok = if command == "close" { reply == "ok: 'close'!" } else { reply[3..].trim_start().starts_with(command) };
        if !echo_ok {
            fail("one_reply", format!("reply does not belong to the command: {:?}", reply));
        }
        if cls.is_none() {
            fail("reply_form", format!("ok: reply without the machine readable part of its command {:?}", reply));
        }
    }
    let err_kind: Option<u128> = match cls {
        Some(O::T(v)) => match (&v[0], &v[1]) {
            (O::L(1), O::L(k)) => Some(*k),
            _ => None,
        },
        _ => None,
    };
    match command {
        "open" => {
            if tr.open && is_ok {
                fail("file_open_between_open_and_close", "second open succeeded while a file is open".into());
            }
            if tr.open && is_err {
                if let Some(O::T(v)) = cls {
                    if let (O::L(1), O::L(0), O::T(p)) = (&v[0], &v[1], &v[2]) {
                        let shown = if let Some(O::L(n)) = p.first() { *n as u32 } else { u32::MAX };
                        let ok = if tr.archive && !tr.extract_done { shown == 0 || shown == tr.exp_files } else { shown == tr.exp_files };
                        if !ok {
                            fail("state_consistent", format!("the refused open shows {} open file(s), the open context has {}", shown, tr.exp_files));
                        }
                    }
                }
            }
            if !tr.open {
                match &cmd.orc {
                    OrcS::Open(Some(_)) if !is_ok => fail(if tr.closed_ok_before { "close_then_open" } else { "open_succeeds" }, format!("open of readable files failed: {:?}", reply)),
                    OrcS::Open(None) if is_ok => fail("open_fails", "open with an invalid body / unreadable files succeeded".into()),
                    _ => {}
                }
            }
        }
        "close" | "pause" | "resume" => {
            if is_ok != tr.open {
                fail("file_open_between_open_and_close", format!("{} answered {:?} while file open = {}", command, reply, tr.open));
            }
        }
        "stream" | "query" => {
            if is_ok && !tr.open {
                fail("file_open_between_open_and_close", "stream created without an open file".into());
            }
            if tr.open && tr.mode != 2 {
                if let OrcS::Stream(Some((one_pass, ..))) = &cmd.orc {
                    let want_ok = !(tr.mode == 1 && !one_pass);
                    if want_ok != is_ok {
                        fail("stream_created", format!("valid stream request answered {:?}", reply));
                    }
                }
            }
        }
        "stop" | "stream_change_window" | "stream_binary_search" | "stream_search" => {
            let p0 = params.split(' ').next().unwrap_or("");
            match p0.parse::<u32>() {
                Ok(id) => {
                    let live = tr.open && tr.live.iter().any(|x| x.0 == id);
                    if !live && is_ok {
                        fail("stream_id_usable_exactly_while_live", format!("id {} is not live but {:?}", id, reply));
                    }
                    if live && command == "stop" && !is_ok {
                        fail("stream_id_usable_exactly_while_live", format!("stop of live id {} answered {:?}", id, reply));
                    }
                    if live && matches!(err_kind, Some(11) | Some(12) | Some(14)) {
                        fail("stream_id_usable_exactly_while_live", format!("live id {} reported unknown: {:?}", id, reply));
                    }
                }
                Err(_) => {
                    if is_ok {
                        fail("stream_id_usable_exactly_while_live", format!("no valid id but {:?}", reply));
                    }
                }
            }
        }
        "plugin_cmd" => {
            if is_ok && !tr.open {
                fail("file_open_between_open_and_close", "plugin_cmd ok without an open file".into());
            }
        }
        "fs" => {
            // where the template knows by construction what its path names
            if let OrcS::Fs(Some(exp), _) = &cmd.orc {
                if *exp != is_ok {
                    fail("fs_outcome", format!("expected {} for what the path names, got {:?}", if *exp { "ok:" } else { "err:" }, reply));
                }
            }
        }
        _ => {}
    }
}

/// applies a reply (already classified) to the tracker
fn track(tr: &mut Tracker, cmd: &Cmd, cls: &Option<O>, viol: &mut Vec<(String, String)>) {
    tr.closed_ok_before = false;
    let (class, kind, payload) = match cls {
        Some(O::T(v)) => match (&v[0], &v[1], &v[2]) {
            (O::L(c), O::L(k), O::T(p)) => (*c, *k, p.iter().map(|x| if let O::L(n) = x { *n } else { 0 }).collect::<Vec<u128>>()),
            _ => return,
        },
        _ => return,
    };
    if class != 0 {
        return;
    }
    match kind {
        0 => {
            tr.open = true;
            tr.live.clear();
            tr.nmsgs = 0;
            if let OrcS::Open(Some((m, _, p))) = &cmd.orc {
                tr.mode = *m;
                tr.plugins = p.clone();
            }
            let (archive, nf, nm) = open_facts(&cmd.frame);
            tr.archive = archive;
            tr.extract_done = false;
            tr.exp_files = nf;
            tr.exp_msgs = nm;
            tr.paused = tr.mode == 1;
            tr.got_progress = false;
            tr.lc_table = content_of_open(&cmd.frame).and_then(|c| c.table.as_ref()).map(|t| lc_table_coq(t));
            tr.lc_table_given = false;
        }
        1 => tr.paused = payload[0] == 1,
        2 => {
            tr.open = false;
            tr.live.clear();
            tr.nmsgs = 0;
            tr.closed_ok_before = true;
        }
        3 => {
            let id = payload[1] as u32;
            if tr.ever.contains(&id) {
                viol.push(("stream_ids_fresh".into(), format!("id {} returned twice", id)));
            }
            tr.ever.push(id);
            tr.live.push((id, payload[0] == 1));
        }
        6 => {
            let (old, new) = (payload[0] as u32, payload[1] as u32);
            if tr.ever.contains(&new) {
                viol.push(("stream_ids_fresh".into(), format!("renewed id {} returned twice", new)));
            }
            tr.ever.push(new);
            if let Some(x) = tr.live.iter_mut().find(|x| x.0 == old) {
                x.0 = new;
            }
        }
        7 => {
            let id = payload[0] as u32;
            if let Some(p) = tr.live.iter().position(|x| x.0 == id) {
                tr.live.remove(p);
            }
        }
        _ => {}
    }
}

// ---------------------------------------------------------------- generator
const OPEN_OK: &[(&str, u8, bool, &[(&str, bool)])] = &[
    (r#"{"files":["@A"]}"#, 0, false, &[]),
    (r#"{"files":["@A","@B"],"sort":true}"#, 0, true, &[]),
    (r#"{"files":["@B","@A"],"collect":"all"}"#, 0, false, &[]),
    (r#"{"files":["@A"],"collect":true,"sort":"yes"}"#, 0, false, &[]),
    (r#"{"files":["@A"],"collect":false}"#, 2, false, &[]),
    (r#"{"files":["@A"],"collect":"none"}"#, 2, false, &[]),
    (r#"{"files":["@A"],"plugins":[{"name":"FileTransfer"}]}"#, 0, false, &[("FileTransfer", true)]),
    (r#"{"files":["@A"],"plugins":[{"name":"Rewrite","rewrites":[]},{"name":"FileTransfer"}]}"#, 0, false, &[("Rewrite", false), ("FileTransfer", true)]),
    (r#"{"files":["@A"],"plugins":[{"name":"Nope"},{"name":"Rewrite","rewrites":[],"enabled":false}]}"#, 0, false, &[]),
    (r#"{"files":["@NOFILE","@A","@EMPTY"]}"#, 0, false, &[]),
    (r#" {"files" : ["@A"] , "unknown":1}"#, 0, false, &[]),
    // what the file names refer to: modification times before / at / far after the epoch, links, entries that cannot be read
    (r#"{"files":["@E/t_m1h.dlt"]}"#, 0, false, &[]),
    (r#"{"files":["@E/link_a.dlt","@E/t_epoch.dlt"],"sort":true}"#, 0, true, &[]),
    (r#"{"files":["@E/dangling","@E/t_m1ns.dlt","@E/loop","@E/olddir","@E/sock","@E/plain.txt/x"]}"#, 0, false, &[]),
    (r#"{"files":["@E/t_max34.dlt","@B","@E/t_min32.dlt"]}"#, 0, false, &[]),
    (r#"{"files":["@E/fifo","@A","@E/fifo.dlt"]}"#, 0, false, &[]),
];
// the archive path of open: answered ok at once, no file stream until the background extraction was taken over,
// none at all if nothing usable is extracted (open_facts knows what each of them yields)
const OPEN_ARCHIVE: &[(&str, u8, bool, &[(&str, bool)])] = &[
    (r#"{"files":["@ZA"]}"#, 0, false, &[]),
    (r#"{"files":["@ZA"],"sort":true}"#, 0, true, &[]),
    (r#"{"files":["@ZA!/logs/*.dlt"]}"#, 0, false, &[]),
    (r#"{"files":["@ZA!/**/c.dlt"]}"#, 0, false, &[]),
    (r#"{"files":["@ZA/logs/a.dlt"]}"#, 0, false, &[]),
    (r#"{"files":["@A","@ZA!/logs/b.dlt"]}"#, 0, false, &[]),
    (r#"{"files":["@ZA!/logs/a.dlt"],"plugins":[{"name":"FileTransfer"}]}"#, 0, false, &[("FileTransfer", true)]),
    (r#"{"files":["@ZA!/no/such/member*.dlt"]}"#, 0, false, &[]),
    (r#"{"files":["@ZA!/nothing"]}"#, 0, false, &[]),
    (r#"{"files":["@ZA!/readme.txt"]}"#, 0, false, &[]),
    (r#"{"files":["@ZA!/logs/empty.dlt"]}"#, 0, false, &[]),
    (r#"{"files":["@ZA!/[bad"]}"#, 0, false, &[]),
    (r#"{"files":["@ZA!/"]}"#, 0, false, &[]),
    (r#"{"files":["@ZA!/logs/*.dlt"],"collect":false}"#, 2, false, &[]),
    (r#"{"files":["@BADZIP"]}"#, 0, false, &[]),
    (r#"{"files":["@BADZIP!/x*.dlt"]}"#, 0, false, &[]),
    (r#"{"files":["@ZM"]}"#, 0, false, &[]),
    (r#"{"files":["@ZH"]}"#, 0, false, &[]),
    (r#"{"files":["@ZS"]}"#, 0, false, &[]),
    (r#"{"files":["@ZS"],"sort":true}"#, 0, true, &[]),
    (r#"{"files":["@E/old.zip"]}"#, 0, false, &[]),
    (r#"{"files":["@E/old.zip!/logs/*.dlt"]}"#, 0, false, &[]),
    (r#"{"files":["@E/link.zip"]}"#, 0, false, &[]),
    (r#"{"files":["@E/UPPER.ZIP"]}"#, 0, false, &[]),
    (r#"{"files":["@E/data.zip"]}"#, 0, false, &[]),
    (r#"{"files":["@E/nested.zip"]}"#, 0, false, &[]),
    (r#"{"files":["@E/emptyarch.zip"]}"#, 0, false, &[]),
    (r#"{"files":["@E/zero.zip"]}"#, 0, false, &[]),
    (r#"{"files":["@E/dir.zip","@E/trunc.zip"]}"#, 0, false, &[]),
    (r#"{"files":["@E/fifo.zip"]}"#, 0, false, &[]),
];
const OPEN_BIG: &[(&str, u8, bool, &[(&str, bool)])] = &[
    (r#"{"files":["@BIG"]}"#, 0, false, &[]),
    (r#"{"files":["@BIG"],"sort":true}"#, 0, true, &[]),
    (r#"{"files":["@BIG"],"collect":false}"#, 2, false, &[]),
    (r#"{"files":["@BIG","@B"],"plugins":[{"name":"FileTransfer"}]}"#, 0, false, &[("FileTransfer", true)]),
];
const OPEN_ONEPASS: &[(&str, u8, bool, &[(&str, bool)])] = &[(r#"{"files":["@A"],"collect":"one_pass_streams"}"#, 1, false, &[])];
const OPEN_ERR: &[&str] = &[
    "",
    "{",
    r#"{"files":"#,
    "{}",
    "[]",
    "null",
    r#"{"files":"@A"}"#,
    r#"{"files":[1]}"#,
    r#"{"files":["@A",2]}"#,
    r#"{"files":[]}"#,
    r#"{"files":["@NOFILE"]}"#,
    r#"{"files":["@EMPTY"]}"#,
    r#"{"files":["@DIR"]}"#,
    r#"{"files":["@A"],"collect":"bla"}"#,
    r#"{"files":["@A"],"plugins":3}"#,
    r#"{"files":["@A"],"plugins":[3]}"#,
    r#"@A"#,
    r#"{"files":["@ZN"]}"#,
    r#"{"files":["@ZN!/x*.dlt"]}"#,
    r#"{"files":["@A!/x"]}"#,
    r#"{"files":["@DIR!/x.dlt"]}"#,
    r#"{"files":["@ZA!/logs/a.dlt"],"collect":"bla"}"#,
    r#"{"files":["@ZA",1]}"#,
    r#"{"files":["@E/dangling"]}"#,
    r#"{"files":["@E/loop","@E/loop_a"]}"#,
    r#"{"files":["@E/olddir"]}"#,
    r#"{"files":["@E/sock"]}"#,
    r#"{"files":["@E/plain.txt","@E/empty.txt","@E/noread.txt"]}"#,
    r#"{"files":["@E/plain.txt/x","@E/nonutf8","@E/noperm"]}"#,
    r#"{"files":["@E/a\u0000b"]}"#,
    r#"{"files":["@E/fifo"]}"#,
    r#"{"files":["@E/fifo.dlt","@E/fifo","@E/sock"]}"#,
];
// (body, one_pass, start, end, pos, neg, event, filter class)
const STREAM_OK: &[(&str, bool, u64, u64, u64, u64, u64, u64)] = &[
    ("{}", false, 0, 20, 0, 0, 0, 0),
    (r#"{"window":[0,3]}"#, false, 0, 3, 0, 0, 0, 0),
    (r#"{"window":[2,7],"binary":true}"#, false, 2, 7, 0, 0, 0, 0),
    (r#"{"window":[5,3],"binary":true}"#, false, 5, 3, 0, 0, 0, 0),
    (r#"{"window":[0,0]}"#, false, 0, 0, 0, 0, 0, 0),
    (r#"{"window":[100,200],"binary":true}"#, false, 100, 200, 0, 0, 0, 0),
    (r#"{"window":[0,100000],"binary":true}"#, false, 0, 100000, 0, 0, 0, 0),
    (r#"{"window":["a",null]}"#, false, 0, 20, 0, 0, 0, 0),
    (r#"{"window":[-1,1.5]}"#, false, 0, 20, 0, 0, 0, 0),
    (r#"{"window":[18446744073709551615,18446744073709551615]}"#, false, 18446744073709551615, 18446744073709551615, 0, 0, 0, 0),
    (r#"{"filters":[{"type":0,"ecu":"ECUR"}],"binary":true}"#, false, 0, 20, 1, 0, 0, 1),
    (r#"{"filters":[{"type":0,"ecu":"ECUR"},{"type":1,"ecu":"NONE"},{"type":3,"ecu":"ECUR"},{"type":2,"ecu":"ECUR"}],"window":[0,4],"binary":true}"#, false, 0, 4, 1, 1, 1, 1),
    (r#"{"filters":[{"type":0,"ecu":"XXXX"}],"window":[0,4]}"#, false, 0, 4, 1, 0, 0, 2),
    (r#"{"filters":[{"type":0,"ecu":"ECUR","enabled":false}]}"#, false, 0, 20, 0, 0, 0, 0),
    (r#"{"filters":[]}"#, false, 0, 20, 0, 0, 0, 0),
    (r#"{"one_pass":true,"binary":true}"#, true, 0, 20, 0, 0, 0, 0),
    (r#"{"one_pass":"yes","sort":"time","type":"snapshot"}"#, false, 0, 20, 0, 0, 0, 0),
    ("5", false, 0, 20, 0, 0, 0, 0),
    ("[]", false, 0, 20, 0, 0, 0, 0),
];
const STREAM_ERR: &[&str] = &["", "{", "x", r#"{"window":[1]}"#, r#"{"window":[1,2,3]}"#, r#"{"window":5}"#, r#"{"window":"0,5"}"#, r#"{"filters":3}"#, r#"{"filters":[{"type":99}]}"#, r#"{"filters":[3]}"#, r#"{"filters":{}}"#];
const SEARCH_OK: &[&str] = &[
    "{}",
    r#"{"max_results":3}"#,
    r#"{"start_idx":2,"filters":[{"type":0,"ecu":"ECUR"}]}"#,
    r#"{"start_idx":1000,"max_results":0}"#,
    r#"{"max_results":18446744073709551615}"#,
    r#"{"max_results":1000000000000,"start_idx":18446744073709551615}"#,
    r#"{"filters":[]}"#,
    r#"{"start_idx":-1,"max_results":1.5}"#,
    "5",
    "[1]",
    r#" {"max_results" : 1}"#,
];
const SEARCH_ERR: &[&str] = &["", "x", "{", r#"{"start_idx":"x"}"#, r#"{"max_results":[1]}"#, r#"{"filters":3}"#, r#"{"filters":[{"type":99}]}"#, r#"{"filters":[1]}"#];
const BINSEARCH: &[&str] = &[
    "index=3", "index=0", "index=9", "index=10", "index=14", "index=15", "index=300", "index=149999", "index=", "index=abc", "index=+4", "index=-1", "index=4294967296", "index", "index=3 extra",
    "time_ms=5", "time_ms=", "time_ms=1640995203000", "time_ms=18446744073709551615", "time_ms=18446744073709552", "time_ms=x", "foo=1", "=", "=5", "Index=3", "time_us=1", "index=3=4", "", " index=3",
];
const WINDOWS: &[&str] = &[
    "1,4", "0,0", "5,3", "0,20", "3,100000", "x,y", ",", "3", "", "1,2,3", "+1,+2", "18446744073709551616,1", "18446744073709551615,18446744073709551615", "1,4 extra", "1, 4", " 1,4", "-1,5", "1;4", "0x1,2", "007,08",
];
const ID_WEIRD: &[&str] = &["", "abc", "-1", "+", "-", "4294967296", "99999999999999999999", "1.0", "0x1", "1_0", "١", "1e3", "+-1", "++1", "1+"];
const PLUGIN_BODIES: &[(&str, u8, &str)] = &[
    ("", 0, ""),
    ("{", 0, ""),
    ("x", 0, ""),
    ("[1]", 1, ""),
    ("5", 1, ""),
    ("null", 1, ""),
    (r#""s""#, 1, ""),
    ("{}", 2, ""),
    (r#"{"name":"FileTransfer"}"#, 2, ""),
    (r#"{"cmd":"save"}"#, 2, ""),
    (r#"{"name":1,"cmd":"x"}"#, 2, ""),
    (r#"{"name":"FileTransfer","cmd":null}"#, 2, ""),
    (r#"{"name":"FileTransfer","cmd":"save"}"#, 3, "FileTransfer"),
    (r#"{"name":"FileTransfer","cmd":"save","params":{"saveAs":"@NOFILE"},"cmdCtx":{"save":{"idx":0}}}"#, 3, "FileTransfer"),
    (r#"{"name":"FileTransfer","cmd":"bla","params":3,"cmdCtx":[]}"#, 3, "FileTransfer"),
    (r#"{"name":"Rewrite","cmd":"save"}"#, 3, "Rewrite"),
    (r#"{"name":"filetransfer","cmd":"save"}"#, 3, "filetransfer"),
    (r#"{"name":"","cmd":""}"#, 3, ""),
    (r#"{"name":"x y","cmd":"y"}"#, 3, "x y"),
];
// (body, shape, fs_ok)
const FS_BODIES: &[(&str, u8, bool)] = &[
    ("", 0, false),
    ("{", 0, false),
    ("[]", 1, false),
    ("7", 1, false),
    ("{}", 2, false),
    (r#"{"cmd":"stat"}"#, 2, false),
    (r#"{"cmd":1,"path":"/tmp"}"#, 2, false),
    (r#"{"cmd":"stat","path":"@DIR"}"#, 3, true),
    (r#"{"cmd":"stat","path":"@A"}"#, 3, true),
    (r#"{"cmd":"readDirectory","path":"@DIR"}"#, 3, true),
    (r#"{"cmd":"readDirectory","path":"@A"}"#, 3, true),
    (r#"{"cmd":"foo","path":"@DIR"}"#, 3, false),
    (r#"{"cmd":"stat","path":"@NOFILE"}"#, 3, false),
    (r#"{"cmd":"readDirectory","path":"@NOFILE"}"#, 3, false),
    (r#"{"cmd":"stat","path":"@NOFILE!/x"}"#, 3, false),
    (r#"{"cmd":"stat","path":"!"}"#, 3, false),
    (r#"{"cmd":"stat","path":""}"#, 3, false),
    (r#"{"cmd":"stat","path":"@A!/x"}"#, 3, false),
    (r#"{"cmd":"stat","path":"@BADZIP!/x"}"#, 3, false),
    (r#"{"cmd":"readDirectory","path":"@BADZIP!/"}"#, 3, false),
    (r#"{"cmd":"readDirectory","path":"@BADZIP!"}"#, 3, false),
];
const UNKNOWN: &[&str] = &[
    "quit", "", " ", "  ", "OPEN {}", "open{}", "Close", "stream_window 1 1,2", "stop\t1", "öpen", " close", "close\n", "stream_stop 1", "ok: open", "err:", "\"close\"", "help me", "pause\u{a0}", "close\0",
];

// ---- composed bodies: the parameter space of the JSON bodies (ground truth computed alongside)
/// plugin configs of `open`: (config, what get_plugin makes of it: Some(name in the plugin state, has apply_command))
const PLUGIN_CFGS: &[(&str, Option<(&str, bool)>)] = &[
    (r#"{"name":"FileTransfer"}"#, Some(("FileTransfer", true))),
    (r#"{"name":"FileTransfer","allowSave":false}"#, Some(("FileTransfer", true))),
    (r#"{"name":"FileTransfer","apid":"toolong","keepFLDA":true}"#, Some(("FileTransfer", true))),
    (r#"{"name":"FileTransfer","allowSave":3}"#, None),
    (r#"{"name":"FileTransfer","enabled":false}"#, None),
    (r#"{"name":"FileTransfer","enabled":"x"}"#, None),
    (r#"{"name":"Rewrite","rewrites":[]}"#, Some(("Rewrite", false))),
    (r#"{"rewrites":[],"name":"Rewrite","enabled":true}"#, Some(("Rewrite", false))),
    (r#"{"name":"Rewrite"}"#, None),
    (r#"{"name":"Rewrite","rewrites":3}"#, None),
    (r#"{"name":"Rewrite","rewrites":[],"enabled":null}"#, None),
    (r#"{"name":"SomeIp","fibexDir":"@DIR"}"#, Some(("SomeIp", false))),
    (r#"{"name":"SomeIp"}"#, None),
    (r#"{"name":"NonVerbose","fibexDir":"@DIR"}"#, Some(("NonVerbose", false))),
    (r#"{"name":"NonVerbose"}"#, None),
    (r#"{"name":"CAN","fibexDir":"@DIR"}"#, Some(("CAN", false))),
    (r#"{"name":"CAN"}"#, None),
    (r#"{"name":"Muniic"}"#, None),
    (r#"{"name":"Export"}"#, None),
    (r#"{"name":"Export","exportFileName":"@NOFILE"}"#, None),
    (r#"{"name":"rewrite","rewrites":[]}"#, None),
    (r#"{"name":"Nope"}"#, None),
    (r#"{"name":"\u00fcnknown \"x\""}"#, None),
    (r#"{"name":5}"#, None),
    (r#"{}"#, None),
    // directories named by a plugin config: old, with names that are not UTF-8, a link loop, a file, missing, inside an archive
    (r#"{"name":"CAN","fibexDir":"@E/olddir"}"#, Some(("CAN", false))),
    (r#"{"name":"SomeIp","fibexDir":"@E/nonutf8"}"#, Some(("SomeIp", false))),
    (r#"{"name":"SomeIp","fibexDir":"@E/loop"}"#, None),
    (r#"{"name":"SomeIp","fibexDir":"@E/plain.txt"}"#, None),
    (r#"{"name":"NonVerbose","fibexDir":"@E/nothing"}"#, None),
    (r#"{"name":"SomeIp","fibexDir":"@E/old.zip!/logs"}"#, None),
];
const PLUGIN_NAMES: &[&str] = &["FileTransfer", "Rewrite", "SomeIp", "NonVerbose", "CAN", "Muniic", "Export", "Nope", "filetransfer", "", "File Transfer", "\\u00fcnknown"];

/// `open` body composed from files list x options x plugin list
fn compose_open(rng: &mut Rng, files: &Files) -> (String, OrcS) {
    let mut ok = true;
    let mut keys: Vec<String> = vec![];
    // files
    let fl: &[&str] = *rng.pick(&[
        &["@A"][..], &["@A"], &["@A"], &["@B"], &["@A", "@B"], &["@B", "@A"], &["@A", "@A"], &["@A", "@A", "@B", "@B"], &["@B", "@A", "@C"],
        &["@NOFILE", "@A"], &["@EMPTY", "@B", "@DIR"], &["@NOFILE"], &["@EMPTY", "@DIR"], &[],
        &["@E/t_m1h.dlt"], &["@E/t_m1ns.dlt", "@E/link_a.dlt"], &["@E/dangling", "@E/t_epoch.dlt", "@E/loop"], &["@E/olddir", "@E/sock"], &["@E/fifo.dlt"], &["@E/fifo", "@B"], &["@E/t_r0.dlt", "@E/t_r1.dlt", "@E/t_y2400.dlt"],
    ]);
    match rng.below(14) {
        0 => {
            ok = false;
            keys.push(format!(r#""files":{}"#, rng.pick(&[r#""@A""#, "3", "null", r#"{"0":"@A"}"#, r#"["@A",3]"#, r#"[["@A"]]"#, r#"[null]"#])));
        }
        1 => ok = false, // no files key
        _ => {
            keys.push(format!(r#""files":[{}]"#, fl.iter().map(|f| format!("\"{}\"", f)).collect::<Vec<_>>().join(",")));
        }
    }
    // sort
    let mut sort = false;
    match rng.below(8) {
        0 => {
            sort = true;
            keys.push(r#""sort":true"#.into())
        }
        1 => keys.push(r#""sort":false"#.into()),
        2 => keys.push(format!(r#""sort":{}"#, rng.pick(&[r#""true""#, "1", "null", "[]", r#""time""#]))),
        _ => {}
    }
    // collect
    let mut mode = 0u8;
    match rng.below(10) {
        0 => keys.push(format!(r#""collect":{}"#, rng.pick(&["true", r#""all""#, r#""true""#, "3", "null", "[]", "{}"]))),
        1 => {
            mode = 2;
            keys.push(format!(r#""collect":{}"#, rng.pick(&["false", r#""none""#, r#""false""#])))
        }
        2 => {
            if rng.chance(1, 2) {
                ok = false;
                keys.push(format!(r#""collect":{}"#, rng.pick(&[r#""bla""#, r#""""#, r#""ALL""#, r#""one_pass""#])))
            }
        }
        _ => {}
    }
    // plugins: 0..3 configs, duplicates wanted
    let mut plugins: Vec<(String, bool)> = vec![];
    match rng.below(10) {
        0 => {}
        1 => keys.push(format!(r#""plugins":{}"#, rng.pick(&["[]", "null"]))),
        2 => {
            // wrong type: refused (after the files were looked at)
            ok = false;
            keys.push(format!(r#""plugins":{}"#, rng.pick(&["3", "{}", r#""FileTransfer""#, r#"[3]"#, r#"[{"name":"FileTransfer"},null]"#, r#"[[]]"#, r#"["Rewrite"]"#])));
        }
        _ => {
            let k = rng.range(1, 3);
            let mut cfgs: Vec<&(&str, Option<(&str, bool)>)> = vec![];
            for i in 0..k {
                if i > 0 && rng.chance(1, 2) {
                    // duplicate of an earlier one (same config or another config of the same plugin)
                    let prev = *rng.pick(&cfgs);
                    let same: Vec<&(&str, Option<(&str, bool)>)> = PLUGIN_CFGS.iter().filter(|c| c.1.is_some() && c.1.map(|x| x.0) == prev.1.map(|x| x.0)).collect();
                    cfgs.push(if same.is_empty() || rng.chance(1, 2) { prev } else { *rng.pick(&same) });
                } else if rng.chance(2, 3) {
                    let act: Vec<&(&str, Option<(&str, bool)>)> = PLUGIN_CFGS.iter().filter(|c| c.1.is_some()).collect();
                    cfgs.push(*rng.pick(&act));
                } else {
                    cfgs.push(rng.pick(PLUGIN_CFGS));
                }
            }
            for c in &cfgs {
                if let Some((n, h)) = c.1 {
                    plugins.push((n.to_string(), h));
                }
            }
            keys.push(format!(r#""plugins":[{}]"#, cfgs.iter().map(|c| c.0).collect::<Vec<_>>().join(",")));
        }
    }
    if rng.chance(1, 5) {
        keys.push((*rng.pick(&[r#""foo":1"#, r#""schl\u00fcssel":"w\u00e4rt""#, r#""Files":["@NOFILE"]"#, r#""window":[0,1]"#])).to_string());
    }
    // key order is free
    for i in (1..keys.len()).rev() {
        let j = rng.below(i as u64 + 1) as usize;
        keys.swap(i, j);
    }
    let frame = files.subst(&format!("open {{{}}}", keys.join(if rng.chance(1, 4) { " , " } else { "," })));
    let (_, nfiles, _) = open_facts(&frame);
    if nfiles == 0 {
        ok = false;
    }
    (frame, if ok { OrcS::Open(Some((mode, sort, plugins))) } else { OrcS::Open(None) })
}

/// filters of stream / query / stream_search bodies: (json, kind 0 pos 1 neg 2 marker 3 event, enabled, matches every message)
const FILTERS: &[(&str, u8, bool, bool)] = &[
    (r#"{"type":0,"ecu":"ECUR"}"#, 0, true, true),
    (r#"{"ecu":"ECUR","type":0,"enabled":true}"#, 0, true, true),
    (r#"{"type":0,"ecu":"XXXX"}"#, 0, true, false),
    (r#"{"type":1,"ecu":"NONE"}"#, 1, true, false),
    (r#"{"type":1,"ecu":"ECUR"}"#, 1, true, true),
    (r#"{"type":3,"ecu":"ECUR"}"#, 3, true, true),
    (r#"{"type":3,"ecu":"XXXX"}"#, 3, true, false),
    (r#"{"type":2,"ecu":"ECUR"}"#, 2, true, true),
    (r#"{"type":0,"ecu":"ECUR","enabled":false}"#, 0, false, true),
    (r#"{"type":1,"ecu":"ECUR","enabled":false}"#, 1, false, true),
];
const FILTERS_BAD: &[&str] = &[r#"{"type":99}"#, "3", r#"{"type":"0","ecu":"ECUR"}"#, "{}", "null", r#"{"type":-1}"#, r#"[{"type":0}]"#];

/// (json of the filters array, ok?, #pos, #neg, #event, filter class 0 inactive / 1 all match / 2 none)
fn compose_filters(rng: &mut Rng) -> (String, bool, u64, u64, u64, u64) {
    let k = rng.below(5);
    let mut items: Vec<&(&str, u8, bool, bool)> = vec![];
    let mut parts: Vec<String> = vec![];
    let mut ok = true;
    for i in 0..k {
        if rng.chance(1, 12) {
            ok = false;
            parts.push((*rng.pick(FILTERS_BAD)).to_string());
        } else {
            let f = if i > 0 && !items.is_empty() && rng.chance(1, 3) { *rng.pick(&items) } else { rng.pick(FILTERS) };
            items.push(f);
            parts.push(f.0.to_string());
        }
    }
    let en: Vec<&&(&str, u8, bool, bool)> = items.iter().filter(|f| f.2).collect();
    let cnt = |k: u8| en.iter().filter(|f| f.1 == k).count() as u64;
    let (np, nn, ne) = (cnt(0), cnt(1), cnt(3));
    let any = |k: u8| en.iter().any(|f| f.1 == k && f.3);
    let all_match = (np == 0 || any(0)) && !any(1) && (ne == 0 || any(3));
    let class = if np + nn + ne == 0 { 0 } else if all_match { 1 } else { 2 };
    (format!("[{}]", parts.join(",")), ok, np, nn, ne, class)
}

const NUMS: &[(&str, Option<u64>)] = &[
    ("0", Some(0)), ("1", Some(1)), ("3", Some(3)), ("5", Some(5)), ("20", Some(20)), ("1000", Some(1000)), ("18446744073709551615", Some(18446744073709551615)),
    ("18446744073709551616", None), ("-1", None), ("1.5", None), ("1e3", None), ("\"7\"", None), ("null", None), ("true", None), ("[]", None), ("-0", None),
];

/// stream / query body composed from window x filters x flags x unknown keys
fn compose_stream(rng: &mut Rng) -> (String, OrcS) {
    let mut ok = true;
    let mut keys: Vec<String> = vec![];
    let (mut ws, mut we) = (0u64, 20u64);
    match rng.below(8) {
        0 | 1 => {}
        2 => {
            ok = false;
            keys.push(format!(r#""window":{}"#, rng.pick(&["[1]", "[1,2,3]", "[]", "5", r#""0,5""#, "{}", "true"])));
        }
        3 => keys.push(r#""window":null"#.into()),
        _ => {
            let a = rng.pick(NUMS);
            let b = rng.pick(NUMS);
            ws = a.1.unwrap_or(0);
            we = b.1.unwrap_or(20);
            keys.push(format!(r#""window":[{},{}]"#, a.0, b.0));
        }
    }
    let (mut np, mut nn, mut ne, mut class) = (0, 0, 0, 0);
    match rng.below(6) {
        0 | 1 => {}
        2 => {
            if rng.chance(1, 2) {
                keys.push(r#""filters":null"#.into())
            } else {
                ok = false;
                keys.push(format!(r#""filters":{}"#, rng.pick(&["3", "{}", r#""x""#, "true"])))
            }
        }
        _ => {
            let f = compose_filters(rng);
            ok &= f.1;
            np = f.2;
            nn = f.3;
            ne = f.4;
            class = f.5;
            keys.push(format!(r#""filters":{}"#, f.0));
        }
    }
    let mut one_pass = false;
    match rng.below(8) {
        0 => {
            one_pass = true;
            keys.push(r#""one_pass":true"#.into())
        }
        1 => keys.push(format!(r#""one_pass":{}"#, rng.pick(&["false", r#""true""#, "1", "null"]))),
        _ => {}
    }
    // large windows only as binary streams (a text stream would send one frame per message)
    if we.saturating_sub(ws) > 1000 || rng.chance(1, 2) {
        keys.push(r#""binary":true"#.into());
    } else if rng.chance(1, 3) {
        keys.push(format!(r#""binary":{}"#, rng.pick(&["false", r#""x""#, "null", "0"])));
    }
    if rng.chance(1, 4) {
        keys.push((*rng.pick(&[r#""sort":"time""#, r#""type":"snapshot""#, r#""w\u00efndow":[1,2]"#, r#""Window":[7,8]"#, r#""filter":[3]"#])).to_string());
    }
    for i in (1..keys.len()).rev() {
        let j = rng.below(i as u64 + 1) as usize;
        keys.swap(i, j);
    }
    (format!("{{{}}}", keys.join(",")), if ok { OrcS::Stream(Some((one_pass, ws, we, np, nn, ne, class))) } else { OrcS::Stream(None) })
}

/// stream_search body: (json, accepted?)
fn compose_search(rng: &mut Rng) -> (String, bool) {
    let mut ok = true;
    let mut keys: Vec<String> = vec![];
    for key in ["start_idx", "max_results"] {
        match rng.below(4) {
            0 => {}
            1 => {
                // only numbers and null are accepted
                let v = *rng.pick(&[r#""x""#, "[1]", "{}", "true"]);
                ok = false;
                keys.push(format!(r#""{}":{}"#, key, v));
            }
            _ => {
                let n = rng.pick(NUMS);
                if !(n.0.starts_with(|c: char| c.is_ascii_digit() || c == '-') || n.0 == "null") {
                    ok = false;
                }
                keys.push(format!(r#""{}":{}"#, key, n.0));
            }
        }
    }
    match rng.below(4) {
        0 => {}
        1 => {
            if rng.chance(1, 2) {
                keys.push(r#""filters":null"#.into())
            } else {
                ok = false;
                keys.push(format!(r#""filters":{}"#, rng.pick(&["3", "{}", r#""x""#])))
            }
        }
        _ => {
            let f = compose_filters(rng);
            ok &= f.1;
            keys.push(format!(r#""filters":{}"#, f.0));
        }
    }
    if rng.chance(1, 5) {
        keys.push((*rng.pick(&[r#""foo":[1,2]"#, r#""\u00fc":1"#, r#""startIdx":"x""#])).to_string());
    }
    for i in (1..keys.len()).rev() {
        let j = rng.below(i as u64 + 1) as usize;
        keys.swap(i, j);
    }
    (format!("{{{}}}", keys.join(",")), ok)
}

/// plugin_cmd body aimed at the configured plugins (0, 1 or several of them carry the name)
fn compose_plugin_cmd(rng: &mut Rng, tr: &Tracker, files: &Files) -> (String, OrcS) {
    let name: String = if !tr.plugins.is_empty() && rng.chance(2, 3) { rng.pick(&tr.plugins).0.clone() } else { (*rng.pick(PLUGIN_NAMES)).to_string() };
    let mut keys: Vec<String> = vec![];
    let mut shape = 3u8;
    match rng.below(8) {
        0 => shape = 2,
        1 => {
            shape = 2;
            keys.push(format!(r#""name":{}"#, rng.pick(&["5", "null", r#"["FileTransfer"]"#, "true"])));
        }
        _ => keys.push(format!(r#""name":"{}""#, name)),
    }
    match rng.below(8) {
        0 => shape = 2,
        1 => {
            shape = 2;
            keys.push(format!(r#""cmd":{}"#, rng.pick(&["5", "null", "{}", "false"])));
        }
        _ => keys.push(format!(r#""cmd":"{}""#, rng.pick(&["save", "save", "foo", "", "SAVE", "s\\u00e4ve"]))),
    }
    if rng.chance(1, 2) {
        keys.push(format!(r#""params":{}"#, rng.pick(&[r#"{"saveAs":"@NOFILE"}"#, r#"{"saveAs":3}"#, "{}", "3", "null", r#"{"saveAs":"@DIR"}"#, r#"{"saveAs":"@E/olddir"}"#, r#"{"saveAs":"@E/loop"}"#, r#"{"saveAs":"@E/nothing/x"}"#, r#"{"saveAs":"@E/plain.txt/x"}"#])));
    }
    if rng.chance(1, 2) {
        keys.push(format!(r#""cmdCtx":{}"#, rng.pick(&[r#"{"save":{"idx":0}}"#, r#"{"save":{"idx":-1}}"#, r#"{"save":3}"#, "{}", "[]", r#"{"save":{"idx":18446744073709551615}}"#])));
    }
    for i in (1..keys.len()).rev() {
        let j = rng.below(i as u64 + 1) as usize;
        keys.swap(i, j);
    }
    let n = if shape == 3 { serde_json::from_str::<String>(&format!("\"{}\"", name)).unwrap_or(name.clone()) } else { String::new() };
    (files.subst(&format!("plugin_cmd {{{}}}", keys.join(","))), OrcS::Json(shape, n, false))
}

/// `fs {"cmd":..,"path":..}` with the path properly escaped
fn fs_frame(cmd: &str, path: &str) -> String {
    format!("fs {{\"cmd\":{},\"path\":{}}}", serde_json::to_string(cmd).unwrap(), serde_json::to_string(path).unwrap())
}
/// what follows a base path: the entry itself, below it, and the archive forms
const FS_FORMS: &[&str] = &["", "/", "/.", "/x", "/..", "!", "!/", "!/x", "!/logs", "!/logs/a.dlt", "!/data", "!/x!/y", "!!", "!/!", "/!"];
const FS_CMDS: &[&str] = &["stat", "stat", "stat", "stat", "readDirectory", "readDirectory", "readDirectory", "read", "Stat", "", "readdirectory", "delete"];

/// by construction of the environment: is `fs <cmd>` on the bare base path of this class answered ok: ?
fn fs_expect(cmd: &str, class: &str, form: &str) -> Option<bool> {
    if cmd != "stat" && cmd != "readDirectory" {
        return Some(false);
    }
    if !form.is_empty() {
        return None;
    }
    match class {
        "missing" | "missing_relative" | "text_empty" | "below_dangling" => Some(false),
        // the link itself can be looked at, following it ends at nothing (not found, and the text has no archive form)
        "symlink_dangling" => Some(cmd == "stat"),
        "archive" | "classic" => None,
        // the entry exists (ok: with its stat / listing, or ok: with an inner error for readDirectory of a non-directory),
        // or the path cannot be resolved for another reason than "not found" (ok: with an inner error)
        _ => Some(true),
    }
}

/// an `fs` command against the value classes of the environment: base x form x cmd x body variant
fn compose_fs(rng: &mut Rng, files: &Files) -> (String, OrcS) {
    let (base, class) = rng.pick(&files.env).clone();
    let form = if rng.chance(1, 2) { "" } else { *rng.pick(FS_FORMS) };
    let cmd = *rng.pick(FS_CMDS);
    let path = format!("{}{}", base, form);
    let pj = serde_json::to_string(&path).unwrap();
    let cj = serde_json::to_string(cmd).unwrap();
    let frame = match rng.below(12) {
        0 => format!("fs {{\"path\":{},\"cmd\":{}}}", pj, cj),
        1 => format!("fs {{\"cmd\":{},\"path\":{},\"x\":[1,{{}}],\"cmd2\":\"stat\"}}", cj, pj),
        2 => format!("fs  {{ \"cmd\" : {} , \"path\" : {} }}", cj, pj),
        3 => format!("fs {{\"cmd\":{},\"path\":{}}}", cj, rng.pick(&["1", "null", "[]", "{}", "true"])),
        4 => format!("fs {{\"cmd\":{},\"path\":{}}}", rng.pick(&["1", "null", "[\"stat\"]"]), pj),
        5 => format!("fs {{\"Cmd\":{},\"Path\":{}}}", cj, pj),
        6 => format!("fs [{},{}]", cj, pj),
        _ => fs_frame(cmd, &path),
    };
    let expect = if frame == fs_frame(cmd, &path) { fs_expect(cmd, class, form) } else { None };
    (frame, OrcS::Fs(expect, None))
}

fn open_ok_cmd(rng: &mut Rng, set: &[(&str, u8, bool, &[(&str, bool)])], files: &Files) -> (String, OrcS) {
    let t = rng.pick(set);
    (format!("open {}", files.subst(t.0)), OrcS::Open(Some((t.1, t.2, t.3.iter().map(|(n, c)| (n.to_string(), *c)).collect()))))
}

struct GenCfg {
    big: bool,
    archive_bias: bool,
    one_pass: bool,
    len: usize,
    malformed_bias: bool,
}

/// next command of an adaptive history
fn gen_cmd(rng: &mut Rng, cfg: &GenCfg, tr: &Tracker, files: &Files, pos: usize) -> Cmd {
    let sleep_ms = match rng.below(10) {
        0 => rng.range(1, 30),
        1 => rng.range(30, 120),
        2 => rng.range(150, 400),
        _ => 0,
    };
    // choice of an id: mostly live, sometimes dead / never issued / malformed
    let pick_id = |rng: &mut Rng| -> String {
        let r = rng.below(if cfg.malformed_bias { 6 } else { 12 });
        if r >= 4 && !tr.live.is_empty() {
            let id = rng.pick(&tr.live).0;
            match rng.below(12) {
                0 => format!("+{}", id),
                1 => format!("0{}", id),
                2 => format!("000{}", id),
                _ => id.to_string(),
            }
        } else {
            match r % 4 {
                0 if !tr.ever.is_empty() => rng.pick(&tr.ever).to_string(),
                1 => rng.below(12).to_string(),
                2 => rng.pick(ID_WEIRD).to_string(),
                _ => [0u64, 4294967295, 77, 1000][rng.below(4) as usize].to_string(),
            }
        }
    };
    // right after an archive open (no file stream yet) the out-of-order commands are the interesting ones: open again, close
    if tr.open && tr.archive && !tr.extract_done && rng.chance(1, 3) {
        let (frame, orc) = if rng.chance(2, 3) { open_ok_cmd(rng, OPEN_OK, files) } else { open_ok_cmd(rng, OPEN_ARCHIVE, files) };
        return Cmd { sleep_ms: if rng.chance(1, 2) { 0 } else { rng.range(20, 200) }, wait_lc: 0, wait_msgs: 0, probe: false, frame, orc };
    }
    let want_open = !tr.open && (pos == 0 || rng.chance(3, 5));
    let choice = if want_open && !cfg.malformed_bias { 0 } else { rng.below(100) };
    let (frame, orc): (String, OrcS) = match choice {
        0..=9 => {
            // open
            if !cfg.one_pass && !cfg.big && rng.chance(2, 5) {
                compose_open(rng, files)
            } else if rng.chance(1, 4) {
                (format!("open {}", files.subst(*rng.pick(OPEN_ERR))).trim_end().to_string(), OrcS::Open(None))
            } else if cfg.one_pass {
                open_ok_cmd(rng, OPEN_ONEPASS, files)
            } else if cfg.big && rng.chance(2, 3) {
                open_ok_cmd(rng, OPEN_BIG, files)
            } else if rng.chance(if cfg.archive_bias { 4 } else { 1 }, 5) {
                open_ok_cmd(rng, OPEN_ARCHIVE, files)
            } else {
                open_ok_cmd(rng, OPEN_OK, files)
            }
        }
        10..=17 => ((*rng.pick(&["close", "close", "close ", "close now", "close {}"])).to_string(), OrcS::None),
        18..=24 => ((*rng.pick(if cfg.one_pass { &["resume", "resume", "resume", "pause", "resume x"] } else { &["pause", "resume", "pause ", "resume x", "pause {\"a\":1}"] })).to_string(), OrcS::None),
        25..=44 => {
            let c = if rng.chance(2, 3) { "stream" } else { "query" };
            if !cfg.one_pass && rng.chance(2, 5) {
                let (b, o) = compose_stream(rng);
                (format!("{} {}", c, b), o)
            } else if rng.chance(1, 5) {
                let b = rng.pick(STREAM_ERR);
                (if b.is_empty() && rng.chance(1, 2) { c.to_string() } else { format!("{} {}", c, b) }, OrcS::Stream(None))
            } else {
                let t = if cfg.one_pass {
                    // one-pass sessions: unfiltered streams only (the model does not cover searches on drained messages)
                    if rng.chance(3, 4) {
                        &STREAM_OK[15]
                    } else {
                        let unf: Vec<&(&str, bool, u64, u64, u64, u64, u64, u64)> = STREAM_OK.iter().filter(|t| t.4 + t.5 + t.6 == 0).collect();
                        *rng.pick(&unf)
                    }
                } else {
                    rng.pick(STREAM_OK)
                };
                (format!("{} {}", c, t.0), OrcS::Stream(Some((t.1, t.2, t.3, t.4, t.5, t.6, t.7))))
            }
        }
        45..=54 => {
            let id = pick_id(rng);
            let f = match rng.below(8) {
                0 => "stop".to_string(),
                1 => format!("stop  {}", id),
                2 => format!("stop {} extra", id),
                _ => format!("stop {}", id),
            };
            (f, OrcS::Id(false))
        }
        55..=64 => {
            let id = pick_id(rng);
            let w = rng.pick(WINDOWS);
            (if w.is_empty() { format!("stream_change_window {}", id) } else { format!("stream_change_window {} {}", id, w) }, OrcS::Id(false))
        }
        65..=74 => {
            let id = pick_id(rng);
            let mut w = rng.pick(BINSEARCH);
            while cfg.one_pass && w.contains("ndex=") {
                // index lookups depend on which messages are still held (drained ones are gone)
                w = rng.pick(BINSEARCH);
            }
            (if w.is_empty() { format!("stream_binary_search {}", id) } else { format!("stream_binary_search {} {}", id, w) }, OrcS::Id(false))
        }
        75..=84 => {
            let id = pick_id(rng);
            if rng.chance(2, 5) {
                let (b, ok) = compose_search(rng);
                (format!("stream_search {} {}", id, b), OrcS::Id(ok))
            } else if rng.chance(2, 3) {
                (format!("stream_search {} {}", id, rng.pick(SEARCH_OK)), OrcS::Id(true))
            } else {
                let b = rng.pick(SEARCH_ERR);
                (if b.is_empty() { format!("stream_search {}", id) } else { format!("stream_search {} {}", id, b) }, OrcS::Id(false))
            }
        }
        85..=90 if rng.chance(3, 5) => compose_plugin_cmd(rng, tr, files),
        85..=90 => {
            let t = rng.pick(PLUGIN_BODIES);
            let body = files.subst(t.0);
            (if body.is_empty() { "plugin_cmd".to_string() } else { format!("plugin_cmd {}", body) }, OrcS::Json(t.1, t.2.to_string(), false))
        }
        91..=96 if rng.chance(2, 3) => compose_fs(rng, files),
        91..=96 => {
            let t = rng.pick(FS_BODIES);
            let body = files.subst(t.0);
            (if body.is_empty() { "fs".to_string() } else { format!("fs {}", body) }, OrcS::Json(t.1, String::new(), t.2))
        }
        _ => ((*rng.pick(UNKNOWN)).to_string(), OrcS::None),
    };
    let probe = wants_probe(&frame) || rng.chance(1, 2);
    Cmd { sleep_ms, wait_lc: 0, wait_msgs: 0, probe, frame, orc }
}

// ---------------------------------------------------------------- running one session
enum Plan<'a> {
    Fixed(Vec<Cmd>),
    Gen(Rng, GenCfg, &'a Files),
}

fn run_session(plan: Plan, scratch: &Path, tag: &str) -> SessionResult {
    let mut srv = Server::start(scratch, tag);
    let mut first_ws = srv.connect();
    for attempt in 0..3 {
        // the port may have been taken by somebody else between the pick and the bind: then our process is gone
        if first_ws.is_some() && srv.alive() {
            break;
        }
        srv = Server::start(scratch, &format!("{}_r{}", tag, attempt));
        first_ws = srv.connect();
    }
    let mut res = SessionResult {
        cmds: vec![],
        results: vec![],
        conn_alive: true,
        proc_alive: true,
        stderr_panic: None,
        extra_replies: vec![],
        violations: vec![],
        tags: vec![],
        connect_failed: false,
    };
    let mut ws = match first_ws {
        Some(ws) if srv.alive() => ws,
        Some(_) => {
            res.connect_failed = true;
            res.conn_alive = false;
            return res;
        }
        None => {
            res.connect_failed = true;
            res.conn_alive = false;
            return res;
        }
    };
    let mut tr = Tracker::default();
    let mut dead: Option<String> = None;
    let mut pending: Vec<Ev> = vec![];
    let (fixed, mut gen) = match plan {
        Plan::Fixed(v) => (Some(v), None),
        Plan::Gen(r, c, f) => (None, Some((r, c, f))),
    };
    let total = match (&fixed, &gen) {
        (Some(v), _) => v.len(),
        (_, Some((_, c, _))) => c.len + 1,
        _ => 0,
    };
    let lc_msgs: std::cell::RefCell<std::collections::HashMap<u32, u32>> = Default::default();
    let handle_async = |a: Async, tr: &mut Tracker, pending: &mut Vec<Ev>| match a {
        Async::Progress(..) => tr.got_progress = true,
        Async::Lifecycles(l) => {
            for (id, n) in l {
                lc_msgs.borrow_mut().insert(id, n);
            }
        }
        Async::FileInfo(n) => {
            // messages can only arrive once the extraction result was taken over and the parser thread created
            if n > 0 && tr.open && tr.archive && !tr.extract_done {
                tr.extract_done = true;
                pending.push(Ev::Extracted(tr.exp_files));
            }
            tr.nmsgs = n;
            pending.push(Ev::Msgs(n));
            // all messages of the file went through the lifecycle stage: this pass (or one of the next ones) reads the
            // table the file makes the lifecycle thread publish
            if tr.open && n >= tr.exp_msgs && !tr.lc_table_given {
                if let Some(t) = &tr.lc_table {
                    pending.push(Ev::Lcs(t.clone()));
                    tr.lc_table_given = true;
                }
            }
        }
        Async::Done(id) => {
            pending.push(Ev::Done(id));
            tr.live.retain(|x| !(x.0 == id && !x.1));
        }
        _ => {}
    };
    for pos in 0..total {
        let cmd = match (&fixed, &mut gen) {
            (Some(v), _) => v[pos].clone(),
            (_, Some((rng, cfg, files))) => {
                if pos + 1 == total {
                    Cmd { sleep_ms: 0, wait_lc: 0, wait_msgs: 0, probe: false, frame: format!("zz_sentinel_{}", tag), orc: OrcS::None }
                } else {
                    gen_cmd(rng, cfg, &tr, files, pos)
                }
            }
            _ => unreachable!(),
        };
        let mut cmd = cmd;
        if command_of(&cmd.frame) == "fs" {
            // the oracle inputs of the command: what its path names right now
            let expect = match &cmd.orc {
                OrcS::Json(_, _, f) => Some(*f),
                OrcS::Fs(e, _) => *e,
                _ => None,
            };
            cmd.orc = OrcS::Fs(expect, Some(Box::new(fs_probe(&cmd.frame))));
        }
        if dead.is_some() {
            res.results.push(CmdResult { extra: vec![], state: "dead".into(), pre: vec![], nmsgs: tr.nmsgs, reply: None, reply_ms: 0, dead: dead.clone() });
            res.cmds.push(cmd);
            continue;
        }
        // wait for the lifecycle announcement (reading asynchronous frames)
        if cmd.wait_lc > 0 {
            let t0 = Instant::now();
            while dead.is_none() && lc_msgs.borrow().values().map(|x| *x as u64).sum::<u64>() < cmd.wait_lc as u64 {
                if t0.elapsed() > Duration::from_secs(90) {
                    res.violations.push(("harness_wait".into(), format!("lifecycle frames announced only {:?} of {} messages within 90 s", lc_msgs.borrow(), cmd.wait_lc)));
                    break;
                }
                match rx_one(&mut ws) {
                    Rx::Timeout => {}
                    Rx::Async(a) => handle_async(a, &mut tr, &mut pending),
                    Rx::Reply(s) => res.extra_replies.push(s),
                    Rx::Closed(e) => dead = Some(e),
                }
            }
            res.tags.push(format!("waited_lc_ms_{}", t0.elapsed().as_millis() / 1000 * 1000));
        }
        // wait for the load to finish (FileInfo frames)
        if cmd.wait_msgs > 0 {
            let t0 = Instant::now();
            while dead.is_none() && tr.nmsgs < cmd.wait_msgs && t0.elapsed() < Duration::from_secs(3) {
                match rx_one(&mut ws) {
                    Rx::Timeout => {}
                    Rx::Async(a) => handle_async(a, &mut tr, &mut pending),
                    Rx::Reply(s) => res.extra_replies.push(s),
                    Rx::Closed(e) => dead = Some(e),
                }
            }
            res.tags.push(if tr.nmsgs >= cmd.wait_msgs { "waited_load_finished".to_string() } else { "waited_load_timeout".to_string() });
        }
        // wait (reading asynchronous frames)
        let until = Instant::now() + Duration::from_millis(cmd.sleep_ms);
        while Instant::now() < until && dead.is_none() {
            match rx_one(&mut ws) {
                Rx::Timeout => {}
                Rx::Async(a) => handle_async(a, &mut tr, &mut pending),
                Rx::Reply(s) => res.extra_replies.push(s),
                Rx::Closed(e) => dead = Some(e),
            }
        }
        let state_at_send = state_label(&tr);
        if dead.is_none() {
            if let Err(e) = ws.write_message(Message::Text(cmd.frame.clone())) {
                dead = Some(format!("write: {}", e));
            }
        }
        let t0 = Instant::now();
        let mut reply = None;
        while dead.is_none() {
            match rx_one(&mut ws) {
                Rx::Reply(s) => {
                    reply = Some(s);
                    break;
                }
                Rx::Async(a) => handle_async(a, &mut tr, &mut pending),
                Rx::Timeout => {
                    if t0.elapsed() > Duration::from_secs(20) {
                        dead = Some("no reply within 20 s".into());
                    }
                }
                Rx::Closed(e) => dead = Some(e),
            }
        }
        let reply_ms = t0.elapsed().as_millis();
        // a refused open that shows the extracted files proves that the extraction was taken over before it
        if let Some(r) = &reply {
            if tr.open && tr.archive && !tr.extract_done && tr.exp_files > 0 && r.starts_with("err: open ") && r.ends_with("is open. close first!") {
                if r.matches("DltFileInfos {").count() as u32 == tr.exp_files {
                    tr.extract_done = true;
                    pending.push(Ev::Extracted(tr.exp_files));
                }
            }
        }
        let pre = std::mem::take(&mut pending);
        let nmsgs = tr.nmsgs;
        if let Some(r) = &reply {
            let cls = classify_reply(r);
            oracle_cmd(&tr, &cmd, r, &cls, &mut res.violations);
            track(&mut tr, &cmd, &cls, &mut res.violations);
        } else {
            res.violations.push(("one_reply".into(), format!("frame {:?}: no reply ({})", cmd.frame, dead.clone().unwrap_or_default())));
        }
        // exact reply count: a sentinel frame (an unknown command, answered by its notice) right behind the command;
        // every reply-class frame that arrives before the notice is a further answer to the command
        let mut extra = vec![];
        let mut sentinel: Option<(Cmd, CmdResult)> = None;
        if cmd.probe && reply.is_some() && dead.is_none() {
            let sframe = format!("zz_probe_{}_{}", tag, res.cmds.len());
            let notice = format!("unknown command '{}'!", sframe);
            let sstate = state_label(&tr);
            if let Err(e) = ws.write_message(Message::Text(sframe.clone())) {
                dead = Some(format!("write: {}", e));
            }
            let t1 = Instant::now();
            let mut sreply = None;
            while dead.is_none() {
                match rx_one(&mut ws) {
                    Rx::Reply(s) => {
                        if s == notice {
                            sreply = Some(s);
                            break;
                        }
                        extra.push(s);
                    }
                    Rx::Async(a) => handle_async(a, &mut tr, &mut pending),
                    Rx::Timeout => {
                        if t1.elapsed() > Duration::from_secs(20) {
                            dead = Some("no reply to the sentinel within 20 s".into());
                        }
                    }
                    Rx::Closed(e) => dead = Some(e),
                }
            }
            if !extra.is_empty() {
                res.violations.push(("one_reply".into(), format!("frame {:?} was answered by {} reply frames: {:?} + {:?}", cmd.frame, 1 + extra.len(), reply, extra)));
            }
            if sreply.is_none() {
                res.violations.push(("one_reply".into(), format!("sentinel behind {:?}: no notice ({})", cmd.frame, dead.clone().unwrap_or_default())));
            }
            let spre = std::mem::take(&mut pending);
            tr.closed_ok_before = false;
            sentinel = Some((
                Cmd { sleep_ms: 0, wait_lc: 0, wait_msgs: 0, probe: false, frame: sframe, orc: OrcS::None },
                CmdResult { extra: vec![], state: sstate, pre: spre, nmsgs: tr.nmsgs, reply: sreply, reply_ms: t1.elapsed().as_millis(), dead: dead.clone() },
            ));
        }
        res.results.push(CmdResult { extra, state: state_at_send.clone(), pre, nmsgs, reply, reply_ms, dead: dead.clone() });
        res.cmds.push(cmd);
        if let Some((c, r)) = sentinel {
            res.cmds.push(c);
            res.results.push(r);
        }
    }
    // late frames: an additional reply would be a second answer to some command
    let until = Instant::now() + Duration::from_millis(120);
    while Instant::now() < until && dead.is_none() {
        match rx_one(&mut ws) {
            Rx::Reply(s) => res.extra_replies.push(s),
            Rx::Closed(e) => dead = Some(e),
            _ => {}
        }
    }
    for r in &res.extra_replies {
        res.violations.push(("one_reply".into(), format!("additional reply frame {:?}", r)));
    }
    res.conn_alive = dead.is_none();
    if !res.conn_alive {
        std::thread::sleep(Duration::from_millis(100));
        res.violations.push(("connection_alive".into(), format!("connection lost: {}", dead.clone().unwrap_or_default())));
    }
    res.proc_alive = srv.alive();
    if !res.proc_alive {
        res.violations.push(("process_alive".into(), "the server process terminated".into()));
    }
    let st = srv.stderr_text();
    if let Some(l) = st.lines().position(|l| l.contains("panicked at") || l.contains("memory allocation of")) {
        let lines: Vec<&str> = st.lines().collect();
        let msg = lines[l..lines.len().min(l + 2)].join(" | ");
        res.violations.push(("no_panic".into(), msg.clone()));
        res.stderr_panic = Some(msg);
    }
    let _ = ws.close(None);
    res
}

// ---------------------------------------------------------------- recording
fn record(sink: &mut Sink, res: &SessionResult, kind: &str) {
    let mut items = vec![];
    let mut obs_cmds = vec![];
    let mut tags = vec![format!("kind_{}", kind)];
    tags.extend(res.tags.iter().cloned());
    for (c, r) in res.cmds.iter().zip(res.results.iter()) {
        let pre: Vec<String> = r.pre.iter().map(|e| match e {
            Ev::Msgs(n) => format!("TMsgs {}", n),
            Ev::Done(id) => format!("TDone {}", id),
            Ev::Extracted(n) => format!("TExtracted {}", n),
            Ev::Lcs(t) => t.clone(),
        }).collect();
        items.push(format!("it {} {} {}", clist(&pre), cstr(&c.frame), c.orc.coq(r.nmsgs, &c.frame)));
        let o = match &r.reply {
            Some(s) => match classify_reply(s) {
                Some(o) => {
                    if let O::T(v) = &o {
                        if let (O::L(c), O::L(k)) = (&v[0], &v[1]) {
                            tags.push(format!("reply_{}_{}", ["ok", "err", "unknown"][*c as usize], k));
                        }
                    }
                    let mut all = vec![o];
                    for e in &r.extra {
                        all.push(classify_reply(e).unwrap_or(O::T(vec![O::L(8)])));
                    }
                    O::T(all)
                }
                None => O::T(vec![O::T(vec![O::L(8)])]),
            },
            None => O::T(vec![O::L(9)]),
        };
        if r.reply.is_some() {
            tags.push(format!("sx:{}:{}", r.state, cmd_label(&c.frame)));
            if let OrcS::Fs(_, Some(f)) = &c.orc {
                tags.extend(f.tags());
            }
        }
        if r.pre.iter().any(|e| matches!(e, Ev::Extracted(_))) {
            tags.push("event_extracted".into());
        }
        if r.pre.iter().any(|e| matches!(e, Ev::Lcs(_))) {
            tags.push("event_lifecycle_table".into());
        }
        if command_of(&c.frame) == "open" && r.reply.is_some() {
            if let Some(k) = content_of_open(&c.frame).filter(|k| k.class != "plain") {
                tags.push(format!("content:{}", k.class));
                if let Some(t) = &k.table {
                    tags.push(format!("content_lc_keys_{}", match t.len() { 0 => "0", 1 => "1", 2..=3 => "2-3", _ => ">3" }));
                    if t.iter().any(|(_, bag)| bag.len() != 1) {
                        // the lifecycle check's clause table_key_single_value fails on this file (diagnostic here)
                        tags.push("content_lc_key_without_single_value".into());
                    }
                    if t.iter().any(|(k, bag)| bag.iter().any(|(i, _)| i != k)) {
                        tags.push("content_lc_key_value_mismatch".into());
                    }
                } else {
                    tags.push("content_lc_detector_panicked".into());
                }
                if matches!(&c.orc, OrcS::Open(Some((_, true, _)))) {
                    tags.push("content_open_sorted".into());
                }
                if let OrcS::Open(Some((m, _, p))) = &c.orc {
                    tags.push(format!("content_open_collect_{}", m));
                    if !p.is_empty() {
                        tags.push("content_open_plugins".into());
                    }
                }
            }
        }
        if r.pre.iter().any(|e| matches!(e, Ev::Done(_))) {
            tags.push("event_query_done".into());
        }
        obs_cmds.push(o);
        tags.push(format!("cmd_{}", match command_of(&c.frame) {
            x @ ("open" | "close" | "pause" | "resume" | "stream" | "query" | "stop" | "stream_change_window" | "stream_binary_search" | "stream_search" | "plugin_cmd" | "fs") => x,
            _ => "other",
        }));
    }
    let obs = O::T(vec![O::T(obs_cmds), O::b(res.conn_alive)]);
    let input_coq = format!("(1, {})", clist(&items));
    let verdict = match res.violations.first() {
        None => Verdict::Ok,
        Some((c, d)) => Verdict::Fail { clause: c.clone(), detail: format!("{} [{} violation(s)]", d, res.violations.len()) },
    };
    // known-finding classifier: the session used collect:one_pass_streams and the connection thread died in
    // the stream bookkeeping of process_file_context / the search on drained messages
    let mut classes = vec![];
    let used_one_pass = res.cmds.iter().zip(res.results.iter()).any(|(c, r)| matches!(&c.orc, OrcS::Open(Some((1, _, _)))) && r.reply.as_deref().map_or(false, |s| s.starts_with("ok: open")));
    if used_one_pass && !res.conn_alive {
        if let Some(p) = &res.stderr_panic {
            if p.contains("src/bin/adlt/remote.rs") && (p.contains("subtract with overflow") || p.contains("index out of bounds") || p.contains("out of range")) {
                classes.push("one_pass_streams_drained".to_string());
            }
        }
    }
    if used_one_pass {
        tags.push("one_pass".into());
    }
    if !res.conn_alive {
        tags.push("connection_died".into());
    }
    let n_ok_open = res.results.iter().filter(|r| r.reply.as_deref().map_or(false, |s| s.starts_with("ok: open"))).count();
    let n_streams = res.results.iter().filter(|r| r.reply.as_deref().map_or(false, |s| s.starts_with("ok: stream ") || s.starts_with("ok: query "))).count();
    let nontrivial = n_ok_open >= 1 && n_streams >= 1 && res.cmds.len() >= 5;
    let case_json = json!({
        "cmds": res.cmds.iter().map(|c| json!({"sleep_ms": c.sleep_ms, "wait_lc": c.wait_lc, "wait_msgs": c.wait_msgs, "probe": c.probe, "frame": c.frame, "orc": c.orc.json()})).collect::<Vec<_>>(),
        "note": "frames contain absolute paths of the generated files; on replay the scratch directory is rewritten",
        "scratch": SCRATCH.get().cloned().unwrap_or_default(),
        // the session files by content this session opens (seed dependent): written anew on replay
        "content_files": res.cmds.iter().filter(|c| command_of(&c.frame) == "open").filter_map(|c| content_of_open(&c.frame)).filter(|k| k.class != "plain" && k.nmsgs <= 5_000)
            .map(|k| (k.name.clone(), json!(hex(&std::fs::read(&k.path).unwrap_or_default())))).collect::<serde_json::Map<String, Value>>(),
        "replies": res.results.iter().map(|r| json!(r.reply)).collect::<Vec<_>>(),
        "reply_ms": res.results.iter().map(|r| json!(r.reply_ms as u64)).collect::<Vec<_>>(),
        "stderr_panic": res.stderr_panic,
        "violations": res.violations.iter().map(|(c, d)| json!([c, d])).collect::<Vec<_>>(),
    });
    let key = res.cmds.iter().map(|c| c.frame.clone()).collect::<Vec<_>>().join("\n");
    let id = sink.next_id();
    sink.push(Case { id, input_coq, input_json: case_json, obs, verdict, classes, tags, nontrivial, key });
}

fn fixed(cmds: &[(u64, &str, OrcS)], files: &Files) -> Vec<Cmd> {
    cmds.iter().map(|(s, f, o)| Cmd { sleep_ms: *s, wait_lc: 0, wait_msgs: 0, probe: wants_probe(f), frame: files.subst(f), orc: o.clone() }).collect()
}

fn corpus(files: &Files) -> Vec<(&'static str, Vec<Cmd>)> {
    let open_a = OrcS::Open(Some((0, false, vec![])));
    let open_1p = OrcS::Open(Some((1, false, vec![])));
    let st = |o: bool, a: u64, b: u64, p: u64| OrcS::Stream(Some((o, a, b, p, 0, 0, if p > 0 { 1 } else { 0 })));
    vec![
        // fixed defects (witnesses of known_findings.d/C15.json "fixed")
        (
            "fixed_search_no_body",
            fixed(
                &[
                    (0, r#"open {"files":["@A"]}"#, open_a.clone()),
                    (250, r#"stream {"window":[0,3],"binary":true,"filters":[{"type":0,"ecu":"ECUR"}]}"#, st(false, 0, 3, 1)),
                    (100, r#"stream_search 1 {"max_results":3}"#, OrcS::Id(true)),
                    (0, "stream_search 1", OrcS::Id(false)),
                    (0, "stream_search 1 ", OrcS::Id(false)),
                    (0, "pause", OrcS::None),
                ],
                files,
            ),
        ),
        (
            "fixed_time_ms_overflow",
            fixed(
                &[
                    (0, r#"open {"files":["@A"]}"#, open_a.clone()),
                    (250, r#"stream {"window":[0,3],"binary":true}"#, st(false, 0, 3, 0)),
                    (0, "stream_binary_search 1 time_ms=18446744073709551615", OrcS::Id(false)),
                    (0, "stream_binary_search 1 time_ms=18446744073709552", OrcS::Id(false)),
                    (0, "pause", OrcS::None),
                ],
                files,
            ),
        ),
        (
            "fixed_search_max_results",
            fixed(
                &[
                    (0, r#"open {"files":["@A"]}"#, open_a.clone()),
                    (250, r#"stream {"window":[0,3],"binary":true,"filters":[{"type":0,"ecu":"ECUR"}]}"#, st(false, 0, 3, 1)),
                    (100, r#"stream_search 1 {"max_results":18446744073709551615}"#, OrcS::Id(true)),
                    (0, r#"stream_search 1 {"max_results":1000000000000}"#, OrcS::Id(true)),
                    (0, "pause", OrcS::None),
                ],
                files,
            ),
        ),
        (
            "fixed_fs_corrupt_archive",
            fixed(
                &[
                    (0, r#"fs {"cmd":"readDirectory","path":"@BADZIP!/"}"#, OrcS::Json(3, String::new(), false)),
                    (0, r#"fs {"cmd":"stat","path":"@BADZIP!/x"}"#, OrcS::Json(3, String::new(), false)),
                    (0, r#"fs {"cmd":"stat","path":"@BADZIP!"}"#, OrcS::Json(3, String::new(), false)),
                    (0, "close", OrcS::None),
                ],
                files,
            ),
        ),
        (
            "fixed_fifo_blocks_connection",
            fixed(
                &[
                    (0, r#"open {"files":["@E/fifo"]}"#, OrcS::Open(None)),
                    (0, r#"fs {"cmd":"stat","path":"@E/fifo.zip!/x"}"#, OrcS::Fs(Some(false), None)),
                    (0, r#"fs {"cmd":"readDirectory","path":"@E/fifo.zip!"}"#, OrcS::Fs(Some(false), None)),
                    (0, r#"fs {"cmd":"stat","path":"@E/fifo.zip.001!/x"}"#, OrcS::Fs(None, None)),
                    (0, r#"fs {"cmd":"stat","path":"@E/fifo.dlt"}"#, OrcS::Fs(Some(true), None)),
                    (0, r#"open {"files":["@E/fifo.dlt","@A"]}"#, open_a.clone()),
                    (0, r#"fs {"cmd":"stat","path":"@E/fifo.zip!/x"}"#, OrcS::Fs(Some(false), None)),
                    (0, "close", OrcS::None),
                    (0, r#"open {"files":["@E/fifo.zip"]}"#, open_a.clone()),
                    (100, r#"open {"files":["@E/fifo"]}"#, open_a.clone()),
                    (0, "close", OrcS::None),
                    (0, "close", OrcS::None),
                ],
                files,
            ),
        ),
        // close while parsing runs, then open again
        (
            "close_while_parsing",
            fixed(
                &[
                    (0, r#"open {"files":["@BIG"]}"#, open_a.clone()),
                    (0, "close", OrcS::None),
                    (0, r#"open {"files":["@BIG"],"sort":true}"#, OrcS::Open(Some((0, true, vec![])))),
                    (0, r#"stream {"window":[0,100000],"binary":true}"#, st(false, 0, 100000, 0)),
                    (30, "close", OrcS::None),
                    (0, r#"open {"files":["@BIG"]}"#, open_a.clone()),
                    (0, "pause", OrcS::None),
                    (200, "close", OrcS::None),
                    (0, r#"open {"files":["@A"]}"#, open_a.clone()),
                    (0, "close", OrcS::None),
                    (0, "close", OrcS::None),
                ],
                files,
            ),
        ),
        // close with a full pipeline: a million messages, the connection paused right after open, so that the
        // final channel (512k) is full and the threads behind it are blocked when the parse thread has ended;
        // close has to keep draining until the channel is disconnected, then open works again
        (
            "close_full_pipeline",
            fixed(
                &[
                    (0, r#"open {"files":["@HUGE"]}"#, open_a.clone()),
                    (0, "pause", OrcS::None),
                    (4000, "close", OrcS::None),
                    (0, "pause", OrcS::None),
                    (0, r#"open {"files":["@A"]}"#, open_a.clone()),
                    (0, "close", OrcS::None),
                    (0, "close", OrcS::None),
                ],
                files,
            ),
        ),
        // close while the sort stage holds (nearly) the whole file: 2.2 million messages 4 us apart stay in the
        // sorter until the lifecycle thread has ended; the close is sent as soon as the lifecycle frame announces all
        // of them, i.e. while the sorter flushes far more than the final channel (512k) takes
        ("close_sorter_holds_all", {
            let mut v = fixed(
                &[
                    (0, r#"open {"files":["@DENSE"],"sort":true,"collect":false}"#, OrcS::Open(Some((2, true, vec![])))),
                    (0, "close", OrcS::None),
                    (0, "pause", OrcS::None),
                    (0, r#"open {"files":["@B"]}"#, open_a.clone()),
                    (100, "close", OrcS::None),
                    (0, "close", OrcS::None),
                ],
                files,
            );
            v[1].wait_lc = DENSE_MSGS;
            v
        }),
        // every command before any open; arities
        (
            "nothing_open",
            fixed(
                &[
                    (0, "close", OrcS::None),
                    (0, "pause", OrcS::None),
                    (0, "resume", OrcS::None),
                    (0, "stream {}", st(false, 0, 20, 0)),
                    (0, "query", OrcS::Stream(None)),
                    (0, "stop", OrcS::Id(false)),
                    (0, "stop 1", OrcS::Id(false)),
                    (0, "stream_change_window 1 1,2", OrcS::Id(false)),
                    (0, "stream_binary_search 1 index=1", OrcS::Id(false)),
                    (0, "stream_search 1 {}", OrcS::Id(true)),
                    (0, "plugin_cmd {}", OrcS::Json(2, String::new(), false)),
                    (0, "fs {}", OrcS::Json(2, String::new(), false)),
                    (0, "", OrcS::None),
                    (0, "quit", OrcS::None),
                ],
                files,
            ),
        ),
        // queries finish on their own; window renewal; stop of renewed / finished ids
        (
            "ids_lifecycle",
            fixed(
                &[
                    (0, r#"open {"files":["@A","@B"],"sort":true}"#, OrcS::Open(Some((0, true, vec![])))),
                    (300, r#"query {"window":[0,3]}"#, st(false, 0, 3, 0)),
                    (300, "stop 1", OrcS::Id(false)),
                    (0, r#"stream {"window":[0,3],"binary":true}"#, st(false, 0, 3, 0)),
                    (0, "stream_change_window 2 1,4", OrcS::Id(false)),
                    (0, "stream_change_window 2 1,4", OrcS::Id(false)),
                    (0, "stream_change_window +3 5,3", OrcS::Id(false)),
                    (0, "stream_binary_search 4 index=14", OrcS::Id(false)),
                    (0, "stream_binary_search 4 index=15", OrcS::Id(false)),
                    (0, "stop 3", OrcS::Id(false)),
                    (0, "stop 04", OrcS::Id(false)),
                    (0, "stop 4", OrcS::Id(false)),
                    (0, "close", OrcS::None),
                    (0, "stop 4", OrcS::Id(false)),
                ],
                files,
            ),
        ),
        // an archive name goes through the pending-extract path of open (here: a corrupt archive, no messages)
        (
            "archive_open",
            fixed(
                &[
                    (0, r#"open {"files":["@BADZIP"]}"#, open_a.clone()),
                    (100, "stream {}", st(false, 0, 20, 0)),
                    (0, r#"query {"window":[0,2]}"#, st(false, 0, 2, 0)),
                    (150, "stop 1", OrcS::Id(false)),
                    (0, "close", OrcS::None),
                    (0, r#"open {"files":["@A"]}"#, open_a.clone()),
                    (0, "close", OrcS::None),
                ],
                files,
            ),
        ),
        // known finding: one-pass collect mode
        (
            "kf_one_pass_late_stream",
            fixed(
                &[
                    (0, r#"open {"files":["@A"],"collect":"one_pass_streams"}"#, open_1p.clone()),
                    (0, r#"stream {}"#, st(false, 0, 20, 0)),
                    (0, "resume", OrcS::None),
                    (400, r#"stream {"one_pass":true,"binary":true}"#, st(true, 0, 20, 0)),
                    (300, "pause", OrcS::None),
                ],
                files,
            ),
        ),
        (
            "kf_one_pass_late_query",
            fixed(
                &[
                    (0, r#"open {"files":["@A"],"collect":"one_pass_streams"}"#, open_1p.clone()),
                    (0, "resume", OrcS::None),
                    (400, r#"query {"one_pass":true,"window":[0,2]}"#, st(true, 0, 2, 0)),
                    (300, "pause", OrcS::None),
                ],
                files,
            ),
        ),
        (
            "kf_one_pass_window",
            fixed(
                &[
                    (0, r#"open {"files":["@A"],"collect":"one_pass_streams"}"#, open_1p.clone()),
                    (0, r#"stream {"one_pass":true,"binary":true,"window":[0,3]}"#, st(true, 0, 3, 0)),
                    (0, "resume", OrcS::None),
                    (400, "stream_change_window 1 0,5", OrcS::Id(false)),
                    (300, "pause", OrcS::None),
                ],
                files,
            ),
        ),
    ]
}

/// open options as a dimension of the content sessions: (text after the files list, collect mode, sort, plugins)
const CONTENT_OPTS: &[(&str, u8, bool, &[(&str, bool)])] = &[
    ("", 0, false, &[]),
    ("", 0, false, &[]),
    (r#","sort":true"#, 0, true, &[]),
    (r#","collect":false"#, 2, false, &[]),
    (r#","collect":"all","sort":true"#, 0, true, &[]),
    (r#","sort":true,"collect":"none""#, 2, true, &[]),
    (r#","plugins":[{"name":"FileTransfer"}]"#, 0, false, &[("FileTransfer", true)]),
    (r#","plugins":[{"name":"FileTransfer","allowSave":false,"keepFLDA":true}],"sort":true"#, 0, true, &[("FileTransfer", true)]),
    (r#","plugins":[{"name":"Rewrite","rewrites":[]},{"name":"FileTransfer"}]"#, 0, false, &[("Rewrite", false), ("FileTransfer", true)]),
    (r#","plugins":[{"name":"SomeIp","fibexDir":"@DIR"},{"name":"NonVerbose","fibexDir":"@DIR"}]"#, 0, false, &[("SomeIp", false), ("NonVerbose", false)]),
    (r#","plugins":[{"name":"CAN","fibexDir":"@DIR"}],"collect":false"#, 2, false, &[("CAN", false)]),
    (r#","collect":"one_pass_streams""#, 1, false, &[]),
];

/// Sessions on files by content (always run): per file one round
///   open <file> <options>; [wait until the load has finished | do not wait]; a few ticks; stream / query / search /
///   time lookup / window / stop / pause / resume; ticks; close; [open again, ticks, close]
/// with a sentinel behind every command.  What the file makes the background threads publish (lifecycle table with
/// merged / resumed / rebooted lifecycles, plugin states, sorted output, nothing at all) is read by every pass of
/// process_file_context in between.  Stream ids are predictable (fresh process: they count from 1).
fn content_sessions(files: &Files, seed: u64, per_session: usize) -> Vec<(String, Vec<Cmd>)> {
    let mut rng = Rng::new(seed ^ 0x5e55_10c0);
    let mut order: Vec<&Content> = files.content.iter().filter(|c| c.class != "plain").collect();
    for i in (1..order.len()).rev() {
        let j = rng.below(i as u64 + 1) as usize;
        order.swap(i, j);
    }
    let mut out = vec![];
    for (k, chunk) in order.chunks(per_session).enumerate() {
        let mut b = B { v: vec![], next: 1 };
        let mut waits: Vec<(usize, u32)> = vec![]; // (position of the command that waits, messages)
        for c in chunk {
            let big = c.nmsgs > 5_000;
            let rounds = if c.ft || rng.chance(1, 2) { 2 } else { 1 };
            for round in 0..rounds {
                let mut opt = rng.pick(CONTENT_OPTS);
                // no one-pass draining on the long file; a file transfer history meets the FileTransfer plugin first
                while (big && opt.1 == 1) || (c.ft && round == 0 && !opt.3.iter().any(|p| p.0 == "FileTransfer")) {
                    opt = rng.pick(CONTENT_OPTS);
                }
                let (mode, sort) = (opt.1, opt.2);
                let frame = format!(r#"open {{"files":[{}]{}}}"#, serde_json::to_string(&c.path).unwrap(), opt.0);
                if !c.open_ok {
                    // nothing the parser accepts: refused, nothing is open afterwards
                    b.c(0, &frame, OrcS::Open(None));
                    b.c(rng.below(120), "pause", OrcS::None);
                    b.c(0, "close", OrcS::None);
                    break;
                }
                b.c(0, &frame, OrcS::Open(Some((mode, sort, opt.3.iter().map(|(n, h)| (n.to_string(), *h)).collect()))));
                if mode == 1 {
                    // one-pass context (paused at first): no streams here (known finding class), only the passes
                    b.c(0, "resume", OrcS::None);
                    waits.push((b.v.len(), 1));
                    b.c(rng.range(100, 300), "zz_tick one_pass", OrcS::None);
                    b.c(rng.range(100, 250), "pause", OrcS::None);
                    b.c(0, "close", OrcS::None);
                    continue;
                }
                // wait for the load to finish (and a few passes after it), or go on at once
                let wait = round == 1 || rng.chance(2, 3);
                if wait {
                    // a plugin may take messages out (FLDA): wait for the first ones only
                    waits.push((b.v.len(), if c.ft && !opt.3.is_empty() { 1 } else { c.nmsgs }));
                    b.c(rng.range(120, 350), "zz_tick after_load", OrcS::None);
                } else if rng.chance(1, 2) {
                    b.c(0, "zz_tick at_once", OrcS::None);
                }
                let consumes = mode == 0;
                let n = c.nmsgs as u64;
                let mut live: Vec<u32> = vec![];
                for step in 0..rng.range(2, 5) {
                    // streams first where they are possible
                    match if step == 0 && consumes { rng.below(3) } else { rng.below(10) } {
                        0 | 1 => {
                            let (ws, we) = *rng.pick(&[(0u64, 20u64), (0, 3), (2, 7), (0, 100_000), (5, 3), (n.saturating_sub(2), n + 5), (n, n + 1)]);
                            let id = b.stream(if rng.chance(2, 3) { "stream" } else { "query" }, false, ws, we, consumes);
                            if consumes {
                                live.push(id);
                            }
                        }
                        2 => {
                            // a filter that matches no message of any content file
                            let cmd = if rng.chance(1, 2) { "stream" } else { "query" };
                            b.c(0, &format!(r#"{} {{"filters":[{{"type":0,"ecu":"XXXX"}}],"window":[0,4],"binary":true}}"#, cmd), OrcS::Stream(Some((false, 0, 4, 1, 0, 0, 2))));
                            if consumes {
                                live.push(b.next);
                                b.next += 1;
                            }
                        }
                        3 | 4 => {
                            // the time lookup reads the lifecycle table too
                            let id = if live.is_empty() || rng.chance(1, 6) { 99 } else { *rng.pick(&live) };
                            let ms = match rng.below(5) {
                                0 => 0,
                                1 => u64::MAX / 1000,
                                _ => lcgen::RHO / 1000 + rng.below(4_000_000),
                            };
                            b.c(0, &format!("stream_binary_search {} time_ms={}", id, ms), OrcS::Id(false));
                        }
                        5 => {
                            let id = if live.is_empty() { 99 } else { *rng.pick(&live) };
                            b.c(0, &format!("stream_search {} {}", id, rng.pick(&["{}", r#"{"max_results":3}"#, r#"{"start_idx":1,"filters":[{"type":0,"ecu":"XXXX"}]}"#])), OrcS::Id(true));
                        }
                        6 => {
                            if let Some(pos) = (!live.is_empty()).then(|| rng.below(live.len() as u64) as usize) {
                                let id = live[pos];
                                live[pos] = b.window(id, *rng.pick(&["0,5", "1,4", "3,100000", "0,0"]));
                            } else {
                                b.c(0, "stream_change_window 99 1,2", OrcS::Id(false));
                            }
                        }
                        7 => {
                            if let Some(pos) = (!live.is_empty()).then(|| rng.below(live.len() as u64) as usize) {
                                let id = live.remove(pos);
                                b.c(0, &format!("stop {}", id), OrcS::Id(false));
                            } else {
                                b.c(0, "stop 99", OrcS::Id(false));
                            }
                        }
                        8 => {
                            b.c(rng.below(150), "pause", OrcS::None);
                            b.c(rng.below(150), "resume", OrcS::None);
                        }
                        _ => b.c(0, r#"plugin_cmd {"name":"FileTransfer","cmd":"foo"}"#, OrcS::Json(3, "FileTransfer".into(), false)),
                    }
                }
                // queries finish on their own (their ids are then unknown): leave them alone afterwards
                b.c(rng.range(120, 300), "zz_tick before_close", OrcS::None);
                b.c(0, "close", OrcS::None);
            }
        }
        b.c(0, &format!("zz_sentinel_content{}", k), OrcS::None);
        let mut cmds: Vec<Cmd> = b.v.into_iter().map(|(s, f, o)| Cmd { sleep_ms: s, wait_lc: 0, wait_msgs: 0, probe: !f.starts_with("zz_"), frame: files.subst(&f), orc: o }).collect();
        for (pos, n) in waits {
            if pos < cmds.len() {
                cmds[pos].wait_msgs = n;
            }
        }
        let _ = k;
        out.push(("content".to_string(), cmds));
    }
    out
}

/// builder for fixed histories with predictable stream ids (fresh process: ids count from 1)
struct B {
    v: Vec<(u64, String, OrcS)>,
    next: u32,
}
impl B {
    fn c(&mut self, sleep: u64, frame: &str, orc: OrcS) {
        self.v.push((sleep, frame.to_string(), orc));
    }
    /// stream / query with an unfiltered window; returns the id it gets (the counter also advances when a
    /// non-one-pass request is refused in one-pass mode)
    fn stream(&mut self, cmd: &str, one_pass: bool, ws: u64, we: u64, consumes_id: bool) -> u32 {
        let body = format!(r#"{{"window":[{},{}],"binary":true{}}}"#, ws, we, if one_pass { r#","one_pass":true"# } else { "" });
        self.v.push((0, format!("{} {}", cmd, body), OrcS::Stream(Some((one_pass, ws, we, 0, 0, 0, 0)))));
        let id = self.next;
        if consumes_id {
            self.next += 1;
        }
        id
    }
    fn window(&mut self, id: u32, w: &str) -> u32 {
        self.v.push((0, format!("stream_change_window {} {}", id, w), OrcS::Id(false)));
        let n = self.next;
        self.next += 1;
        n
    }
}

/// every command in one state of the session model.  `establish` brings a fresh connection into the state (no
/// stream exists, no id was consumed); `mode`: 0 streams allowed, 1 one-pass (only one_pass streams), 2 no streams
fn sweep_cmds(b: &mut B, mode: u8) {
    b.c(0, "sweep_unknown_command x", OrcS::None);
    b.c(0, r#"fs {"cmd":"stat","path":"@DIR"}"#, OrcS::Json(3, String::new(), true));
    b.c(0, r#"fs {"cmd":"stat","path":"@E/t_m1s.dlt"}"#, OrcS::Fs(Some(true), None));
    b.c(0, r#"fs {"cmd":"readDirectory","path":"@E/old.zip!/logs"}"#, OrcS::Fs(Some(true), None));
    b.c(0, r#"plugin_cmd {"name":"nobody","cmd":"x"}"#, OrcS::Json(3, "nobody".into(), false));
    b.c(0, "stop 99", OrcS::Id(false));
    b.c(0, "stream_change_window 99 1,2", OrcS::Id(false));
    b.c(0, "stream_binary_search 99 time_ms=1", OrcS::Id(false));
    b.c(0, "stream_search 99 {}", OrcS::Id(true));
    match mode {
        2 => {
            b.stream("stream", false, 0, 3, false);
            b.stream("query", false, 0, 2, false);
        }
        1 => {
            b.stream("stream", false, 0, 3, true); // refused (only one_pass streams), the id is consumed
            let a = b.stream("stream", true, 0, 3, true);
            b.c(0, &format!("stream_binary_search {} time_ms=5", a), OrcS::Id(false));
            b.c(0, &format!("stream_search {} {{}}", a), OrcS::Id(true));
            b.stream("query", true, 0, 2, true);
            b.c(0, &format!("stop {}", a), OrcS::Id(false));
            b.c(0, &format!("stop {}", a), OrcS::Id(false));
        }
        _ => {
            let a = b.stream("stream", false, 0, 3, true);
            b.c(0, &format!("stream_binary_search {} time_ms=5", a), OrcS::Id(false));
            b.c(0, &format!("stream_search {} {{}}", a), OrcS::Id(true));
            let a2 = b.window(a, "0,5");
            b.c(0, &format!("stream_change_window {} 1,2", a), OrcS::Id(false)); // the old id is gone
            b.stream("query", false, 0, 2, true);
            b.c(0, &format!("stop {}", a2), OrcS::Id(false));
            b.c(0, &format!("stop {}", a2), OrcS::Id(false)); // stopped: not usable any more
            b.c(0, &format!("stream_search {} {{}}", a2), OrcS::Id(true));
        }
    }
}

fn state_sweeps(files: &Files) -> Vec<(&'static str, Vec<Cmd>)> {
    let open_small = (r#"open {"files":["@A"]}"#, OrcS::Open(Some((0u8, false, vec![]))));
    let fin = |b: B, probes: bool| -> Vec<Cmd> { b.v.into_iter().map(|(s, f, o)| Cmd { sleep_ms: s, wait_lc: 0, wait_msgs: 0, probe: probes && (wants_probe(&f) || command_of(&f) == "open" || command_of(&f) == "close"), frame: files.subst(&f), orc: o }).collect() };
    let mut out = vec![];
    // closed
    {
        let mut b = B { v: vec![], next: 1 };
        sweep_cmds(&mut b, 0);
        b.c(0, "pause", OrcS::None);
        b.c(0, "resume", OrcS::None);
        b.c(0, "close", OrcS::None);
        b.c(0, open_small.0, open_small.1.clone());
        b.c(0, "close", OrcS::None);
        out.push(("sweep_closed", fin(b, true)));
    }
    // open states in which streams are possible: (name, establish, paused)
    let est: Vec<(&'static str, Vec<(u64, &str, OrcS)>, bool)> = vec![
        ("sweep_parsed", vec![(0, open_small.0, open_small.1.clone()), (300, "sweep_wait", OrcS::None)], false),
        ("sweep_parsing", vec![(0, r#"open {"files":["@HUGE"]}"#, OrcS::Open(Some((0, false, vec![]))))], false),
        ("sweep_paused", vec![(0, open_small.0, open_small.1.clone()), (300, "pause", OrcS::None)], true),
        ("sweep_paused_at_once", vec![(0, r#"open {"files":["@BIG"]}"#, OrcS::Open(Some((0, false, vec![])))), (0, "pause", OrcS::None)], true),
        ("sweep_arch_no_streams", vec![(0, r#"open {"files":["@ZA!/no/such/member*.dlt"]}"#, OrcS::Open(Some((0, false, vec![])))), (200, "sweep_wait", OrcS::None)], false),
        ("sweep_arch_no_streams_at_once", vec![(0, r#"open {"files":["@BADZIP"]}"#, OrcS::Open(Some((0, false, vec![]))))], false),
        ("sweep_arch_nondlt_member", vec![(0, r#"open {"files":["@ZA!/readme.txt"],"sort":true}"#, OrcS::Open(Some((0, true, vec![]))))], false),
    ];
    for (name, e, paused) in est {
        let mut b = B { v: vec![], next: 1 };
        for (s, f, o) in &e {
            b.c(*s, f, o.clone());
        }
        if !paused {
            // the state-changing pair early too (the state may be a short-lived one like "parsing")
            for c in ["resume", "pause", "resume"] {
                b.c(0, c, OrcS::None);
            }
        }
        b.c(0, r#"open {"files":["@B"]}"#, OrcS::Open(Some((0, false, vec![]))));
        sweep_cmds(&mut b, 0);
        b.c(0, r#"open {"files":["@ZA"]}"#, OrcS::Open(Some((0, false, vec![]))));
        if paused {
            for c in ["pause", "resume", "pause", "close"] {
                b.c(0, c, OrcS::None);
            }
        } else {
            for c in ["resume", "pause", "resume", "close"] {
                b.c(0, c, OrcS::None);
            }
        }
        b.c(0, open_small.0, open_small.1.clone());
        b.c(0, "close", OrcS::None);
        out.push((name, fin(b, true)));
    }
    // collect:false
    {
        let mut b = B { v: vec![], next: 1 };
        b.c(0, r#"open {"files":["@A"],"collect":false}"#, OrcS::Open(Some((2, false, vec![]))));
        b.c(0, open_small.0, open_small.1.clone());
        sweep_cmds(&mut b, 2);
        for c in ["resume", "pause", "resume", "close"] {
            b.c(0, c, OrcS::None);
        }
        out.push(("sweep_collect_none", fin(b, true)));
    }
    // one pass, paused (its initial state)
    {
        let mut b = B { v: vec![], next: 1 };
        let o1 = OrcS::Open(Some((1, false, vec![])));
        b.c(0, r#"open {"files":["@A"],"collect":"one_pass_streams"}"#, o1.clone());
        b.c(0, open_small.0, open_small.1.clone());
        sweep_cmds(&mut b, 1);
        b.c(0, "pause", OrcS::None);
        b.c(0, "close", OrcS::None);
        // resume without any stream, then the harmless commands while it runs
        b.c(0, r#"open {"files":["@A"],"collect":"one_pass_streams"}"#, o1);
        b.c(0, "resume", OrcS::None);
        b.c(150, "sweep_unknown_command x", OrcS::None);
        b.c(0, r#"fs {"cmd":"stat","path":"@DIR"}"#, OrcS::Json(3, String::new(), true));
        b.c(0, r#"plugin_cmd {"name":"nobody","cmd":"x"}"#, OrcS::Json(3, "nobody".into(), false));
        b.c(0, "stop 99", OrcS::Id(false));
        b.c(0, "stream_change_window 99 1,2", OrcS::Id(false));
        b.c(0, "stream_binary_search 99 time_ms=1", OrcS::Id(false));
        b.c(0, "stream_search 99 {}", OrcS::Id(true));
        b.c(0, open_small.0, open_small.1.clone());
        b.c(0, "resume", OrcS::None);
        b.c(0, "pause", OrcS::None);
        b.c(0, "resume", OrcS::None);
        b.c(0, "close", OrcS::None);
        out.push(("sweep_one_pass", fin(b, true)));
    }
    // extraction pending: the window is short (a few passes of 50 ms), so one round per command:
    // open <slow archive>; [stream]; command; close
    for (name, rev) in [("sweep_arch_extracting", false), ("sweep_arch_extracting_rev", true)] {
        let mut b = B { v: vec![], next: 1 };
        let slow = OrcS::Open(Some((0, false, vec![])));
        let mut rounds: Vec<u8> = (0..13).collect();
        if rev {
            rounds.reverse();
        }
        for r in rounds {
            b.c(0, r#"open {"files":["@ZS"]}"#, slow.clone());
            match r {
                0 => b.c(0, open_small.0, open_small.1.clone()),
                1 => b.c(0, r#"open {"files":["@ZA"]}"#, slow.clone()),
                2 => b.c(0, "pause", OrcS::None),
                3 => b.c(0, "resume", OrcS::None),
                4 => {
                    b.stream("stream", false, 0, 3, true);
                }
                5 => {
                    b.stream("query", false, 0, 2, true);
                }
                6 => {
                    let a = b.stream("stream", false, 0, 3, true);
                    b.c(0, &format!("stop {}", a), OrcS::Id(false));
                }
                7 => {
                    let a = b.stream("stream", false, 0, 3, true);
                    b.window(a, "0,5");
                }
                8 => {
                    let a = b.stream("stream", false, 0, 3, true);
                    b.c(0, &format!("stream_binary_search {} time_ms=5", a), OrcS::Id(false));
                }
                9 => {
                    let a = b.stream("stream", false, 0, 3, true);
                    b.c(0, &format!("stream_search {} {{}}", a), OrcS::Id(true));
                }
                10 => b.c(0, r#"plugin_cmd {"name":"nobody","cmd":"x"}"#, OrcS::Json(3, "nobody".into(), false)),
                11 => b.c(0, r#"fs {"cmd":"stat","path":"@E/olddir"}"#, OrcS::Fs(Some(true), None)),
                _ => b.c(0, "sweep_unknown_command x", OrcS::None),
            }
            b.c(0, "close", OrcS::None);
        }
        // no sentinels here: the extraction window is only a few passes long
        out.push((name, fin(b, false)));
    }
    out
}

/// plugin lists with 0..3 entries incl. duplicates x plugin_cmd for every name (always run): the lookup loop over
/// the plugin states has to answer once - by the first plugin carrying the name - however many carry it
fn plugin_matrix(files: &Files) -> Vec<(&'static str, Vec<Cmd>)> {
    let base: Vec<&(&str, Option<(&str, bool)>)> = [0usize, 1, 6, 11, 4, 13].iter().map(|i| &PLUGIN_CFGS[*i]).collect();
    let mut lists: Vec<Vec<&(&str, Option<(&str, bool)>)>> = vec![vec![]];
    for a in &base {
        lists.push(vec![*a]);
        for b in &base {
            lists.push(vec![*a, *b]);
        }
    }
    for t in [[0usize, 0, 0], [6, 0, 6], [0, 6, 0], [6, 6, 0], [4, 0, 1], [11, 13, 11], [7, 6, 7], [2, 1, 0]] {
        lists.push(t.iter().map(|i| &PLUGIN_CFGS[*i]).collect());
    }
    let mut sessions: Vec<Vec<Cmd>> = vec![vec![], vec![], vec![]];
    for (k, l) in lists.iter().enumerate() {
        let v = &mut sessions[k % 3];
        let plugins: Vec<(String, bool)> = l.iter().filter_map(|c| c.1.map(|(n, h)| (n.to_string(), h))).collect();
        let body = format!(r#"open {{"files":["@A"],"plugins":[{}]}}"#, l.iter().map(|c| c.0).collect::<Vec<_>>().join(","));
        v.push(Cmd { sleep_ms: 0, wait_lc: 0, wait_msgs: 0, probe: true, frame: files.subst(&body), orc: OrcS::Open(Some((0, false, plugins))) });
        for (i, name) in ["FileTransfer", "Rewrite", "SomeIp", "NonVerbose", "Nope"].iter().enumerate() {
            let cmd = ["save", "foo"][(k + i) % 2];
            v.push(Cmd { sleep_ms: 0, wait_lc: 0, wait_msgs: 0, probe: true, frame: format!(r#"plugin_cmd {{"name":"{}","cmd":"{}"}}"#, name, cmd), orc: OrcS::Json(3, name.to_string(), false) });
        }
        v.push(Cmd { sleep_ms: 0, wait_lc: 0, wait_msgs: 0, probe: true, frame: "close".into(), orc: OrcS::None });
    }
    let names = ["plugin_matrix_0", "plugin_matrix_1", "plugin_matrix_2"];
    sessions.into_iter().enumerate().map(|(i, v)| (names[i], v)).collect()
}

/// every value class of the environment x stat / readDirectory (always run, 3 sessions: nothing open, a file open,
/// an archive context open): the bare entry, below it, the archive forms; a sentinel behind every command
fn fs_env_matrix(files: &Files) -> Vec<(&'static str, Vec<Cmd>)> {
    let mut all: Vec<Cmd> = vec![];
    let mk = |cmd: &str, base: &str, class: &str, form: &str| -> Cmd {
        let path = format!("{}{}", base, form);
        Cmd { sleep_ms: 0, wait_lc: 0, wait_msgs: 0, probe: true, frame: fs_frame(cmd, &path), orc: OrcS::Fs(fs_expect(cmd, class, form), None) }
    };
    for (k, (base, class)) in files.env.iter().enumerate() {
        all.push(mk("stat", base, class, ""));
        all.push(mk("readDirectory", base, class, ""));
        if *class == "archive" {
            for form in FS_FORMS.iter().skip(1) {
                all.push(mk("stat", base, class, form));
                all.push(mk("readDirectory", base, class, form));
            }
        } else if base.len() < 1000 {
            // two of the forms per base, rotating; every 5th with a command word that is none
            let f1 = FS_FORMS[1 + k % (FS_FORMS.len() - 1)];
            let f2 = FS_FORMS[1 + (k * 7 + 3) % (FS_FORMS.len() - 1)];
            all.push(mk("stat", base, class, f1));
            all.push(mk("readDirectory", base, class, f2));
            if k % 5 == 0 {
                all.push(mk(FS_CMDS[7 + k / 5 % 5], base, class, ""));
            }
        }
    }
    // bodies that do not get as far as the path
    for b in ["fs", "fs ", "fs {", "fs []", "fs 7", "fs null", "fs {}", r#"fs {"cmd":"stat"}"#, r#"fs {"path":"/"}"#, r#"fs {"cmd":1,"path":"x"}"#, r#"fs {"cmd":"stat","path":null}"#] {
        all.push(Cmd { sleep_ms: 0, wait_lc: 0, wait_msgs: 0, probe: true, frame: b.to_string(), orc: OrcS::Fs(Some(false), None) });
    }
    let names = ["fs_env_closed", "fs_env_file_open", "fs_env_archive_open"];
    let mut sessions: Vec<Vec<Cmd>> = vec![vec![], vec![], vec![]];
    let open = |f: &str, probe: bool| Cmd { sleep_ms: 0, wait_lc: 0, wait_msgs: 0, probe, frame: files.subst(f), orc: OrcS::Open(Some((0, false, vec![]))) };
    sessions[1].push(open(r#"open {"files":["@E/t_m1h.dlt","@E/link_a.dlt"]}"#, true));
    sessions[2].push(open(r#"open {"files":["@E/old.zip"]}"#, false));
    for (k, c) in all.into_iter().enumerate() {
        sessions[k % 3].push(c);
    }
    for (i, v) in sessions.iter_mut().enumerate() {
        v.push(Cmd { sleep_ms: 0, wait_lc: 0, wait_msgs: 0, probe: true, frame: "close".into(), orc: OrcS::None });
        if i > 0 {
            v.push(open(r#"open {"files":["@E/t_m1ns.dlt"]}"#, true));
            v.push(Cmd { sleep_ms: 0, wait_lc: 0, wait_msgs: 0, probe: true, frame: "close".into(), orc: OrcS::None });
        }
    }
    sessions.into_iter().enumerate().map(|(i, v)| (names[i], v)).collect()
}

/// structured histories under collect:one_pass_streams (ids are predictable in a fresh process): streams
/// before / after the messages were drained, window changes, then ordinary commands
fn one_pass_scenario(rng: &mut Rng, files: &Files, k: u64) -> Vec<Cmd> {
    let mut v: Vec<(u64, String, OrcS)> = vec![];
    let st = |a: u64, b: u64| OrcS::Stream(Some((true, a, b, 0, 0, 0, 0)));
    v.push((0, r#"open {"files":["@A"],"collect":"one_pass_streams"}"#.into(), OrcS::Open(Some((1, false, vec![])))));
    let n_pre = rng.below(3);
    for _ in 0..n_pre {
        let (a, b) = *rng.pick(&[(0u64, 3u64), (0, 20), (2, 7), (12, 15), (0, 0)]);
        v.push((0, format!(r#"stream {{"one_pass":true,"binary":true,"window":[{},{}]}}"#, a, b), st(a, b)));
    }
    v.push((0, "resume".into(), OrcS::None));
    let settle = 300 + rng.below(150);
    match rng.below(5) {
        0 => v.push((settle, r#"stream {"one_pass":true,"binary":true}"#.into(), st(0, 20))),
        1 => {
            let w = *rng.pick(&["0,5", "3,4", "9,12", "10,20", "12,15", "0,0", "5,3"]);
            v.push((settle, format!("stream_change_window 1 {}", w), OrcS::Id(false)));
        }
        2 => {
            v.push((settle, "stop 1".into(), OrcS::Id(false)));
            v.push((0, r#"query {"one_pass":true,"window":[0,2]}"#.into(), st(0, 2)));
        }
        3 => v.push((settle, r#"stream {"one_pass":true,"window":[10,12]}"#.into(), st(10, 12))),
        _ => v.push((settle, "stream_binary_search 1 time_ms=5".into(), OrcS::Id(false))),
    }
    v.push((250, "pause".into(), OrcS::None));
    v.push((0, "close".into(), OrcS::None));
    v.push((0, r#"open {"files":["@A"]}"#.into(), OrcS::Open(Some((0, false, vec![])))));
    v.push((200, r#"stream {"window":[0,3],"binary":true}"#.into(), OrcS::Stream(Some((false, 0, 3, 0, 0, 0, 0)))));
    v.push((0, "close".into(), OrcS::None));
    v.push((0, format!("zz_sentinel_p{}", k), OrcS::None));
    v.into_iter().map(|(s, f, o)| Cmd { sleep_ms: s, wait_lc: 0, wait_msgs: 0, probe: wants_probe(&f), frame: files.subst(&f), orc: o }).collect()
}

fn main() {
    let argv: Vec<String> = std::env::args().collect();
    if argv.len() >= 3 && argv[1] == "--script" {
        explore(&argv[2]);
        return;
    }
    if argv.len() >= 2 && argv[1] == "--content-report" {
        // development aid: what the trusted stages make of the session files by content, for a few seeds
        for seed in 1..=argv.get(2).and_then(|s| s.parse::<u64>().ok()).unwrap_or(1) {
            let dir = tempfile::tempdir().unwrap();
            write_dlt(&dir.path().join("a.dlt"), 10, 0);
            write_dlt(&dir.path().join("b.dlt"), 5, 10);
            write_dlt(&dir.path().join("c.dlt"), 3, 15);
            for c in create_content(dir.path(), seed) {
                let odd = c.table.as_ref().map_or(false, |t| t.iter().any(|(_, b)| b.len() != 1));
                println!("seed {} {:28} {:16} msgs {:6} open_ok {:5} keys {:?}{}", seed, c.name, c.class, c.nmsgs, c.open_ok, c.table.as_ref().map(|t| t.iter().map(|(k, b)| (*k, b.len())).collect::<Vec<_>>()), if odd { "  <-- key without single value" } else { "" });
            }
        }
        return;
    }
    let a = parse_args();
    let mut sink = Sink::new("C15", &a.out);
    sink.shard_size = 12;
    let scratch = tempfile::tempdir().unwrap();
    // replay: the recorded session files by content replace the ones generated from this run's seed
    if let Some(p) = &a.replay {
        let v = read_replay(p);
        if let Some(m) = v["case"]["content_files"].as_object() {
            let _ = REPLAY_CONTENT.set(m.iter().map(|(k, d)| (k.clone(), unhex(d.as_str().unwrap_or("")))).collect());
        }
    }
    let files = Files::create(scratch.path(), a.seed);
    let _ = SCRATCH.set(scratch.path().to_str().unwrap().to_string());

    if let Some(p) = &a.replay {
        let v = read_replay(p);
        let c = &v["case"];
        // paths of the recorded run are rewritten to this run's scratch directory
        let cmds: Vec<Cmd> = c["cmds"]
            .as_array()
            .unwrap()
            .iter()
            .filter(|x| !x["frame"].as_str().unwrap_or("").starts_with("zz_probe_")) // sentinels are sent anew (probe flag)
            .map(|x| {
                let f = x["frame"].as_str().unwrap();
                let frame = match c["scratch"].as_str() {
                    Some(old) if !old.is_empty() => f.replace(old, files.dir.to_str().unwrap()),
                    _ => rewrite_paths(f, &files),
                };
                Cmd { sleep_ms: x["sleep_ms"].as_u64().unwrap(), wait_lc: x["wait_lc"].as_u64().unwrap_or(0) as u32, wait_msgs: x["wait_msgs"].as_u64().unwrap_or(0) as u32, probe: x["probe"].as_bool().unwrap_or(false), frame, orc: OrcS::from_json(&x["orc"]) }
            })
            .collect();
        let res = run_session(Plan::Fixed(cmds), scratch.path(), "replay");
        record(&mut sink, &res, "replay");
        sink.finish();
        return;
    }

    let (n_gen, par) = match a.tier.as_str() {
        "quick" => (a.count.unwrap_or(40), 6),
        "search" => (a.count.unwrap_or(60), 8),
        _ => (a.count.unwrap_or(600), 8),
    };
    // plans: corpus first, then generated sessions
    let mut plans: Vec<(String, Plan)> = vec![];
    if a.tier != "search" {
        for (name, cmds) in corpus(&files) {
            plans.push((name.to_string(), Plan::Fixed(cmds)));
        }
        for (name, cmds) in state_sweeps(&files) {
            plans.push((name.to_string(), Plan::Fixed(cmds)));
        }
        for (name, cmds) in plugin_matrix(&files) {
            plans.push((name.to_string(), Plan::Fixed(cmds)));
        }
        for (name, cmds) in fs_env_matrix(&files) {
            plans.push((name.to_string(), Plan::Fixed(cmds)));
        }
        for (name, cmds) in content_sessions(&files, a.seed, 3) {
            plans.push((name, Plan::Fixed(cmds)));
        }
    } else {
        // the search for a failing input: other seeds = other content files, other options
        for (name, cmds) in content_sessions(&files, a.seed, 3) {
            plans.push((name, Plan::Fixed(cmds)));
        }
    }
    let mut rng = Rng::new(a.seed);
    for k in 0..n_gen {
        let mut r = rng.fork();
        let kind = k % 10;
        if kind == 8 {
            plans.push(("gen_one_pass_scenario".into(), Plan::Fixed(one_pass_scenario(&mut r, &files, k))));
            continue;
        }
        let cfg = GenCfg { big: kind == 3 || kind == 7, archive_bias: kind == 1 || kind == 4, one_pass: kind == 6, len: if kind == 9 { 40 } else { 12 + (k as usize % 3) * 6 }, malformed_bias: kind == 5 };
        plans.push((if cfg.big { "gen_big".into() } else if cfg.malformed_bias { "gen_malformed".into() } else if cfg.one_pass { "gen_one_pass".into() } else { "gen".into() }, Plan::Gen(r, cfg, &files)));
    }
    // run `par` sessions at a time, results in plan order
    let mut idx = 0usize;
    let mut results: Vec<(String, SessionResult)> = vec![];
    let mut plans = plans.into_iter().collect::<std::collections::VecDeque<_>>();
    while !plans.is_empty() {
        let mut batch = vec![];
        for _ in 0..par {
            if let Some(p) = plans.pop_front() {
                batch.push((idx, p));
                idx += 1;
            }
        }
        let scratch_path = scratch.path();
        let out: Vec<(String, SessionResult)> = std::thread::scope(|s| {
            let hs: Vec<_> = batch.into_iter().map(|(i, (name, plan))| s.spawn(move || (name, run_session(plan, scratch_path, &format!("s{}", i))))).collect();
            hs.into_iter().map(|h| h.join().expect("session thread")).collect()
        });
        results.extend(out);
    }
    let mut connect_failed = 0;
    for (name, res) in &results {
        if res.connect_failed {
            connect_failed += 1;
            continue;
        }
        record(&mut sink, res, name);
    }
    // state x command coverage of the session model
    {
        let mut reached: std::collections::BTreeMap<String, std::collections::BTreeSet<String>> = Default::default();
        for (_, res) in &results {
            for (c, r) in res.cmds.iter().zip(res.results.iter()) {
                if r.reply.is_some() {
                    reached.entry(r.state.clone()).or_default().insert(cmd_label(&c.frame).to_string());
                }
            }
        }
        let mut missing = vec![];
        for st in ALL_STATES {
            for c in ALL_CMDS {
                if !reached.get(*st).map_or(false, |x| x.contains(*c)) {
                    missing.push(format!("{}:{}", st, c));
                }
            }
        }
        sink.extra_stats.insert("state_cmd_pairs_reached".into(), json!(reached.values().map(|x| x.len()).sum::<usize>()));
        sink.extra_stats.insert("state_cmd_pairs_total".into(), json!(ALL_STATES.len() * ALL_CMDS.len()));
        sink.extra_stats.insert("state_cmd_pairs_missing".into(), json!(missing));
        if !missing.is_empty() && a.tier != "search" {
            eprintln!("c15: state x command pairs not reached in this run: {:?}", missing);
        }
    }
    // value classes of the environment met by the fs commands
    {
        let mut seen: std::collections::BTreeSet<String> = Default::default();
        for (_, res) in &results {
            for (c, r) in res.cmds.iter().zip(res.results.iter()) {
                if let (OrcS::Fs(_, Some(f)), true) = (&c.orc, r.reply.is_some()) {
                    seen.extend(f.tags());
                }
            }
        }
        let missing: Vec<&str> = ALL_FS_CLASSES.iter().filter(|c| !seen.contains(**c)).cloned().collect();
        sink.extra_stats.insert("fs_env_classes_reached".into(), json!(seen.len()));
        sink.extra_stats.insert("fs_env_classes_missing".into(), json!(missing));
        if !missing.is_empty() && a.tier != "search" {
            eprintln!("c15: value classes of the environment not reached in this run (file system / platform): {:?}", missing);
        }
    }
    // content classes opened
    {
        let mut seen: std::collections::BTreeSet<&'static str> = Default::default();
        let mut opens = 0usize;
        for (_, res) in &results {
            for (c, r) in res.cmds.iter().zip(res.results.iter()) {
                if command_of(&c.frame) == "open" && r.reply.is_some() {
                    if let Some(k) = content_of_open(&c.frame) {
                        seen.insert(k.class);
                        if k.class != "plain" {
                            opens += 1;
                        }
                    }
                }
            }
        }
        let missing: Vec<&str> = ALL_CONTENT_CLASSES.iter().filter(|c| !seen.contains(**c)).cloned().collect();
        sink.extra_stats.insert("content_files".into(), json!(files.content.len()));
        sink.extra_stats.insert("content_opens".into(), json!(opens));
        sink.extra_stats.insert("content_classes_missing".into(), json!(missing));
        sink.extra_stats.insert("content_files_with_key_without_single_value".into(), json!(files.content.iter().filter(|c| c.table.as_ref().map_or(false, |t| t.iter().any(|(_, b)| b.len() != 1))).map(|c| c.name.clone()).collect::<Vec<_>>()));
        if !missing.is_empty() {
            eprintln!("c15: content classes not opened in this run: {:?}", missing);
        }
    }
    sink.extra_stats.insert("sessions".into(), json!(results.len()));
    sink.extra_stats.insert("connect_failed".into(), json!(connect_failed));
    sink.extra_stats.insert("commands".into(), json!(results.iter().map(|r| r.1.cmds.len()).sum::<usize>()));
    sink.extra_stats.insert("max_reply_ms".into(), json!(results.iter().flat_map(|r| r.1.results.iter().map(|x| x.reply_ms as u64)).max().unwrap_or(0)));
    sink.finish();
    if connect_failed > 0 {
        eprintln!("c15: {} session(s) could not connect to the server", connect_failed);
        std::process::exit(3);
    }
}

/// a recorded frame contains the scratch directory of the recording run: replace `<anything>/<known file>` by this run's path
fn rewrite_paths(frame: &str, files: &Files) -> String {
    let mut out = frame.to_string();
    for name in ["a.dlt", "b.dlt", "big.dlt", "huge.dlt", "dense.dlt", "arch.zip", "slow.zip", "hostile.zip", "mv.zip.001", "nofile.zip", "empty.dlt", "nofile.dlt", "bad.zip", "sub"] {
        // occurrences look like "/tmp/.tmpXXXX/a.dlt"
        let mut res = String::new();
        let mut rest = out.as_str();
        let needle = format!("/{}", name);
        while let Some(p) = rest.find(&needle) {
            let after = &rest[p + needle.len()..];
            let boundary = after.chars().next().map_or(true, |c| !(c.is_ascii_alphanumeric() || c == '.' || c == '_'));
            // start of the path: back to the preceding quote
            let start = rest[..p].rfind('"').map(|q| q + 1).unwrap_or(0);
            if boundary && rest[start..p].starts_with('/') {
                res.push_str(&rest[..start]);
                res.push_str(files.dir.join(name).to_str().unwrap());
            } else {
                res.push_str(&rest[..p + needle.len()]);
            }
            rest = after;
        }
        res.push_str(rest);
        out = res;
    }
    out
}

// ---------------------------------------------------------------- exploration mode (development aid)
fn explore(script_path: &str) {
    let dir = tempfile::tempdir().unwrap();
    let files = Files::create(dir.path(), 1);
    let mut srv = Server::start(dir.path(), "x");
    let mut ws = srv.connect().expect("connect");
    let script = std::fs::read_to_string(script_path).unwrap();
    'outer: for line in script.lines() {
        if let Some(ms) = line.strip_prefix("#sleep ") {
            let until = Instant::now() + Duration::from_millis(ms.parse().unwrap());
            while Instant::now() < until {
                match rx_one(&mut ws) {
                    Rx::Timeout => {}
                    Rx::Closed(e) => {
                        println!("      CLOSED {}", e);
                        break 'outer;
                    }
                    r => println!("      {:?}", r),
                }
            }
            continue;
        }
        let line = files.subst(line);
        println!(">> {}", line);
        if let Err(e) = ws.write_message(Message::Text(line.clone())) {
            println!("   write failed: {}", e);
            break;
        }
        let t0 = Instant::now();
        loop {
            match rx_one(&mut ws) {
                Rx::Reply(s) => {
                    println!("<< {} ({} ms) {:?}", &s[..s.len().min(200)], t0.elapsed().as_millis(), classify_reply(&s).map(|o| o.coq()));
                    break;
                }
                Rx::Timeout => {
                    if t0.elapsed() > Duration::from_secs(5) {
                        println!("<< NO REPLY");
                        break;
                    }
                }
                Rx::Closed(e) => {
                    println!("<< CLOSED {}", e);
                    break 'outer;
                }
                r => println!("      {:?}", r),
            }
        }
    }
    std::thread::sleep(Duration::from_millis(300));
    println!("process alive: {}", srv.alive());
    let st = srv.stderr_text();
    for l in st.lines().filter(|l| l.contains("panicked") || l.contains("overflow") || l.contains("rror")) {
        println!("stderr: {}", l);
    }
}
