//! C04 — LowMarkBufReader over a scripted short-read source (op traces), and DltMessageIterator over it
//! under read schedules vs over the whole buffer.  Models: Reader/LowMark.v, Dlt/Chunk.v (Exec/C04.v).
use adlt::dlt::{DltMessage, DLT_MAX_STORAGE_MSG_SIZE};
use adlt::utils::{DltMessageIterator, LowMarkBufReader};
use serde::{Deserialize, Serialize};
use std::collections::VecDeque;
use std::io::{BufRead, Cursor, Read, Seek, SeekFrom};
use std::panic::AssertUnwindSafe;
use std::sync::{Arc, Mutex};
use vharness::*;

const LOOKAHEAD: u64 = 65551 + 4; // longest frame + the 4 bytes of the next-marker test (Dlt/Chunk.v)
const CL: u64 = 4096;
const COST_BUDGET: u64 = 20_000_000;

// ------------------------------------------------------------------ structurally described byte strings
#[derive(Clone, Debug, Serialize, Deserialize, PartialEq)]
enum Seg {
    Lit(Vec<u8>),
    Rep(u8, u64),
    Ramp(u8, u8, u64),
}
fn expand(segs: &[Seg]) -> Vec<u8> {
    let mut v = vec![];
    for s in segs {
        match s {
            Seg::Lit(l) => v.extend_from_slice(l),
            Seg::Rep(b, n) => v.extend(std::iter::repeat(*b).take(*n as usize)),
            Seg::Ramp(a, m, n) => {
                let mut x = (*a as u32) % 251;
                for _ in 0..*n {
                    v.push(x as u8);
                    x = (x + *m as u32) % 251;
                }
            }
        }
    }
    v
}
fn segs_coq(segs: &[Seg]) -> String {
    clist(
        &segs
            .iter()
            .map(|s| match s {
                Seg::Lit(l) => format!("SLit {}", cnums(l)),
                Seg::Rep(b, n) => format!("SRep {} {}", b, n),
                Seg::Ramp(a, m, n) => format!("SRamp {} {} {}", a, m, n),
            })
            .collect::<Vec<_>>(),
    )
}
fn segs_len(segs: &[Seg]) -> u64 {
    segs.iter().map(|s| match s { Seg::Lit(l) => l.len() as u64, Seg::Rep(_, n) => *n, Seg::Ramp(_, _, n) => *n }).sum()
}

// ------------------------------------------------------------------ scripted source
/// `Read` that hands out `data` in order; the size of each read comes from the schedule (clipped to
/// [1, room] while data remain; after the schedule: as much as fits).  Never errors, 0 only at the end.
/// Adaptive mode (after the fixed schedule is used up): the size is chosen from the length of the destination
/// slice (= free buffer space): exactly 1/2, 1/3, 1/4, all, all-1 or 1, mixed per read from the seed.  The sizes
/// actually returned are recorded; that concrete list is the schedule given to the model.
struct Scripted {
    data: Arc<Vec<u8>>,
    off: usize,
    sched: VecDeque<u64>,
    adaptive: Option<Rng>,
    reads: Arc<Mutex<u64>>,
    returned: Arc<Mutex<Vec<u64>>>,
}
impl Scripted {
    fn new(data: Arc<Vec<u8>>, sched: &[u64]) -> Scripted {
        Scripted::new_adaptive(data, sched, None)
    }
    fn new_adaptive(data: Arc<Vec<u8>>, sched: &[u64], adaptive: Option<u64>) -> Scripted {
        Scripted {
            data,
            off: 0,
            sched: sched.iter().cloned().collect(),
            adaptive: adaptive.map(Rng::new),
            reads: Arc::new(Mutex::new(0)),
            returned: Arc::new(Mutex::new(vec![])),
        }
    }
}
impl Read for Scripted {
    fn read(&mut self, buf: &mut [u8]) -> std::io::Result<usize> {
        *self.reads.lock().unwrap() += 1;
        let rest = self.data.len() - self.off;
        if rest == 0 || buf.is_empty() {
            return Ok(0);
        }
        let room = buf.len() as u64;
        let want = match self.sched.pop_front() {
            Some(k) => k.max(1),
            None => match &mut self.adaptive {
                None => room,
                Some(rng) => match rng.below(10) {
                    0..=3 => room / 2,
                    4 => room / 3,
                    5 => room / 4,
                    6 => room,
                    7 => room - 1,
                    8 => 1,
                    _ => (room / 2).saturating_sub(1),
                }
                .max(1),
            },
        };
        let n = (want.min(room) as usize).min(rest);
        self.returned.lock().unwrap().push(n as u64);
        buf[..n].copy_from_slice(&self.data[self.off..self.off + n]);
        self.off += n;
        Ok(n)
    }
}

// ------------------------------------------------------------------ reader traces
#[derive(Clone, Debug, Serialize, Deserialize, PartialEq)]
enum Op {
    Fill,
    Consume(u64),
    Read(u64),
    SeekStart(u64),
    SeekCur(i64),
    SeekEnd(i64),
}
fn op_coq(o: &Op) -> String {
    let z = |d: &i64| if *d < 0 { format!("(zn {})", d.unsigned_abs()) } else { format!("(zp {})", d) };
    match o {
        Op::Fill => "OFill".into(),
        Op::Consume(n) => format!("OConsume {}", n),
        Op::Read(k) => format!("ORead {}", k),
        Op::SeekStart(n) => format!("OSeekStart {}", n),
        Op::SeekCur(d) => format!("OSeekCur {}", z(d)),
        Op::SeekEnd(d) => format!("OSeekEnd {}", z(d)),
    }
}
#[derive(Clone, Debug)]
enum Out {
    Fill(Vec<u8>),
    Unit,
    Read(Vec<u8>),
    Seek(Option<u64>),
}
struct Ev {
    out: Out,
    win: Vec<u8>,
}
fn o_bytes(l: &[u8]) -> Vec<O> {
    let (mut s1, mut s2) = (0u128, 0u128);
    for b in l {
        s1 += *b as u128 + 1;
        s2 += s1;
    }
    vec![O::n(l.len() as u64), O::L(s1), O::L(s2)]
}
fn o_out(x: &Out) -> O {
    match x {
        Out::Fill(w) => O::T([vec![O::L(0)], o_bytes(w)].concat()),
        Out::Unit => O::T(vec![O::L(1)]),
        Out::Read(b) => O::T([vec![O::L(2)], o_bytes(b)].concat()),
        Out::Seek(Some(n)) => O::T(vec![O::L(3), O::n(*n)]),
        Out::Seek(None) => O::T(vec![O::L(4)]),
    }
}

/// runs the real reader; returns the events up to the first panic and the panic message if any
fn run_trace(capacity: u64, low: u64, data: &Arc<Vec<u8>>, sched: &[u64], adaptive: Option<u64>, ops: &[Op]) -> (Vec<Ev>, Option<String>, bool, Vec<u64>) {
    let src = Scripted::new_adaptive(data.clone(), sched, adaptive);
    let returned = src.returned.clone();
    let src = Mutex::new(Some(src));
    let evs: Mutex<Vec<Ev>> = Mutex::new(vec![]);
    let constructed = Mutex::new(false);
    let r = catch_loc(AssertUnwindSafe(|| {
        let mut rd = LowMarkBufReader::new(src.lock().unwrap().take().unwrap(), capacity as usize, low as usize);
        *constructed.lock().unwrap() = true;
        for o in ops {
            let out = match o {
                Op::Fill => Out::Fill(rd.fill_buf().unwrap().to_vec()),
                Op::Consume(n) => {
                    rd.consume(*n as usize);
                    Out::Unit
                }
                Op::Read(k) => {
                    let mut b = vec![0u8; *k as usize];
                    let n = rd.read(&mut b).unwrap();
                    b.truncate(n);
                    Out::Read(b)
                }
                Op::SeekStart(n) => Out::Seek(rd.seek(SeekFrom::Start(*n)).ok()),
                Op::SeekCur(d) => Out::Seek(rd.seek(SeekFrom::Current(*d)).ok()),
                Op::SeekEnd(d) => Out::Seek(rd.seek(SeekFrom::End(*d)).ok()),
            };
            evs.lock().unwrap().push(Ev { out, win: rd.buffer().to_vec() });
        }
    }));
    let c = *constructed.lock().unwrap();
    let concrete = returned.lock().unwrap().clone();
    (evs.into_inner().unwrap(), r.err(), c, concrete)
}

fn sat_add_signed(a: u64, d: i64) -> u64 {
    a.saturating_add_signed(d)
}

/// the property's reader clauses evaluated directly on what the implementation did
fn oracle_trace(capacity: u64, low: u64, data: &[u8], ops: &[Op], evs: &[Ev], panic: &Option<String>) -> Verdict {
    let fail = |c: &str, d: String| Verdict::Fail { clause: c.into(), detail: d };
    if !(low > 0 && low + CL <= capacity) {
        return Verdict::Ok; // outside the quantifier (new() asserts)
    }
    let mut p: usize = 0; // logical stream position
    let mut win_prev: Vec<u8> = vec![];
    let mut delivered: Vec<u8> = vec![];
    let mut seen_seek = false;
    for (i, ev) in evs.iter().enumerate() {
        let b = win_prev.len();
        match (&ops[i], &ev.out) {
            (Op::Fill, Out::Fill(w)) => {
                if w != &ev.win {
                    return fail("fill_returns_buffer", format!("op {}", i));
                }
                if !(w.len() as u64 >= low || p + w.len() == data.len()) {
                    return fail("lookahead", format!("op {}: {} bytes shown at position {} of {}, low mark {}", i, w.len(), p, data.len(), low));
                }
                if w.is_empty() && p < data.len() {
                    return fail("no_early_eof", format!("op {}: empty slice at position {} of {}", i, p, data.len()));
                }
            }
            (Op::Consume(n), Out::Unit) => {
                let adv = (*n).min(b as u64) as usize;
                delivered.extend_from_slice(&win_prev[..adv]);
                p += adv;
            }
            (Op::Read(k), Out::Read(bs)) => {
                if bs.len() as u64 > *k || p + bs.len() > data.len() || bs[..] != data[p..p + bs.len()] {
                    return fail("read_exact", format!("op {}: read at position {} returned other bytes than the source's", i, p));
                }
                let must = (*k).min(low).min((data.len() - p) as u64);
                if (bs.len() as u64) < must {
                    return fail("no_early_eof", format!("op {}: read({}) at position {} of {} returned {}", i, k, p, data.len(), bs.len()));
                }
                delivered.extend_from_slice(bs);
                p += bs.len();
            }
            (Op::SeekStart(_), Out::Seek(r)) | (Op::SeekCur(_), Out::Seek(r)) => {
                let target = match &ops[i] {
                    Op::SeekStart(n) => *n,
                    Op::SeekCur(d) => sat_add_signed(p as u64, *d),
                    _ => unreachable!(),
                };
                match r {
                    Some(m) => {
                        if *m != target {
                            return fail("seek_result", format!("op {}: seek to {} returned {}", i, target, m));
                        }
                        p = target as usize;
                        seen_seek = true;
                    }
                    None => {
                        if b > 0 && target >= p as u64 && target <= (p + b) as u64 {
                            return fail("seek_within_buffer_rejected", format!("op {}: seek to {} inside [{}, {}] refused", i, target, p, p + b));
                        }
                    }
                }
            }
            (Op::SeekEnd(_), Out::Seek(_)) => {}
            _ => return fail("harness", "op/out mismatch".into()),
        }
        // whatever is buffered must be the source's bytes at the logical position
        if p + ev.win.len() > data.len() || ev.win[..] != data[p..p + ev.win.len()] {
            let k = (0..ev.win.len()).find(|j| p + j >= data.len() || ev.win[*j] != data[p + j]).unwrap_or(0);
            return fail(
                if seen_seek { "seek_within_buffer" } else { "window_exact" },
                format!("after op {} ({:?}): buffered byte {} (stream position {}) is {} but the source has {:?}", i, ops[i], k, p + k, ev.win[k], data.get(p + k)),
            );
        }
        win_prev = ev.win.clone();
    }
    if let Some(e) = panic {
        // consume(amt) with pos + amt > usize::MAX is outside BufRead's contract and the quantifier
        if let Some(Op::Consume(n)) = ops.get(evs.len()) {
            if *n >= 1 << 62 {
                return Verdict::Ok;
            }
        }
        return fail("no_panic", e.clone());
    }
    if !seen_seek && delivered[..] != data[..p] {
        return fail("delivered_once_in_order", format!("{} bytes delivered differ from the source prefix", delivered.len()));
    }
    Verdict::Ok
}

// ------------------------------------------------------------------ iterator runs
#[derive(Clone, Debug, PartialEq)]
struct IterObs {
    msgs: Vec<O>,
    counters: Vec<u64>, // index, processed, skipped, det_storage, det_serial
    sizes: Vec<usize>,
}
fn o_c4(c: &adlt::dlt::DltChar4) -> O {
    O::T(c.as_buf().iter().map(|b| O::n(*b)).collect())
}
fn o_msg(m: &DltMessage) -> O {
    let mut v = vec![
        O::n(m.index),
        O::n(m.reception_time_us),
        o_c4(&m.ecu),
        O::n(m.timestamp_dms),
        O::n(m.standard_header.htyp),
        O::n(m.standard_header.mcnt),
        O::n(m.standard_header.len),
        O::opt(m.extended_header.as_ref().map(|e| O::T(vec![O::n(e.verb_mstp_mtin), O::n(e.noar), o_c4(&e.apid), o_c4(&e.ctid)]))),
    ];
    v.extend(o_bytes(&m.payload));
    O::T(v)
}
fn drain<R: BufRead>(start: u32, reader: R) -> IterObs {
    let mut it = DltMessageIterator::new(start, reader);
    let mut msgs = vec![];
    let mut sizes = vec![];
    for m in &mut it {
        sizes.push(m.payload.len());
        msgs.push(o_msg(&m));
    }
    IterObs {
        msgs,
        counters: vec![it.index as u64, it.bytes_processed as u64, it.bytes_skipped as u64, it.detected_storage_header as u64, it.detected_serial_header as u64],
        sizes,
    }
}
fn run_iter_rd(capacity: u64, low: u64, data: &Arc<Vec<u8>>, sched: &[u64], adaptive: Option<u64>, start: u32) -> (Result<IterObs, String>, u64, Vec<u64>) {
    let src = Scripted::new_adaptive(data.clone(), sched, adaptive);
    let reads = src.reads.clone();
    let returned = src.returned.clone();
    let r = catch_loc(AssertUnwindSafe(|| drain(start, LowMarkBufReader::new(src, capacity as usize, low as usize))));
    let n = *reads.lock().unwrap();
    let concrete = returned.lock().unwrap().clone();
    (r, n, concrete)
}
/// like `drain`, additionally (bytes_processed, bytes_skipped, frame size) after every yielded message
fn drain_tracked<R: BufRead>(start: u32, reader: R, storage: bool) -> (IterObs, Vec<(u64, u64, u64)>) {
    let mut it = DltMessageIterator::new(start, reader);
    let mut msgs = vec![];
    let mut sizes = vec![];
    let mut track = vec![];
    while let Some(m) = it.next() {
        sizes.push(m.payload.len());
        msgs.push(o_msg(&m));
        track.push((it.bytes_processed as u64, it.bytes_skipped as u64, (if storage { 16 } else { 4 }) + m.standard_header.len as u64));
    }
    (
        IterObs {
            msgs,
            counters: vec![it.index as u64, it.bytes_processed as u64, it.bytes_skipped as u64, it.detected_storage_header as u64, it.detected_serial_header as u64],
            sizes,
        },
        track,
    )
}
fn run_iter_whole(data: &Arc<Vec<u8>>, start: u32) -> Result<IterObs, String> {
    catch_loc(AssertUnwindSafe(|| drain(start, Cursor::new(&data[..]))))
}
fn o_iter(r: &Result<IterObs, String>) -> O {
    match r {
        Ok(x) => O::T(vec![
            O::L(0),
            O::T(x.msgs.clone()),
            O::T(vec![O::n(x.counters[0]), O::n(x.counters[1]), O::n(x.counters[2]), O::n(x.counters[3]), O::n(x.counters[4])]),
        ]),
        Err(_) => O::T(vec![O::L(9)]),
    }
}

// ------------------------------------------------------------------ DLT stream generator
fn be16(v: u16) -> [u8; 2] {
    v.to_be_bytes()
}
/// one frame: storage ("DLT\x01" + secs, micros, ecu) or serial ("DLS\x01") header, standard header with the
/// given htyp and the true length (or `len_override`), optional fields, payload segments
fn frame(rng: &mut Rng, storage: bool, htyp: u8, payload: Vec<Seg>, len_override: Option<u16>) -> Vec<Seg> {
    let mut h: Vec<u8> = vec![];
    if storage {
        h.extend_from_slice(b"DLT\x01");
        h.extend_from_slice(&(rng.below(2_000_000_000) as u32).to_le_bytes());
        h.extend_from_slice(&(rng.below(1_000_000) as u32).to_le_bytes());
        h.extend_from_slice(&[b'E', b'C', b'U', b'0' + rng.below(4) as u8]);
    } else {
        h.extend_from_slice(b"DLS\x01");
    }
    let mut opt: Vec<u8> = vec![];
    if htyp & 4 != 0 {
        opt.extend_from_slice(&[b'E', b'X', b'0' + rng.below(10) as u8, 0]);
    }
    if htyp & 8 != 0 {
        opt.extend_from_slice(&(rng.next() as u32).to_be_bytes());
    }
    if htyp & 16 != 0 {
        opt.extend_from_slice(&(rng.below(1_000_000) as u32).to_be_bytes());
    }
    if htyp & 1 != 0 {
        opt.extend_from_slice(&[rng.below(256) as u8, rng.below(4) as u8, b'A', b'P', b'I', b'D', b'C', b'T', b'I', b'D']);
    }
    let plen = segs_len(&payload);
    let len = len_override.unwrap_or((4 + opt.len() as u64 + plen).min(65535) as u16);
    h.extend_from_slice(&[htyp, rng.below(256) as u8]);
    h.extend_from_slice(&be16(len));
    h.extend_from_slice(&opt);
    let mut v = vec![Seg::Lit(h)];
    v.extend(payload);
    v
}
fn opt_size(htyp: u8) -> u64 {
    (if htyp & 4 != 0 { 4 } else { 0 }) + (if htyp & 8 != 0 { 4 } else { 0 }) + (if htyp & 16 != 0 { 4 } else { 0 }) + (if htyp & 1 != 0 { 10 } else { 0 })
}
fn marker(storage: bool) -> Vec<u8> {
    if storage { b"DLT\x01".to_vec() } else { b"DLS\x01".to_vec() }
}
fn gen_payload(rng: &mut Rng, storage: bool, n: u64) -> Vec<Seg> {
    if n == 0 {
        return vec![];
    }
    let mut v = vec![];
    if n >= 12 && rng.chance(1, 5) {
        // embedded frame marker somewhere inside
        let at = rng.below(n - 4);
        if at > 0 {
            v.push(Seg::Ramp(rng.below(251) as u8, rng.range(1, 7) as u8, at));
        }
        v.push(Seg::Lit(marker(if rng.chance(1, 6) { !storage } else { storage })));
        if n - at - 4 > 0 {
            v.push(Seg::Rep(rng.below(256) as u8, n - at - 4));
        }
    } else if n <= 24 {
        v.push(Seg::Lit((0..n).map(|_| rng.below(256) as u8).collect()));
    } else if rng.chance(1, 2) {
        v.push(Seg::Ramp(rng.below(251) as u8, rng.range(1, 7) as u8, n));
    } else {
        v.push(Seg::Rep(rng.below(256) as u8, n));
    }
    v
}
fn gen_garbage(rng: &mut Rng, storage: bool) -> Vec<Seg> {
    let m = marker(storage);
    match rng.below(6) {
        0 => vec![Seg::Lit(m[..rng.range(1, 3) as usize].to_vec())],
        1 => {
            // a marker followed by junk that is no frame
            let mut l = m.clone();
            l.extend((0..rng.range(0, 24)).map(|_| rng.below(256) as u8));
            vec![Seg::Lit(l)]
        }
        2 => vec![Seg::Rep(rng.below(256) as u8, rng.range(1, 40))],
        _ => vec![Seg::Lit((0..rng.range(1, 12)).map(|_| rng.below(256) as u8).collect())],
    }
}
/// a stream: frames of one framing with garbage between them; returns the segments and the frame boundaries
fn gen_stream(rng: &mut Rng, max_msgs: u64, big: u64) -> (Vec<Seg>, Vec<u64>, bool) {
    let storage = !rng.chance(1, 5);
    let kind = rng.below(12);
    if kind == 0 {
        // unstructured bytes
        let n = rng.range(0, 80);
        let l: Vec<u8> = (0..n).map(|_| *rng.pick(&[b'D', b'L', b'T', b'S', 1u8, 0, 4, 0x35, 0xff])).collect();
        return (vec![Seg::Lit(l)], vec![], storage);
    }
    let mut segs = vec![];
    let mut bounds = vec![];
    let n = rng.range(0, max_msgs);
    for i in 0..n {
        if rng.chance(1, 6) {
            segs.extend(gen_garbage(rng, storage));
        }
        bounds.push(segs_len(&segs));
        let htyp = ((rng.below(32) as u8) & 0x1f) | ((rng.below(8) as u8) << 5);
        let psz = match rng.below(20) {
            0 => 0,
            1..=12 => rng.range(0, 40),
            13..=16 => rng.range(40, 600),
            17..=18 => rng.range(600, big.max(601)),
            _ => rng.range(0, 3),
        };
        let psz = psz.min(65535 - 4 - opt_size(htyp));
        let payload = gen_payload(rng, storage, psz);
        let lo = if rng.chance(1, 25) {
            Some(match rng.below(4) {
                0 => rng.below(4 + opt_size(htyp)) as u16, // len smaller than the headers
                1 => 65535,
                2 => (4 + opt_size(htyp) + psz + rng.range(1, 9)).min(65535) as u16, // claims more than there is
                _ => (4 + opt_size(htyp) + psz).saturating_sub(rng.range(1, 3)) as u16,
            })
        } else {
            None
        };
        segs.extend(frame(rng, storage, htyp, payload, lo));
        if i + 1 == n && rng.chance(1, 6) {
            // truncated tail: drop a few bytes from the last literal-free representation by appending a partial frame instead
            let tp = gen_payload(rng, storage, 30);
            let t = frame(rng, storage, 0x35, tp, None);
            let bytes = expand(&t);
            let cut = rng.range(1, bytes.len() as u64 - 1) as usize;
            bounds.push(segs_len(&segs));
            segs.push(Seg::Lit(bytes[..cut].to_vec()));
        }
    }
    if rng.chance(1, 8) {
        segs.extend(gen_garbage(rng, storage));
    }
    bounds.push(segs_len(&segs));
    (segs, bounds, storage)
}
/// a well-formed storage frame (true length, no embedded marker)
fn good_frame(rng: &mut Rng, psz: u64) -> Vec<Seg> {
    let htyp = ((rng.below(32) as u8) & 0x1f) | (1 << 5);
    let p = if psz == 0 { vec![] } else { vec![Seg::Ramp(rng.below(60) as u8, 0, psz)] };
    frame(rng, true, htyp, p, None)
}

// ------------------------------------------------------------------ schedules
fn gen_sched(rng: &mut Rng, kind: u64, total: u64, bounds: &[u64], low: u64) -> (Vec<u64>, &'static str) {
    match kind {
        0 => (vec![1; total as usize + 2], "all1"),
        1 => ((0..(total / 3 + 4)).map(|_| rng.range(1, 9)).collect(), "small_random"),
        2 => {
            // exactly the frame boundaries
            let mut v = vec![];
            let mut last = 0;
            for b in bounds {
                if *b > last {
                    v.push(*b - last);
                    last = *b;
                }
            }
            (v, "frame_boundaries")
        }
        3 => (vec![low; (total / low.max(1) + 2) as usize], "exact_low_mark"),
        4 => {
            let mut v = vec![];
            let mut k = 1u64;
            let mut s = 0;
            while s < total + 1 {
                v.push(k);
                s += k;
                k = if k >= 1 << 20 { 1 } else { k * 2 };
            }
            (v, "powers_of_two")
        }
        5 => ((0..(total / 200 + 4)).map(|_| rng.range(1, 4096)).collect(), "random"),
        6 => {
            // one byte short of / beyond every frame boundary
            let mut v = vec![];
            let mut last = 0i64;
            for b in bounds {
                let t = (*b as i64 + if rng.chance(1, 2) { -1 } else { 1 + rng.below(4) as i64 }).max(last + 1);
                v.push((t - last) as u64);
                last = t;
            }
            (v, "off_boundaries")
        }
        _ => (vec![], "full_reads"),
    }
}

// ------------------------------------------------------------------ call sites
/// (capacity, low mark) the two production call sites pass to LowMarkBufReader::new, read from the source text
fn call_site_config(repo: &str) -> Result<Vec<(String, u64, u64)>, String> {
    let mut res = vec![];
    for f in ["src/bin/adlt/convert.rs", "src/bin/adlt/remote.rs"] {
        let t = std::fs::read_to_string(format!("{}/{}", repo, f)).map_err(|e| format!("{}: {}", f, e))?;
        let eval = |e: &str| -> Result<u64, String> {
            // sums of products of integer literals and DLT_MAX_STORAGE_MSG_SIZE
            let mut sum = 0u64;
            for term in e.split('+') {
                let mut prod = 1u64;
                for fac in term.split('*') {
                    let fac = fac.trim();
                    let num = fac.trim_end_matches("usize").trim_end_matches('_').replace('_', "");
                    let v = if fac == "DLT_MAX_STORAGE_MSG_SIZE" || fac.ends_with("::DLT_MAX_STORAGE_MSG_SIZE") {
                        DLT_MAX_STORAGE_MSG_SIZE as u64
                    } else if let Some(h) = num.strip_prefix("0x") {
                        u64::from_str_radix(h, 16).map_err(|_| format!("{}: cannot evaluate `{}`", f, e))?
                    } else {
                        num.parse::<u64>().map_err(|_| format!("{}: cannot evaluate `{}`", f, e))?
                    };
                    prod *= v;
                }
                sum += prod;
            }
            Ok(sum)
        };
        let cpos = t.find("const BUFREADER_CAPACITY: usize =").ok_or(format!("{}: BUFREADER_CAPACITY not found", f))?;
        let cexpr = &t[cpos + "const BUFREADER_CAPACITY: usize =".len()..];
        let cexpr = &cexpr[..cexpr.find(';').ok_or("no ;")?];
        let capacity = eval(cexpr)?;
        let mut found = false;
        let mut from = 0;
        while let Some(i) = t[from..].find("LowMarkBufReader::new(") {
            let s = from + i + "LowMarkBufReader::new(".len();
            let e = s + t[s..].find(')').ok_or("no )")?;
            let args: Vec<&str> = t[s..e].split(',').map(|a| a.trim()).filter(|a| !a.is_empty()).collect();
            if args.len() != 3 {
                return Err(format!("{}: unexpected arguments `{}`", f, &t[s..e]));
            }
            let cap = if args[1] == "BUFREADER_CAPACITY" { capacity } else { eval(args[1])? };
            res.push((f.to_string(), cap, eval(args[2])?));
            found = true;
            from = e;
        }
        if !found {
            return Err(format!("{}: no LowMarkBufReader::new call found", f));
        }
    }
    Ok(res)
}

// ------------------------------------------------------------------ cases
#[derive(Clone, Debug, Serialize, Deserialize)]
enum CaseIn {
    /// `adaptive`: seed of the adaptive read sizes used after `sched` (the model gets the sizes actually returned)
    Trace {
        capacity: u64,
        low: u64,
        data: Vec<Seg>,
        sched: Vec<u64>,
        ops: Vec<Op>,
        #[serde(default)]
        adaptive: Option<u64>,
    },
    /// iterator over the reader; `coq_rd`: the model runs over the reader model (else over the whole buffer)
    /// `clean_max`: the stream consists of well-formed frames only (true lengths, no marker inside, no garbage) and
    /// this is the longest frame: with low mark >= clean_max + 4 every frame and the marker behind it are in view
    /// whenever a frame is parsed, so the result must not depend on the schedule either
    Iter {
        capacity: u64,
        low: u64,
        data: Vec<Seg>,
        sched: Vec<u64>,
        start: u32,
        coq_rd: bool,
        sched_kind: String,
        call_site: bool,
        #[serde(default)]
        adaptive: Option<u64>,
        #[serde(default)]
        clean_max: Option<u64>,
    },
    /// position independence: `prefix` = whole well-formed storage frames, `rest` starts with one
    Pos { prefix: Vec<Seg>, nprefix: u32, rest: Vec<Seg>, start: u32 },
    /// position independence on every suffix that starts where the iterator stands after j messages (right behind
    /// message j, i.e. possibly in front of garbage, and at the start of message j+1): a FRESH iterator on the
    /// suffix must recognise what the iterator on the whole stream recognises from there on.
    /// `clean`: payload sizes of the frames if the stream is only well-formed frames (then all must be recognised)
    Suffixes { storage: bool, data: Vec<Seg>, start: u32, clean: Option<Vec<usize>>, seed: u64 },
    /// the configuration of the production call sites is admissible for chunk independence
    CallSites,
}

fn record(sink: &mut Sink, c: CaseIn, extra_tags: &[&str]) {
    let id = sink.next_id();
    let input_json = serde_json::to_value(&c).unwrap();
    let mut tags: Vec<String> = extra_tags.iter().map(|s| s.to_string()).collect();
    let mut cost: u64 = 0;
    let mut classes: Vec<String> = vec![];
    let (input_coq, obs, verdict, nontrivial) = match &c {
        CaseIn::Trace { capacity, low, data, sched, ops, adaptive } => {
            let bytes = Arc::new(expand(data));
            let (evs, panic, constructed, concrete) = run_trace(*capacity, *low, &bytes, sched, *adaptive, ops);
            let sched = if adaptive.is_some() {
                tags.push("sched_adaptive".into());
                &concrete
            } else {
                sched
            };
            let verdict = oracle_trace(*capacity, *low, &bytes, ops, &evs, &panic);
            let mut o: Vec<O> = evs.iter().map(|e| O::T(vec![o_out(&e.out), O::T(o_bytes(&e.win))])).collect();
            if panic.is_some() {
                o.push(O::T(vec![O::L(9)]));
                tags.push(if constructed { "trace_panic".into() } else { "new_assert".into() });
            }
            tags.push("trace".into());
            if ops.iter().any(|o| matches!(o, Op::SeekStart(_) | Op::SeekCur(_))) {
                tags.push("trace_with_seek".into());
            }
            if evs.iter().zip(ops.iter()).any(|(e, o)| matches!((o, &e.out), (Op::SeekStart(_) | Op::SeekCur(_), Out::Seek(Some(_))))) {
                tags.push("seek_accepted".into());
            }
            if bytes.len() as u64 > *capacity {
                tags.push("data_exceeds_capacity".into());
            }
            let nontrivial = ops.len() >= 3 && bytes.len() as u64 > *low;
            (
                format!("CTrace {} {} {} {} {}", capacity, low, segs_coq(data), cnums(sched), clist(&ops.iter().map(op_coq).collect::<Vec<_>>())),
                O::T(o),
                verdict,
                nontrivial,
            )
        }
        CaseIn::Iter { capacity, low, data, sched, start, coq_rd, sched_kind, call_site, adaptive, clean_max } => {
            let bytes = Arc::new(expand(data));
            let (r, nreads, concrete) = run_iter_rd(*capacity, *low, &bytes, sched, *adaptive, *start);
            let sched = if adaptive.is_some() {
                tags.push("sched_adaptive".into());
                &concrete
            } else {
                sched
            };
            let w = run_iter_whole(&bytes, *start);
            // rough cost of evaluating the model (lists): loop turns x window + reads x buffer
            let turns = |x: &Result<IterObs, String>| x.as_ref().map(|o| o.msgs.len() as u64 + o.counters[2] + 1).unwrap_or(1);
            cost = if *coq_rd {
                turns(&r) * (bytes.len() as u64).min(*capacity) + nreads * *capacity
            } else {
                turns(&w) * bytes.len() as u64
            };
            tags.push(format!("iter_sched_{}", sched_kind));
            tags.push(if *coq_rd { "iter_model_over_reader".into() } else { "iter_model_whole_buffer".into() });
            if *call_site {
                tags.push("iter_call_site_config".into());
            }
            let clean = clean_max.map(|m| m + 4 <= *low).unwrap_or(false);
            if clean {
                tags.push("iter_clean_frames_fit_low_mark".into());
            }
            let in_domain = *low >= LOOKAHEAD || *call_site || clean;
            let overflow = |x: &Result<IterObs, String>| x.as_ref().err().map(|e| e.contains("overflow")).unwrap_or(false) && (*start as u64 + bytes.len() as u64 / 8 + 1 > u32::MAX as u64);
            let verdict = match (&r, &w) {
                _ if overflow(&r) || overflow(&w) => Verdict::Ok, // 2^32 messages: outside the quantifier
                (Err(e), _) => Verdict::Fail { clause: "no_panic".into(), detail: e.clone() },
                (_, Err(e)) => Verdict::Fail { clause: "no_panic".into(), detail: e.clone() },
                (Ok(a), Ok(b)) => {
                    if a != b {
                        tags.push("iter_chunk_dependent".into());
                    }
                    if in_domain && a != b {
                        Verdict::Fail {
                            clause: "iter_chunk_independent".into(),
                            detail: format!("capacity {} low mark {} schedule {}: payload sizes {:?} counters {:?}; whole buffer: {:?} {:?}", capacity, low, sched_kind, a.sizes, a.counters, b.sizes, b.counters),
                        }
                    } else {
                        Verdict::Ok
                    }
                }
            };
            let nmsgs = r.as_ref().map(|x| x.msgs.len()).unwrap_or(0);
            tags.push(format!("iter_msgs_{}", match nmsgs { 0 => "0", 1 => "1", 2..=4 => "2-4", _ => "5+" }));
            if r.as_ref().map(|x| x.counters[2] > 0).unwrap_or(false) {
                tags.push("iter_skipped_bytes".into());
            }
            if bytes.len() as u64 > *capacity {
                tags.push("data_exceeds_capacity".into());
            }
            let coq = if *coq_rd {
                format!("CIterRd {} {} {} {} {}", capacity, low, segs_coq(data), cnums(sched), start)
            } else {
                format!("CIterWhole {} {}", segs_coq(data), start)
            };
            (coq, o_iter(&r), verdict, nmsgs >= 2)
        }
        CaseIn::Pos { prefix, nprefix, rest, start } => {
            let all: Vec<Seg> = prefix.iter().chain(rest.iter()).cloned().collect();
            let b_all = Arc::new(expand(&all));
            let b_pre = Arc::new(expand(prefix));
            let b_rest = Arc::new(expand(rest));
            let ra = run_iter_whole(&b_all, *start);
            cost = ra.as_ref().map(|o| o.msgs.len() as u64 + o.counters[2] + 1).unwrap_or(1) * b_all.len() as u64;
            let rp = run_iter_whole(&b_pre, *start);
            let rr = run_iter_whole(&b_rest, *start + *nprefix);
            tags.push("position".into());
            let verdict = match (&ra, &rp, &rr) {
                (Ok(a), Ok(p), Ok(r)) => {
                    let mut want = p.msgs.clone();
                    want.extend(r.msgs.iter().cloned());
                    if p.msgs.len() != *nprefix as usize {
                        Verdict::Fail { clause: "harness".into(), detail: "prefix is not whole messages".into() }
                    } else if a.msgs != want || a.counters[1] != p.counters[1] + r.counters[1] || a.counters[2] != p.counters[2] + r.counters[2] || a.counters[0] != r.counters[0] {
                        Verdict::Fail {
                            clause: "position_independent".into(),
                            detail: format!("{} whole messages in front change what is recognised in the suffix: {:?} vs {:?}", nprefix, a.sizes, r.sizes),
                        }
                    } else {
                        Verdict::Ok
                    }
                }
                _ => Verdict::Fail { clause: "no_panic".into(), detail: "panic".into() },
            };
            (format!("CIterWhole {} {}", segs_coq(&all), start), o_iter(&ra), verdict, *nprefix >= 1)
        }
        CaseIn::Suffixes { storage, data, start, clean, seed } => {
            let bytes = Arc::new(expand(data));
            let storage = *storage;
            tags.push("suffixes".into());
            tags.push(if storage { "suffixes_storage".into() } else { "suffixes_serial".into() });
            let mut srng = Rng::new(*seed);
            // every stream here is far shorter than the low mark, so the reader always ends up showing all that is
            // left: reader and slice must agree whatever the schedule
            let (cap, low) = (8192u64, 4096u64);
            let rd_run = |d: &Arc<Vec<u8>>, st: u32, r: &mut Rng| -> Result<IterObs, String> {
                let kind = r.below(4);
                let (sched, ad): (Vec<u64>, Option<u64>) = match kind {
                    0 => (vec![1; d.len() + 2], None),
                    1 => ((0..d.len() + 2).map(|_| r.range(1, 9)).collect(), None),
                    2 => (vec![], Some(r.next())),
                    _ => (vec![], None),
                };
                run_iter_rd(cap, low, d, &sched, ad, st).0
            };
            let whole = catch_loc(AssertUnwindSafe(|| drain_tracked(*start, Cursor::new(&bytes[..]), storage)));
            let mut fails: Vec<(String, String)> = vec![];
            let mut cuts_obs = vec![];
            let mut cuts_coq = vec![];
            let mut nontriv = false;
            let obs_whole;
            match &whole {
                Err(e) => {
                    fails.push(("no_panic".into(), e.clone()));
                    obs_whole = O::T(vec![O::L(9)]);
                }
                Ok((a, track)) => {
                    obs_whole = o_iter(&Ok(a.clone()));
                    let n = a.msgs.len();
                    if let Ok(w2) = rd_run(&bytes, *start, &mut srng) {
                        if &w2 != a {
                            fails.push(("iter_chunk_independent".into(), format!("whole stream ({} bytes) over the reader: {:?} {:?}; over the slice: {:?} {:?}", bytes.len(), w2.sizes, w2.counters, a.sizes, a.counters)));
                        }
                    } else {
                        fails.push(("no_panic".into(), "reader run panicked".into()));
                    }
                    if let Some(sizes) = clean {
                        if &a.sizes != sizes {
                            fails.push(("clean_stream_all_messages".into(), format!("a stream of {} well-formed frames ({} bytes) yields payload sizes {:?}, expected {:?}", sizes.len(), bytes.len(), a.sizes, sizes)));
                        }
                    }
                    // cuts: (offset, messages in front, bytes skipped up to there)
                    let mut cuts: Vec<(u64, usize, u64)> = vec![];
                    for j in 0..n {
                        let (e, k, sz) = track[j];
                        if e >= sz {
                            cuts.push((e - sz, j, k)); // start of message j (j messages in front)
                        }
                        cuts.push((e, j + 1, k)); // right behind message j
                    }
                    cuts.dedup();
                    if n == 0 && !bytes.is_empty() {
                        tags.push("suffixes_no_message".into());
                    }
                    for (c, j, k) in cuts.iter().cloned() {
                        if c == 0 && j == 0 {
                            continue;
                        }
                        let suf = Arc::new(bytes[c as usize..].to_vec());
                        let st = *start + j as u32;
                        let r = run_iter_whole(&suf, st);
                        if suf.len() < 20 {
                            tags.push("suffix_shorter_than_20".into());
                        }
                        cuts_obs.push(O::T(vec![O::n(c), O::n(j as u64), o_iter(&r), O::L(1)]));
                        cuts_coq.push(format!("({}, {})", c, j));
                        let r = match r {
                            Ok(r) => r,
                            Err(e) => {
                                fails.push(("no_panic".into(), e));
                                continue;
                            }
                        };
                        match rd_run(&suf, st, &mut srng) {
                            Ok(r2) if r2 == r => {}
                            Ok(r2) => fails.push(("iter_chunk_independent".into(), format!("suffix of {} bytes over the reader: {:?} {:?}; over the slice: {:?} {:?}", suf.len(), r2.sizes, r2.counters, r.sizes, r.counters))),
                            Err(e) => fails.push(("no_panic".into(), e)),
                        }
                        nontriv |= j >= 1 && !r.msgs.is_empty();
                        let want = &a.msgs[j..];
                        let same_items = r.msgs[..] == *want && r.counters[0] == a.counters[0];
                        // counters: bytes_processed / bytes_skipped of the suffix run = those of the whole run minus what
                        // lies in front of the cut.  (A fresh iterator that never yields a storage message keeps trying the
                        // serial parser and skips on where the latched one stops: only then the counters may differ.)
                        let counters_apply = !storage || !r.msgs.is_empty();
                        let same_counters = r.counters[1] + c == a.counters[1] && r.counters[2] + k == a.counters[2];
                        if !same_items {
                            fails.push((
                                "position_independent".into(),
                                format!(
                                    "{} stream of {} bytes: after {} message(s) (offset {}) the iterator recognises payload sizes {:?}, a fresh iterator on the same {} remaining bytes recognises {:?}",
                                    if storage { "storage" } else { "serial" },
                                    bytes.len(),
                                    j,
                                    c,
                                    &a.sizes[j..],
                                    suf.len(),
                                    r.sizes
                                ),
                            ));
                        } else if counters_apply && !same_counters {
                            fails.push((
                                "position_independent".into(),
                                format!("offset {} after {} message(s): counters of the suffix run {:?} do not add up to those of the whole run {:?} (skipped in front: {})", c, j, r.counters, a.counters, k),
                            ));
                        }
                    }
                }
            }
            let verdict = match fails.first() {
                None => Verdict::Ok,
                Some((c, d)) => Verdict::Fail { clause: c.clone(), detail: d.clone() },
            };
            (
                format!("CSuffixes {} {} {} {}", cbool(storage), segs_coq(data), start, clist(&cuts_coq)),
                O::T(vec![obs_whole, O::T(cuts_obs)]),
                verdict,
                nontriv,
            )
        }
        CaseIn::CallSites => {
            let repo = std::env::var("VERIF_REPO").unwrap_or("/repo".into());
            tags.push("call_sites".into());
            let (verdict, o) = match call_site_config(&repo) {
                Err(e) => (Verdict::Fail { clause: "call_site_unparsed".into(), detail: e }, vec![]),
                Ok(v) => {
                    let bad: Vec<_> = v.iter().filter(|(_, cap, low)| !(*low >= LOOKAHEAD && low + CL <= *cap)).collect();
                    let o = v.iter().map(|(_, c, l)| O::T(vec![O::n(*c), O::n(*l)])).collect();
                    if bad.is_empty() {
                        (Verdict::Ok, o)
                    } else {
                        (
                            Verdict::Fail {
                                clause: "call_site_low_mark".into(),
                                detail: format!("{}: LowMarkBufReader::new(_, {}, {}) but chunk independence needs low mark >= {} (longest frame + 4)", bad[0].0, bad[0].1, bad[0].2, LOOKAHEAD),
                            },
                            o,
                        )
                    }
                }
            };
            // the model side of this case is the empty trace
            let _ = o;
            ("CTrace 4097 1 [] [] []".to_string(), O::T(vec![]), verdict, false)
        }
    };
    let key = input_coq.clone();
    if cost > COST_BUDGET {
        // too expensive for the list-based model inside coqc: a passing case is dropped (and counted), a failing
        // one is kept for the verdict with the empty trace as its model side
        let n = sink.extra_stats.entry("dropped_model_too_costly".into()).or_insert(json!(0)).as_u64().unwrap_or(0);
        sink.extra_stats.insert("dropped_model_too_costly".into(), json!(n + 1));
        if let Verdict::Ok = verdict {
            return;
        }
        tags.push("model_side_omitted".into());
        sink.push(Case { id, input_coq: "CTrace 4097 1 [] [] []".into(), input_json, obs: O::T(vec![]), verdict, classes, tags, nontrivial, key });
        return;
    }
    sink.push(Case { id, input_coq, input_json, obs, verdict, classes, tags, nontrivial, key });
}

// ------------------------------------------------------------------ generators
fn gen_trace(rng: &mut Rng, big: bool) -> CaseIn {
    // small low marks keep the model's buffer (a list) short; capacity >= low + 4096 is forced by new()
    let low = *rng.pick(&[1u64, 2, 7, 64, 100, 1000, 4095, 4096, 4097, 5000]);
    let slack = *rng.pick(&[0u64, 0, 1, 5, 100, 4095, 4096, 4097, 8192]);
    let mut capacity = low + CL + slack;
    if rng.chance(1, 40) {
        capacity = low + CL - rng.range(1, 3); // new() must panic
    }
    let low = if rng.chance(1, 60) { 0 } else { low };
    let total = match rng.below(10) {
        0 => rng.range(0, 20),
        1 => capacity,
        2 => capacity + rng.range(1, 10),
        3 => rng.range(low, low + 10),
        _ => rng.range(0, if big { 40000 } else { 16000 }),
    };
    let mut data = vec![];
    let mut left = total;
    while left > 0 {
        let n = if rng.chance(1, 2) { left } else { rng.range(1, left) };
        data.push(match rng.below(4) {
            0 => Seg::Rep(rng.below(256) as u8, n),
            _ => Seg::Ramp(rng.below(251) as u8, rng.range(1, 9) as u8, n),
        });
        left -= n;
    }
    let skind = rng.below(8);
    let (mut sched, _) = gen_sched(rng, if skind == 0 { 5 } else { skind }, total, &[total / 3, total / 2], low.max(1));
    if skind == 0 {
        // a stretch of 1-byte reads only (each costs the model one pass over its buffer)
        sched = vec![1; rng.range(1, 60) as usize];
    }
    sched.truncate(400);
    let nops = rng.range(1, if big { 40 } else { 24 });
    let mut ops = vec![];
    let mut p: u64 = 0; // rough logical position
    for _ in 0..nops {
        let o = match rng.below(20) {
            0..=4 => Op::Fill,
            5..=9 => {
                let n = match rng.below(8) {
                    0 => 0,
                    1 => 1,
                    2 => low,
                    3 => CL,
                    4 => capacity,
                    5 => rng.range(CL, CL + 200),
                    _ => rng.range(0, capacity),
                };
                p = (p + n).min(total);
                Op::Consume(n)
            }
            10..=13 => {
                let k = match rng.below(6) {
                    0 => 0,
                    1 => 1,
                    2 => rng.range(1, 16),
                    3 => capacity + 5,
                    _ => rng.range(1, 6000),
                };
                p = (p + k).min(total);
                Op::Read(k)
            }
            14..=16 => {
                // around the logical position / the buffer start (backward seeks after a compaction!)
                let n = match rng.below(5) {
                    0 => p.saturating_sub(rng.range(0, 5000)),
                    1 => p + rng.range(0, 5000),
                    2 => (p / CL) * CL - ((p / CL) * CL).min(rng.range(0, 3) * CL) + rng.below(3),
                    3 => rng.range(0, total + 3),
                    _ => p.saturating_sub(rng.range(0, 120)),
                };
                p = n.min(total);
                Op::SeekStart(n)
            }
            17..=18 => {
                let d = match rng.below(5) {
                    0 => 0,
                    1 => -(rng.range(1, 200) as i64),
                    2 => rng.range(1, 5000) as i64,
                    3 => -(rng.range(1, 9000) as i64),
                    _ => rng.range(0, 3) as i64 - 1,
                };
                Op::SeekCur(d)
            }
            _ => {
                if rng.chance(1, 4) {
                    Op::Consume(u64::MAX - rng.below(3))
                } else {
                    Op::SeekEnd(-(rng.below(10) as i64))
                }
            }
        };
        ops.push(o);
    }
    CaseIn::Trace { capacity, low, data, sched, ops, adaptive: None }
}

fn gen_iter(rng: &mut Rng, big: bool, call_sites: &[(String, u64, u64)]) -> CaseIn {
    let start = match rng.below(10) {
        0 => 0,
        1 => u32::MAX - rng.below(4) as u32,
        _ => rng.below(100_000) as u32,
    };
    if rng.chance(1, 2) {
        // model over the reader: small low mark, small capacity; chunk dependence is expected and must be
        // predicted by the model
        let low = *rng.pick(&[1u64, 8, 20, 24, 64, 100, 300, 1000, 4096]);
        let capacity = low + CL + *rng.pick(&[0u64, 1, 100, 4096]);
        let mm = if rng.chance(1, 3) { 40 } else { 8 };
        let (data, bounds, _) = gen_stream(rng, mm, 3000);
        let total = segs_len(&data);
        let mut kind = rng.below(8);
        if (kind == 0 || kind == 1) && total > 400 {
            kind = 5;
        }
        let (mut sched, name) = gen_sched(rng, kind, total, &bounds, low);
        sched.truncate(600);
        CaseIn::Iter { capacity, low, data, sched, start, coq_rd: true, sched_kind: name.into(), call_site: false, adaptive: None, clean_max: None }
    } else {
        // the theorem's domain: low mark >= LOOKAHEAD, capacities up to 512 KiB; model = whole buffer
        let use_site = !call_sites.is_empty() && rng.chance(1, 3);
        let (capacity, low) = if use_site {
            let s = rng.pick(call_sites);
            (s.1, s.2)
        } else {
            let low = LOOKAHEAD + *rng.pick(&[0u64, 0, 1, 100, 34445]);
            (*rng.pick(&[low + CL, low + CL + 1, low + 2 * CL, 128 * 1024 + low, 512 * 1024]).max(&(low + CL)), low)
        };
        let bigp = if rng.chance(1, 4) { 70000 } else { 5000 };
        let (data, bounds, _) = gen_stream(rng, if big { 30 } else { 10 }, bigp);
        let total = segs_len(&data);
        let kind = rng.below(8);
        let (sched, name) = gen_sched(rng, kind, total, &bounds, low);
        CaseIn::Iter { capacity, low, data, sched, start, coq_rd: false, sched_kind: name.into(), call_site: use_site, adaptive: None, clean_max: None }
    }
}

fn gen_pos(rng: &mut Rng) -> CaseIn {
    let n = rng.range(0, 6) as u32;
    let mut prefix = vec![];
    for _ in 0..n {
        let psz = rng.size(60);
        prefix.extend(good_frame(rng, psz));
    }
    let psz = rng.size(40);
    let mut rest = good_frame(rng, psz);
    let psz = rng.size(40);
    rest.extend(good_frame(rng, psz));
    let (more, _, _) = gen_stream(rng, 6, 800);
    rest.extend(more);
    CaseIn::Pos { prefix, nprefix: n, rest, start: rng.below(1000) as u32 }
}

/// header / payload bytes that can never form a frame marker of either framing (no 'D')
fn plain_byte(rng: &mut Rng) -> u8 {
    let b = rng.below(255) as u8;
    if b == b'D' { 0x45 } else { b }
}
/// a small well-formed frame of exactly `total` bytes if possible (serial: >= 8, storage: >= 20); returns (segments, payload size)
fn tiny_frame(rng: &mut Rng, storage: bool, total: u64) -> (Vec<Seg>, usize) {
    let hdr = if storage { 16 } else { 4 };
    let total = total.max(hdr + 4);
    let room = total - hdr - 4;
    let mut htyp: u8 = 0x20 | ((rng.below(2) as u8) << 1);
    let mut opt = 0;
    for (bit, sz) in [(4u8, 4u64), (8, 4), (16, 4), (1, 10)] {
        if opt + sz <= room && rng.chance(1, 3) {
            htyp |= bit;
            opt += sz;
        }
    }
    let psz = room - opt;
    let mut h: Vec<u8> = vec![];
    if storage {
        h.extend_from_slice(b"DLT\x01");
        for _ in 0..12 {
            h.push(plain_byte(rng));
        }
    } else {
        h.extend_from_slice(b"DLS\x01");
    }
    h.push(htyp);
    h.push(plain_byte(rng));
    h.extend_from_slice(&((4 + opt + psz) as u16).to_be_bytes());
    for _ in 0..opt + psz {
        h.push(plain_byte(rng));
    }
    (vec![Seg::Lit(h)], psz as usize)
}
/// tiny streams for the suffix oracle: 0..6 small frames of one framing (serial 8..30 bytes, storage 20..50), garbage
/// between / behind them, truncated or over-claiming frames, tails of 0..40 bytes
fn gen_suffixes(rng: &mut Rng) -> CaseIn {
    let storage = rng.chance(2, 5);
    let k = match rng.below(8) {
        0 => 0,
        1 => 1,
        2 => 2,
        _ => rng.range(1, 6),
    };
    let dirty = rng.chance(1, 2);
    let mut data = vec![];
    let mut sizes = vec![];
    let mut clean = true;
    let garbage = |rng: &mut Rng| -> Seg { Seg::Lit((0..rng.range(1, 7)).map(|_| plain_byte(rng)).collect()) };
    for i in 0..k {
        if dirty && rng.chance(1, 4) {
            data.push(garbage(rng));
            clean = false;
        }
        let total = if storage { rng.range(20, 50) } else { rng.range(8, 30) };
        let (f, psz) = tiny_frame(rng, storage, total);
        if dirty && i + 1 < k && rng.chance(1, 12) {
            // length field claims more than the stream holds
            let mut b = expand(&f);
            let at = if storage { 18 } else { 6 };
            b[at] = 0x20;
            data.push(Seg::Lit(b));
            clean = false;
        } else {
            data.extend(f);
            sizes.push(psz);
        }
    }
    if dirty || k == 0 {
        match rng.below(5) {
            0 => {
                data.push(Seg::Lit((0..rng.range(1, 40)).map(|_| plain_byte(rng)).collect()));
                clean = false;
            }
            1 | 2 => {
                // a lone truncated frame as tail
                let total = if storage { rng.range(20, 50) } else { rng.range(8, 30) };
                let b = expand(&tiny_frame(rng, storage, total).0);
                let cut = rng.range(1, b.len() as u64 - 1) as usize;
                data.push(Seg::Lit(b[..cut].to_vec()));
                clean = false;
            }
            3 => {
                let m = marker(storage);
                data.push(Seg::Lit(m[..rng.range(1, 4) as usize].to_vec()));
                clean = false;
            }
            _ => {}
        }
    }
    CaseIn::Suffixes { storage, data, start: rng.below(1000) as u32, clean: if clean { Some(sizes) } else { None }, seed: rng.next() }
}

/// DESIGN Appendix A, C04-1: one maximum-size storage frame with an embedded marker, garbage, a small frame
fn witness_max_frame(rng: &mut Rng) -> Vec<Seg> {
    // outer frame: 16 + 65535 bytes, htyp 0x20 (payload starts at 20).  At payload offset 100 an embedded storage
    // frame that ends exactly where the outer one ends: 16 + len = 65551 - 120
    let inner_len: u16 = (65551 - 120 - 16) as u16;
    let mut inner = b"DLT\x01".to_vec();
    inner.extend_from_slice(&[1, 0, 0, 0, 2, 0, 0, 0, b'E', b'C', b'U', b'9', 0x20, 7]);
    inner.extend_from_slice(&inner_len.to_be_bytes());
    let payload = vec![Seg::Rep(0x41, 100), Seg::Lit(inner), Seg::Rep(0x42, inner_len as u64 - 4)];
    assert_eq!(segs_len(&payload), 65531);
    let mut v = frame(rng, true, 0x20, payload, None);
    v.push(Seg::Lit(vec![1, 2, 3, 4, 5, 6, 7, 8]));
    v.extend(frame(rng, true, 0x20, vec![Seg::Lit(vec![9, 9, 9, 9, 9])], None));
    v
}

/// a maximum-size frame that embeds a frame ending exactly where the outer one ends, then garbage and a
/// small frame; read schedules that stop j bytes behind the outer frame's end (the next-marker test sees
/// 0..7 bytes of what follows)
fn gen_max_frame(rng: &mut Rng, sites: &[(String, u64, u64)]) -> CaseIn {
    let at = rng.range(0, 150); // payload offset of the embedded frame
    let inner_total = 65551 - 20 - at; // 16 + len
    let inner_len = (inner_total - 16) as u16;
    let mut inner = b"DLT\x01".to_vec();
    inner.extend_from_slice(&[1, 0, 0, 0, 2, 0, 0, 0, b'E', b'C', b'U', b'9', 0x20, rng.below(256) as u8]);
    inner.extend_from_slice(&inner_len.to_be_bytes());
    let mut payload = vec![];
    if at > 0 {
        payload.push(Seg::Rep(0x41, at));
    }
    payload.push(Seg::Lit(inner));
    payload.push(Seg::Rep(rng.below(256) as u8, inner_len as u64 - 4));
    let mut v = vec![];
    let mut front = 0;
    if rng.chance(1, 2) {
        let psz = rng.size(30);
        v.extend(good_frame(rng, psz));
        front = segs_len(&v);
    }
    v.extend(frame(rng, true, 0x20, payload, None));
    let outer_end = segs_len(&v);
    let g: Vec<u8> = (0..rng.range(1, 12)).map(|_| rng.below(256) as u8).collect();
    v.push(Seg::Lit(g));
    let psz = rng.size(20);
    v.extend(good_frame(rng, psz));
    let j = rng.below(8);
    let sched = if front > 0 && rng.chance(1, 2) { vec![front, outer_end - front + j] } else { vec![outer_end + j] };
    let use_site = !sites.is_empty() && rng.chance(1, 2);
    let (capacity, low) = if use_site {
        let s = rng.pick(sites);
        (s.1, s.2)
    } else {
        (LOOKAHEAD + CL + rng.below(3) * CL, LOOKAHEAD)
    };
    CaseIn::Iter { capacity, low, data: v, sched, start: rng.below(1000) as u32, coq_rd: false, sched_kind: "max_frame_then_rest".into(), call_site: use_site, adaptive: None, clean_max: None }
}

/// `n` well-formed storage frames whose total sizes lie in [lo, hi]; returns the segments, the frame boundaries
/// and the longest frame (None if a marker happens to occur anywhere but at the frame starts)
fn clean_frames(rng: &mut Rng, n: u64, lo: u64, hi: u64) -> (Vec<Seg>, Vec<u64>, Option<u64>) {
    let mut v = vec![];
    let mut bounds = vec![];
    let mut max = 0;
    for _ in 0..n {
        let total = rng.range(lo.max(46), hi.max(46));
        let before = segs_len(&v);
        // header = 16 + 4 + optional fields (<= 22)
        let f = good_frame(rng, total - 46);
        v.extend(f);
        let len = segs_len(&v) - before;
        max = max.max(len);
        bounds.push(segs_len(&v));
    }
    let bytes = expand(&v);
    let markers = bytes.windows(4).filter(|w| w == b"DLT\x01" || w == b"DLS\x01").count() as u64;
    (v, bounds, if markers == n { Some(max) } else { None })
}

/// adaptive read sizes (1/2, 1/3, 1/4 of the free space, all, all-1, 1) with tight capacities
fn gen_adaptive_trace(rng: &mut Rng) -> CaseIn {
    let low = *rng.pick(&[64u64, 1000, 3000, 4096, 4097, 5000]);
    let capacity = low + CL + if rng.chance(1, 2) { rng.below(4) } else { rng.range(0, low) };
    let total = rng.range(low, 60000);
    let data = vec![Seg::Ramp(rng.below(251) as u8, rng.range(1, 9) as u8, total)];
    let sched = match rng.below(3) {
        0 => vec![capacity],
        1 => vec![capacity / 2],
        _ => vec![],
    };
    let mut ops = vec![];
    for _ in 0..rng.range(4, 24) {
        ops.push(match rng.below(12) {
            0..=3 => Op::Fill,
            4..=5 => Op::Consume(rng.range(low * 4 / 10, low * 9 / 10)),
            // leaves only a little in a full buffer
            6..=8 => Op::Consume(capacity - rng.range(0, (low * 6 / 10).min(capacity))),
            9 => Op::Consume(rng.range(low, capacity)),
            10 => Op::Read(rng.range(1, low)),
            _ => Op::SeekCur(-(rng.range(0, 300) as i64)),
        });
        if rng.chance(1, 2) {
            ops.push(Op::Fill);
        }
    }
    CaseIn::Trace { capacity, low, data, sched, ops, adaptive: Some(rng.next()) }
}

fn gen_adaptive_iter(rng: &mut Rng, big: bool) -> CaseIn {
    let (low, coq_rd) = if big { (LOOKAHEAD, false) } else { (*rng.pick(&[1000u64, 2000, 4096, 4096]), true) };
    let capacity = low + CL + if rng.chance(1, 2) { rng.below(4) } else { rng.range(0, low) };
    let n = if big { rng.range(2, 6) } else { rng.range(3, 12) };
    let hi = (low * 97 / 100).min(low - 4).min(65535 + 16);
    let lo = if rng.chance(1, 2) { low * 8 / 10 } else { low * 4 / 10 };
    let (mut data, bounds, clean_max) = clean_frames(rng, n, lo, hi);
    let mut clean_max = clean_max;
    if big && rng.chance(1, 3) {
        data.extend(gen_garbage(rng, true));
        let psz = rng.size(30);
        data.extend(good_frame(rng, psz));
        clean_max = None;
    }
    let sched = match rng.below(4) {
        0 => vec![capacity],
        1 => vec![bounds[0]],
        _ => vec![],
    };
    CaseIn::Iter {
        capacity,
        low,
        data,
        sched,
        start: rng.below(1000) as u32,
        coq_rd,
        sched_kind: "adaptive".into(),
        call_site: false,
        adaptive: Some(rng.next()),
        clean_max,
    }
}

fn main() {
    let a = parse_args();
    let mut sink = Sink::new("C04", &a.out);
    sink.shard_size = 40;
    if let Some(p) = &a.replay {
        let v = read_replay(p);
        let c: CaseIn = serde_json::from_value(v["case"].clone()).expect("case");
        record(&mut sink, c, &["replay"]);
        sink.finish();
        return;
    }
    let repo = std::env::var("VERIF_REPO").unwrap_or("/repo".into());
    let sites = call_site_config(&repo).unwrap_or_default();
    let mut rng = Rng::new(a.seed);

    // ---- corpus
    record(&mut sink, CaseIn::CallSites, &["corpus"]);
    // C04-2: backward seek after a compaction (capacity 3*4096, low mark 4096, consume 12188, refill, seek 12187)
    record(
        &mut sink,
        CaseIn::Trace {
            capacity: 3 * 4096,
            low: 4096,
            data: vec![Seg::Ramp(0, 1, 20000)],
            sched: vec![],
            ops: vec![Op::Fill, Op::Consume(12188), Op::Fill, Op::SeekStart(12187), Op::Read(1), Op::SeekCur(0), Op::SeekStart(12188 - 100), Op::Read(3)],
            adaptive: None,
        },
        &["corpus", "witness_seek_after_compaction"],
    );
    // the unit tests' scenario
    record(
        &mut sink,
        CaseIn::Trace {
            capacity: 8192,
            low: 4096,
            data: vec![Seg::Ramp(0, 1, 8203)],
            sched: vec![],
            ops: vec![Op::SeekStart(4096), Op::SeekStart(4097), Op::SeekStart(8192), Op::SeekStart(8193), Op::SeekStart(0), Op::Consume(4097), Op::Fill, Op::SeekStart(0), Op::SeekCur(0), Op::SeekCur(-1)],
            adaptive: None,
        },
        &["corpus"],
    );
    // C04-1 under the schedule [65551, rest]: production call-site configuration and the theorem's minimum
    let w = witness_max_frame(&mut rng);
    for (cap, low, site) in sites.iter().map(|s| (s.1, s.2, true)).chain([(LOOKAHEAD + CL, LOOKAHEAD, false)]) {
        for sched in [vec![65551u64], vec![65551, 4], vec![]] {
            record(
                &mut sink,
                CaseIn::Iter { capacity: cap, low, data: w.clone(), sched, start: 0, coq_rd: cap <= 128 * 1024, sched_kind: "max_frame_then_rest".into(), call_site: site, adaptive: None, clean_max: None },
                &["corpus", "witness_max_frame_embedded_marker"],
            );
        }
    }
    // the same stream with a low mark of exactly one maximum frame: chunk dependent (model must predict it)
    record(
        &mut sink,
        CaseIn::Iter { capacity: 65551 + CL, low: 65551, data: w.clone(), sched: vec![65551], start: 0, coq_rd: true, sched_kind: "max_frame_then_rest".into(), call_site: false, adaptive: None, clean_max: None },
        &["corpus", "witness_max_frame_embedded_marker"],
    );

    // a short read of exactly half of the free space after a compaction with a tight capacity (8192 / 4096):
    // six 3500-byte frames, schedule 8192, 2048, 2048, ...; the look-ahead at offset 7000 must reach the low mark
    // and the iterator must yield 6 of 6
    {
        let mut r2 = Rng::new(4);
        let (frames, _, cm) = clean_frames(&mut r2, 6, 3500, 3500);
        let mut sched = vec![8192u64];
        sched.extend(std::iter::repeat(2048).take(16));
        let mut ops = vec![];
        for _ in 0..6 {
            ops.push(Op::Fill);
            ops.push(Op::Consume(3500));
        }
        ops.push(Op::Fill);
        record(
            &mut sink,
            CaseIn::Trace { capacity: 8192, low: 4096, data: frames.clone(), sched: sched.clone(), ops, adaptive: None },
            &["corpus", "witness_half_of_free_space"],
        );
        record(
            &mut sink,
            CaseIn::Iter { capacity: 8192, low: 4096, data: frames, sched, start: 0, coq_rd: true, sched_kind: "half_of_free_space".into(), call_site: false, adaptive: None, clean_max: cm },
            &["corpus", "witness_half_of_free_space"],
        );
    }

    // position: five serial frames of 11 bytes (the last 11 bytes alone are fewer than a storage frame's minimum),
    // lone serial frames of every size 8..30, two 8-byte frames, lone truncated frames, a 20-byte storage frame
    {
        let mut r3 = Rng::new(7);
        let mut five = vec![];
        for _ in 0..5 {
            five.extend(tiny_frame(&mut r3, false, 11).0);
        }
        let five_sizes: Vec<usize> = {
            // recompute payload sizes from the frames (total 11 = 4 + 4 + opt + payload)
            let b = expand(&five);
            (0..5).map(|i| (u16::from_be_bytes([b[i * 11 + 6], b[i * 11 + 7]]) as usize) - 4 - opt_size(b[i * 11 + 4]) as usize).collect()
        };
        record(&mut sink, CaseIn::Suffixes { storage: false, data: five, start: 0, clean: Some(five_sizes), seed: 1 }, &["corpus", "witness_short_serial_suffix"]);
        for total in 8..=30u64 {
            let (f, psz) = tiny_frame(&mut r3, false, total);
            record(&mut sink, CaseIn::Suffixes { storage: false, data: f.clone(), start: 5, clean: Some(vec![psz]), seed: total }, &["corpus", "lone_serial_frame"]);
            if total % 4 == 0 {
                let b = expand(&f);
                record(&mut sink, CaseIn::Suffixes { storage: false, data: vec![Seg::Lit(b[..b.len() - 1].to_vec())], start: 5, clean: None, seed: total }, &["corpus", "lone_truncated_frame"]);
                let (g, psz2) = tiny_frame(&mut r3, false, 8);
                let mut two = f.clone();
                two.extend(g);
                record(&mut sink, CaseIn::Suffixes { storage: false, data: two, start: 0, clean: Some(vec![psz, psz2]), seed: total }, &["corpus"]);
            }
        }
        for total in [20u64, 21, 39, 40] {
            let (f, psz) = tiny_frame(&mut r3, true, total);
            let (g, psz2) = tiny_frame(&mut r3, true, 20);
            let mut two = f.clone();
            two.extend(g);
            record(&mut sink, CaseIn::Suffixes { storage: true, data: two, start: 0, clean: Some(vec![psz, psz2]), seed: total }, &["corpus"]);
            let b = expand(&f);
            record(&mut sink, CaseIn::Suffixes { storage: true, data: vec![Seg::Lit(b[..b.len() - 1].to_vec())], start: 0, clean: None, seed: total }, &["corpus", "lone_truncated_frame"]);
        }
        // repaired by 9045554 (was: a fresh iterator scanned past the incomplete frame): storage frame, a storage header
        // claiming 8192 bytes, a storage frame; the position oracle applies to it like to any other stream
        let (m0, _) = tiny_frame(&mut r3, true, 20);
        let (x, _) = tiny_frame(&mut r3, true, 20);
        let (m1, _) = tiny_frame(&mut r3, true, 24);
        let mut xb = expand(&x);
        xb[18] = 0x20;
        let mut d = m0;
        d.push(Seg::Lit(xb));
        d.extend(m1);
        record(&mut sink, CaseIn::Suffixes { storage: true, data: d, start: 0, clean: None, seed: 3 }, &["corpus", "witness_fresh_scans_past_short_frame"]);
    }

    // ---- generated
    let (nt, ni, np) = match a.tier.as_str() {
        "quick" => (300, 260, 60),
        "search" => (600, 500, 100),
        _ => (10000, 8000, 1600),
    };
    let scale = |n: u64| a.count.map(|c| (n * c / 620).max(1)).unwrap_or(n);
    let big = a.tier != "quick";
    for _ in 0..scale(nt) {
        let c = gen_trace(&mut rng, big);
        record(&mut sink, c, &[]);
    }
    for _ in 0..scale(ni) {
        let c = gen_iter(&mut rng, big, &sites);
        record(&mut sink, c, &[]);
    }
    for _ in 0..scale(np) {
        let c = gen_pos(&mut rng);
        record(&mut sink, c, &[]);
    }
    for _ in 0..scale(2 * np) {
        let c = gen_suffixes(&mut rng);
        record(&mut sink, c, &[]);
    }
    for _ in 0..scale(np / 4) {
        let c = gen_max_frame(&mut rng, &sites);
        record(&mut sink, c, &["max_frame_embedded"]);
    }
    for _ in 0..scale(np) {
        let c = gen_adaptive_trace(&mut rng);
        record(&mut sink, c, &[]);
    }
    for i in 0..scale(np) {
        let c = gen_adaptive_iter(&mut rng, i % 3 == 2);
        record(&mut sink, c, &[]);
    }
    sink.finish();
}
