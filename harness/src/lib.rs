//! Shared machinery of the correspondence harness: PRNG, Coq term printers, shard writer,
//! per-case records (input, implementation observation, oracle verdict, tags).
use std::collections::BTreeMap;
use std::fmt::Write as _;
use std::io::Write as _;
use std::path::{Path, PathBuf};

pub use serde_json::{json, Value};

pub mod dltgen;
pub mod lcgen;

// ---------------------------------------------------------------- PRNG
#[derive(Clone)]
pub struct Rng(pub u64);
impl Rng {
    pub fn new(seed: u64) -> Rng {
        Rng(seed ^ 0x9E37_79B9_7F4A_7C15)
    }
    pub fn next(&mut self) -> u64 {
        self.0 = self.0.wrapping_add(0x9E37_79B9_7F4A_7C15);
        let mut z = self.0;
        z = (z ^ (z >> 30)).wrapping_mul(0xBF58_476D_1CE4_E5B9);
        z = (z ^ (z >> 27)).wrapping_mul(0x94D0_49BB_1331_11EB);
        z ^ (z >> 31)
    }
    /// uniform in [0, n)
    pub fn below(&mut self, n: u64) -> u64 {
        if n == 0 {
            0
        } else {
            self.next() % n
        }
    }
    /// uniform in [lo, hi]
    pub fn range(&mut self, lo: u64, hi: u64) -> u64 {
        lo + self.below(hi - lo + 1)
    }
    pub fn chance(&mut self, num: u64, den: u64) -> bool {
        self.below(den) < num
    }
    pub fn pick<'a, T>(&mut self, xs: &'a [T]) -> &'a T {
        &xs[self.below(xs.len() as u64) as usize]
    }
    /// small-biased size in [0, max]
    pub fn size(&mut self, max: u64) -> u64 {
        match self.below(10) {
            0 => 0,
            1 => 1.min(max),
            2 => max,
            3..=6 => self.below(max.min(4) + 1),
            _ => self.below(max + 1),
        }
    }
    pub fn fork(&mut self) -> Rng {
        Rng(self.next())
    }
}

// ---------------------------------------------------------------- observation trees / Coq terms
#[derive(Clone, Debug, PartialEq, Eq)]
pub enum O {
    L(u128),
    T(Vec<O>),
}
impl O {
    pub fn b(v: bool) -> O {
        O::L(v as u128)
    }
    pub fn n<T: Into<u128>>(v: T) -> O {
        O::L(v.into())
    }
    pub fn list<T, F: Fn(&T) -> O>(xs: &[T], f: F) -> O {
        O::T(xs.iter().map(f).collect())
    }
    pub fn opt(o: Option<O>) -> O {
        match o {
            None => O::T(vec![]),
            Some(x) => O::T(vec![x]),
        }
    }
    pub fn bytes(xs: &[u8]) -> O {
        O::T(xs.iter().map(|b| O::L(*b as u128)).collect())
    }
    pub fn coq(&self) -> String {
        let mut s = String::new();
        self.write_coq(&mut s);
        s
    }
    fn write_coq(&self, s: &mut String) {
        match self {
            O::L(n) => {
                let _ = write!(s, "L {}", n);
            }
            O::T(ts) => {
                s.push_str("T [");
                for (i, t) in ts.iter().enumerate() {
                    if i > 0 {
                        s.push_str("; ");
                    }
                    t.write_coq(s);
                }
                s.push(']');
            }
        }
    }
    pub fn json(&self) -> Value {
        match self {
            O::L(n) => {
                if *n <= u64::MAX as u128 {
                    json!(*n as u64)
                } else {
                    json!(n.to_string())
                }
            }
            O::T(ts) => Value::Array(ts.iter().map(|t| t.json()).collect()),
        }
    }
}

/// Coq list literal from already rendered items
pub fn clist<S: AsRef<str>>(items: &[S]) -> String {
    let mut s = String::from("[");
    for (i, t) in items.iter().enumerate() {
        if i > 0 {
            s.push_str("; ");
        }
        s.push_str(t.as_ref());
    }
    s.push(']');
    s
}
pub fn cnums<T: std::fmt::Display>(items: &[T]) -> String {
    clist(&items.iter().map(|x| x.to_string()).collect::<Vec<_>>())
}
pub fn cbool(b: bool) -> &'static str {
    if b {
        "true"
    } else {
        "false"
    }
}
pub fn copt(o: Option<String>) -> String {
    match o {
        None => "None".to_string(),
        Some(s) => format!("(Some {})", s),
    }
}
pub fn ctuple<S: AsRef<str>>(items: &[S]) -> String {
    let mut s = String::from("(");
    for (i, t) in items.iter().enumerate() {
        if i > 0 {
            s.push_str(", ");
        }
        s.push_str(t.as_ref());
    }
    s.push(')');
    s
}

// ---------------------------------------------------------------- cases
/// verdict of the property oracle evaluated on the implementation's run
#[derive(Clone, Debug)]
pub enum Verdict {
    /// the property held on this case (or the case is outside the property's domain)
    Ok,
    /// the property is violated on the real code: clause name + detail
    Fail { clause: String, detail: String },
}

pub struct Case {
    pub id: u64,
    /// Coq term of type case_Cxx
    pub input_coq: String,
    /// self-contained JSON description of the input (for replay)
    pub input_json: Value,
    pub obs: O,
    pub verdict: Verdict,
    /// known-finding class names this case belongs to (classifier on the input / observed behaviour)
    pub classes: Vec<String>,
    /// tags for the distribution statistics; a case is non-trivial iff `nontrivial` is set
    pub tags: Vec<String>,
    pub nontrivial: bool,
    /// canonical key for distinctness
    pub key: String,
}

pub struct Args {
    pub tier: String,
    pub seed: u64,
    pub out: PathBuf,
    pub replay: Option<PathBuf>,
    pub count: Option<u64>,
}
pub fn parse_args() -> Args {
    let mut a = Args { tier: "quick".into(), seed: 1, out: PathBuf::from("work"), replay: None, count: None };
    let argv: Vec<String> = std::env::args().collect();
    let mut i = 1;
    while i < argv.len() {
        match argv[i].as_str() {
            "--tier" => {
                a.tier = argv[i + 1].clone();
                i += 1
            }
            "--seed" => {
                a.seed = argv[i + 1].parse().expect("seed");
                i += 1
            }
            "--out" => {
                a.out = PathBuf::from(&argv[i + 1]);
                i += 1
            }
            "--replay" => {
                a.replay = Some(PathBuf::from(&argv[i + 1]));
                i += 1
            }
            "--count" => {
                a.count = Some(argv[i + 1].parse().expect("count"));
                i += 1
            }
            x => panic!("unknown argument {}", x),
        }
        i += 1;
    }
    a
}

pub struct Sink {
    pub prop: String,
    pub exec_module: String,
    /// name of the Coq type of inputs, of the agree function and of the run function
    pub case_ty: String,
    pub agree_fn: String,
    pub run_fn: String,
    pub out: PathBuf,
    pub shard_size: usize,
    pub cases: Vec<Case>,
    pub extra_stats: BTreeMap<String, Value>,
}

impl Sink {
    pub fn new(prop: &str, out: &Path) -> Sink {
        Sink {
            prop: prop.to_string(),
            exec_module: format!("Exec.{}", prop),
            case_ty: format!("case_{}", prop),
            agree_fn: format!("agree_{}", prop),
            run_fn: format!("run_{}", prop),
            out: out.to_path_buf(),
            shard_size: 100,
            cases: vec![],
            extra_stats: BTreeMap::new(),
        }
    }
    pub fn next_id(&self) -> u64 {
        self.cases.len() as u64
    }
    pub fn push(&mut self, c: Case) {
        self.cases.push(c);
    }
    /// writes cases_<k>.v, impl.json, stats.json
    pub fn finish(&self) {
        std::fs::create_dir_all(&self.out).unwrap();
        // remove stale shards
        if let Ok(rd) = std::fs::read_dir(&self.out) {
            for e in rd.flatten() {
                let n = e.file_name().to_string_lossy().to_string();
                if n.starts_with("cases_") {
                    let _ = std::fs::remove_file(e.path());
                }
            }
        }
        for (k, chunk) in self.cases.chunks(self.shard_size).enumerate() {
            let mut f = std::io::BufWriter::new(std::fs::File::create(self.out.join(format!("cases_{}.v", k))).unwrap());
            writeln!(f, "From Coq Require Import List NArith.").unwrap();
            writeln!(f, "From AdltV Require Import Base.Obs {}.", self.exec_module).unwrap();
            writeln!(f, "Import ListNotations.\nOpen Scope N_scope.").unwrap();
            writeln!(f, "Definition cases : list (N * {} * otree) := [", self.case_ty).unwrap();
            for (i, c) in chunk.iter().enumerate() {
                writeln!(f, " ({}, {}, {}){}", c.id, c.input_coq, c.obs.coq(), if i + 1 < chunk.len() { ";" } else { "" }).unwrap();
            }
            writeln!(f, "].").unwrap();
            writeln!(f, "Definition bad := Eval vm_compute in disagreeing_by {} cases.", self.agree_fn).unwrap();
            writeln!(f, "Print bad.").unwrap();
            writeln!(f, "Eval vm_compute in model_obs {} cases (firstn 3 bad).", self.run_fn).unwrap();
        }
        let mut tag_hist: BTreeMap<String, u64> = BTreeMap::new();
        let mut keys = std::collections::BTreeSet::new();
        let mut nontrivial_keys = std::collections::BTreeSet::new();
        let mut arr = vec![];
        for c in &self.cases {
            for t in &c.tags {
                *tag_hist.entry(t.clone()).or_insert(0) += 1;
            }
            keys.insert(c.key.clone());
            if c.nontrivial {
                nontrivial_keys.insert(c.key.clone());
            }
            let (ok, clause, detail) = match &c.verdict {
                Verdict::Ok => (true, String::new(), String::new()),
                Verdict::Fail { clause, detail } => (false, clause.clone(), detail.clone()),
            };
            arr.push(json!({"id": c.id, "input": c.input_json, "obs": c.obs.json(), "oracle_ok": ok,
                "clause": clause, "detail": detail, "classes": c.classes, "tags": c.tags, "nontrivial": c.nontrivial}));
        }
        std::fs::write(self.out.join("impl.json"), serde_json::to_vec(&Value::Array(arr)).unwrap()).unwrap();
        let stats = json!({"evaluations": self.cases.len(), "distinct": keys.len(), "distinct_nontrivial": nontrivial_keys.len(),
            "tags": tag_hist, "extra": self.extra_stats, "shards": (self.cases.len() + self.shard_size - 1) / self.shard_size});
        std::fs::write(self.out.join("stats.json"), serde_json::to_vec_pretty(&stats).unwrap()).unwrap();
    }
}

/// run `f`, catching panics (the default hook is silenced while it runs)
pub fn catch<T, F: FnOnce() -> T + std::panic::UnwindSafe>(f: F) -> Result<T, String> {
    let prev = std::panic::take_hook();
    std::panic::set_hook(Box::new(|_| {}));
    let r = std::panic::catch_unwind(f);
    std::panic::set_hook(prev);
    r.map_err(|e| {
        if let Some(s) = e.downcast_ref::<String>() {
            s.clone()
        } else if let Some(s) = e.downcast_ref::<&str>() {
            s.to_string()
        } else {
            "panic".to_string()
        }
    })
}

/// catch panics and also record the source location of the panic
pub fn catch_loc<T, F: FnOnce() -> T + std::panic::UnwindSafe>(f: F) -> Result<T, String> {
    use std::sync::{Arc, Mutex};
    let loc: Arc<Mutex<String>> = Arc::new(Mutex::new(String::new()));
    let loc2 = loc.clone();
    let prev = std::panic::take_hook();
    std::panic::set_hook(Box::new(move |info| {
        if let Some(l) = info.location() {
            *loc2.lock().unwrap() = format!("{}:{}", l.file(), l.line());
        }
    }));
    let r = std::panic::catch_unwind(f);
    std::panic::set_hook(prev);
    r.map_err(|e| {
        let msg = if let Some(s) = e.downcast_ref::<String>() {
            s.clone()
        } else if let Some(s) = e.downcast_ref::<&str>() {
            s.to_string()
        } else {
            "panic".to_string()
        };
        format!("{} @ {}", msg, loc.lock().unwrap())
    })
}

pub fn read_replay(p: &Path) -> Value {
    let v: Value = serde_json::from_slice(&std::fs::read(p).expect("replay file")).expect("json");
    v
}
